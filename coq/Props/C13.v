(* C13 -- symbolic_expressions_at (and the _offset variant) on a byte interval returns exactly one (interval, offset,
   expression) triple for every stored expression whose address (offset) is a member of the query range, in increasing
   offset order, and nothing for an interval without an address; on a section, module or IR it returns the union over the
   contained intervals, except that expressions stored beyond their interval's declared extent may be omitted.
   Model: Model/World.v (symx = ByteInterval._symbolic_expressions as an offset-sorted association list, sd_set, the
   OSymx* operations, bi_symx_at, bi_symx_at_off, sec_symx_at), Model/WorldRun.v (query, method 8: the module / IR scan),
   Model/WorldGuard.v.
   Invariant: InvDefs.SymxSorted (part of WorldInv.InvAll); the section scope also uses Forest, SyncAll, NonNeg.
   Only property theorems here; proofs in Proofs/SymxProofs.v, LookupProofs.v, WorldInv.v, WorldProps.v. *)
From Coq Require Import ZArith List Bool.
From V Require Import Result LazyTree World WorldGuard WorldRun ForestDefs InvDefs WorldInv WorldProps.
From V Require Import SymxProofs.
From V Require LookupBase LookupProofs ScheduleProofs.
Import ListNotations.
Open Scope Z_scope.

(* after any history every interval's map is strictly ascending in the offsets (so: one entry per offset, and
   iteration is by increasing offset) *)
Theorem C13_sorted : forall w known, reachable_k w known -> SymxSorted w.
Proof. exact reach_sorted. Qed.

Theorem C13_one_entry_per_offset : forall w known bi k e, reachable_k w known ->
  (In (k, e) (symx w bi) <-> dict_get Z.eqb k (symx w bi) = Some e).
Proof. intros w known bi k e R. exact (lookup_In_iff k e (symx w bi) (reach_sorted w known R bi)). Qed.

(* ---------- byte-interval scope: the answer IS the fresh scan, in map order ---------- *)

Theorem C13_bi_symx_at_exact : forall w bi q,
  bi_symx_at w bi q = match naddr (getn w bi) with
                      | None => []
                      | Some a => map (fun kv => (bi, fst kv, snd kv))
                                      (filter (fun kv => in_q (a + fst kv) q) (symx w bi))
                      end.
Proof. exact bi_symx_at_exact_gen. Qed.

Theorem C13_bi_symx_at_offset_exact : forall w bi q,
  bi_symx_at_off w bi q = map (fun kv => (bi, fst kv, snd kv)) (filter (fun kv => in_q (fst kv) q) (symx w bi)).
Proof. exact bi_symx_at_off_exact. Qed.

Theorem C13_bi_symx_at_members : forall w bi q b k e,
  In (b, k, e) (bi_symx_at w bi q) <->
  b = bi /\ In (k, e) (symx w bi) /\ exists a, naddr (getn w bi) = Some a /\ in_q (a + k) q = true.
Proof. exact bi_symx_at_In. Qed.

Theorem C13_bi_symx_at_offset_members : forall w bi q b k e,
  In (b, k, e) (bi_symx_at_off w bi q) <-> b = bi /\ In (k, e) (symx w bi) /\ in_q k q = true.
Proof. exact bi_symx_at_off_In. Qed.

Theorem C13_no_address_nothing : forall w bi q, naddr (getn w bi) = None -> bi_symx_at w bi q = [].
Proof. exact bi_symx_at_noaddr. Qed.

(* increasing offset order, each triple once *)
Theorem C13_ascending : forall w known bi q, reachable_k w known ->
  strictly_ascending (map (fun t => snd (fst t)) (bi_symx_at w bi q)) /\
  strictly_ascending (map (fun t => snd (fst t)) (bi_symx_at_off w bi q)).
Proof.
  intros w known bi q R. pose proof (reach_sorted w known R bi) as S.
  exact (conj (bi_symx_at_ascending w bi q S) (bi_symx_at_off_ascending w bi q S)).
Qed.

Theorem C13_no_duplicates : forall w known bi q, reachable_k w known ->
  NoDup (bi_symx_at w bi q) /\ NoDup (bi_symx_at_off w bi q).
Proof.
  intros w known bi q R. pose proof (reach_sorted w known R bi) as S.
  exact (conj (bi_symx_at_NoDup w bi q S) (bi_symx_at_off_NoDup w bi q S)).
Qed.

(* exactly one triple per qualifying stored expression *)
Theorem C13_count : forall w bi q a, naddr (getn w bi) = Some a ->
  length (bi_symx_at w bi q) = length (filter (fun kv => in_q (a + fst kv) q) (symx w bi)).
Proof. exact bi_symx_at_count. Qed.

(* ---------- section scope: the envelope ----------
   sound; complete for expressions inside their interval's declared extent (0 <= offset < size); no duplicates; the
   lookup leaves every map untouched *)
Theorem C13_sec_symx_at_envelope : forall w known s q, reachable_k w known -> kindof w s = KSec ->
  let r := snd (sec_symx_at w s q) in
  (forall bi k e, In (bi, k, e) r ->
     In bi (kids w s) /\ In (k, e) (symx w bi) /\ exists a, naddr (getn w bi) = Some a /\ in_q (a + k) q = true) /\
  (forall bi k e a, In bi (kids w s) -> In (k, e) (symx w bi) -> naddr (getn w bi) = Some a ->
     in_q (a + k) q = true -> 0 <= k < nsize (getn w bi) -> In (bi, k, e) r) /\
  NoDup r /\
  (forall bi, symx (fst (sec_symx_at w s q)) bi = symx w bi).
Proof.
  intros w known s q R. exact (sec_symx_at_envelope_good w known s q (reach_goodk w known R) (reach_sorted w known R)).
Qed.

(* what the section lookup computes, exactly: the interval answers of the intervals byte_intervals_on reports *)
Theorem C13_sec_symx_at_unfold : forall w s q,
  sec_symx_at w s q = (fst (sec_bis_on w s q), symx_over (fst (sec_bis_on w s q)) (snd (sec_bis_on w s q)) q).
Proof. exact sec_symx_at_unfold. Qed.

(* ---------- module and IR scope: the same envelope over all their sections ----------
   symx_scan w secs q is the scan WorldRun.query runs (method 8) over secs = the module's sections, resp. the sections
   of all modules of the IR *)
Theorem C13_query_runs_scan : forall w x kf q,
  (kindof w x = KMod ->
   query w x 8 kf q = (fst (symx_scan w (secs_of w x) q), L [A 0; triples_sx (snd (symx_scan w (secs_of w x) q))])) /\
  (kindof w x = KIR ->
   query w x 8 kf q = (fst (symx_scan w (flat_map (secs_of w) (mods_of w x)) q),
                       L [A 0; triples_sx (snd (symx_scan w (flat_map (secs_of w) (mods_of w x)) q))])).
Proof. intros w x kf q. exact (conj (query_symx_mod w x kf q) (query_symx_ir w x kf q)). Qed.

Theorem C13_mod_symx_at_envelope : forall w known m q, reachable_k w known ->
  let secs := secs_of w m in
  let r := snd (symx_scan w secs q) in
  (forall bi k e, In (bi, k, e) r ->
     exists s, In s secs /\ In bi (kids w s) /\ In (k, e) (symx w bi) /\
       exists a, naddr (getn w bi) = Some a /\ in_q (a + k) q = true) /\
  (forall s bi k e a, In s secs -> In bi (kids w s) -> In (k, e) (symx w bi) -> naddr (getn w bi) = Some a ->
     in_q (a + k) q = true -> 0 <= k < nsize (getn w bi) -> In (bi, k, e) r) /\
  NoDup r /\
  LookupBase.Good known (fst (symx_scan w secs q)) /\ LookupBase.agree w (fst (symx_scan w secs q)).
Proof.
  intros w known m q R. pose proof (reach_goodk w known R) as G.
  exact (symx_scan_envelope w known (secs_of w m) q G (reach_sorted w known R) (LookupProofs.secs_of_NoDup known w m G) (LookupProofs.secs_of_kind w m)).
Qed.

Theorem C13_ir_symx_at_envelope : forall w known ir q, reachable_k w known ->
  let secs := flat_map (secs_of w) (mods_of w ir) in
  let r := snd (symx_scan w secs q) in
  (forall bi k e, In (bi, k, e) r ->
     exists s, In s secs /\ In bi (kids w s) /\ In (k, e) (symx w bi) /\
       exists a, naddr (getn w bi) = Some a /\ in_q (a + k) q = true) /\
  (forall s bi k e a, In s secs -> In bi (kids w s) -> In (k, e) (symx w bi) -> naddr (getn w bi) = Some a ->
     in_q (a + k) q = true -> 0 <= k < nsize (getn w bi) -> In (bi, k, e) r) /\
  NoDup r /\
  LookupBase.Good known (fst (symx_scan w secs q)) /\ LookupBase.agree w (fst (symx_scan w secs q)).
Proof.
  intros w known ir q R. pose proof (reach_goodk w known R) as G.
  exact (symx_scan_envelope w known _ q G (reach_sorted w known R) (ScheduleProofs.ir_secs_NoDup known w ir G) (ScheduleProofs.ir_secs_kind w ir)).
Qed.

(* non-vacuity: section 3 with intervals 4 (address 100, size 16) and 5 (no address).  Item set, update with a repeated
   key, setdefault on a present and on an absent key (offset 20 lies beyond the interval's size); then delete, popitem,
   address changes, whole-map assignment. *)
Example C13_example :
  let Q a b s := {| qstart := a; qstop := b; qstep := s |} in
  let ops1 := [ONew 1 KIR 101 None 0 0 0 PNone; ONew 2 KMod 102 None 0 0 0 PNone; ONew 3 KSec 103 None 0 0 0 PNone;
     ONew 4 KBI 104 (Some 100) 16 0 0 PNone; ONew 5 KBI 105 None 16 0 0 PNone;
     OModAppend 1 2; OSetParent 3 (Some 2); OSet 3 [KBI] SUpdate [[4; 5]];
     OSymxSet 4 8 80; OSymxSet 4 0 81; OSymxUpdate 4 [(4, 82); (12, 83); (4, 84)]; OSymxSetdefault 4 8 85;
     OSymxSetdefault 4 20 86; OSymxSet 5 0 90] in
  let ops2 := [OSymxDel 4 0; OSymxPopitem 4; OAttrAddr 4 (Some 200); OAttrAddr 5 (Some 300);
               OSymxAssign 5 [(6, 91); (2, 92)]] in
  let wa := fst (run_guarded w0 [] ops1) in
  let wb := fst (run_guarded w0 [] (ops1 ++ ops2)) in
  all_guarded_ok w0 [] (ops1 ++ ops2) = true /\
  symx wa 4 = [(0, 81); (4, 84); (8, 80); (12, 83); (20, 86)] /\
  bi_symx_at wa 4 (Q 100 200 4) = [(4, 0, 81); (4, 4, 84); (4, 8, 80); (4, 12, 83); (4, 20, 86)] /\
  bi_symx_at wa 4 (Q 104 113 8) = [(4, 4, 84); (4, 12, 83)] /\
  bi_symx_at_off wa 4 (Q 0 13 1) = [(4, 0, 81); (4, 4, 84); (4, 8, 80); (4, 12, 83)] /\
  (bi_symx_at wa 5 (Q 0 1000 1), bi_symx_at_off wa 5 (Q 0 1000 1)) = ([], [(5, 0, 90)]) /\
  snd (sec_symx_at wa 3 (Q 100 200 1)) = [(4, 0, 81); (4, 4, 84); (4, 8, 80); (4, 12, 83); (4, 20, 86)] /\
  (* the envelope is real: the expression at offset 20 (address 120) lies beyond interval 4's extent [100, 116) *)
  (bi_symx_at wa 4 (Q 116 200 1), snd (sec_symx_at wa 3 (Q 116 200 1))) = ([(4, 20, 86)], []) /\
  step wa (OSymxPop 4 7) = Err EKey /\
  (symx wb 4, symx wb 5) = ([(8, 80); (12, 83); (20, 86)], [(2, 92); (6, 91)]) /\
  bi_symx_at wb 4 (Q 100 200 1) = [] /\
  snd (sec_symx_at wb 3 (Q 200 400 2)) = [(4, 8, 80); (4, 12, 83); (4, 20, 86); (5, 2, 92); (5, 6, 91)] /\
  snd (symx_scan wb (secs_of wb 2) (Q 200 400 2)) = [(4, 8, 80); (4, 12, 83); (4, 20, 86); (5, 2, 92); (5, 6, 91)] /\
  snd (query wb 1 8 0 (Q 300 400 1)) = L [A 0; L [L [A 5; A 2; A 92]; L [A 5; A 6; A 91]]].
Proof. vm_compute. repeat split. Qed.

Print Assumptions C13_sorted.
Print Assumptions C13_one_entry_per_offset.
Print Assumptions C13_bi_symx_at_exact.
Print Assumptions C13_bi_symx_at_offset_exact.
Print Assumptions C13_bi_symx_at_members.
Print Assumptions C13_bi_symx_at_offset_members.
Print Assumptions C13_no_address_nothing.
Print Assumptions C13_ascending.
Print Assumptions C13_no_duplicates.
Print Assumptions C13_count.
Print Assumptions C13_sec_symx_at_envelope.
Print Assumptions C13_sec_symx_at_unfold.
Print Assumptions C13_query_runs_scan.
Print Assumptions C13_mod_symx_at_envelope.
Print Assumptions C13_ir_symx_at_envelope.
Print Assumptions C13_example.
