(* C06 -- byte_intervals_on/at on a section, module or IR and sections_on/at on a module or IR return exactly the
   members a scan of the current structure selects, each once ('on': address known, size non-zero, range intersects;
   'at': address is a member of the query range); a section's address and size are None unless it has at least one
   interval and all have addresses, and otherwise the lowest interval address and the distance to the highest end.
   Model: Model/World.v (the section's lazy interval tree, force, sec_bis_on / sec_bis_at, mod_lift, ir_lift,
   sec_extent, sections_on / sections_at), Model/LazyTree.v, Model/WorldGuard.v.
   Invariants: Forest, SyncAll, NonNeg (parts of WorldInv.InvAll).
   Only property theorems here; proofs in Proofs/LookupBase.v, LookupProofs.v, ScheduleProofs.v, WorldInv.v,
   WorldProps.v. *)
From Coq Require Import ZArith List Bool.
From V Require Import Result LazyTree World WorldGuard WorldRun ForestDefs InvDefs WorldInv WorldProps.
From V Require Import LookupBase LookupProofs ScheduleProofs.
Import ListNotations.
Open Scope Z_scope.

(* 'on': on_spec a size q = true <-> 0 < size /\ max (qstart q) a < min (qstop q) (a + size) *)
Theorem C06_on_criterion : forall lo size q, on_spec lo size q = true <->
  0 < size /\ Z.max (qstart q) lo < Z.min (qstop q) (lo + size).
Proof. exact on_spec_true. Qed.

(* ---------- byte_intervals_on / byte_intervals_at ---------- *)

Theorem C06_sec_bis_on_exact : forall w known s q, reachable_k w known -> kindof w s = KSec ->
  NoDup (snd (sec_bis_on w s q)) /\
  forall bi, In bi (snd (sec_bis_on w s q)) <->
    In bi (kids w s) /\ exists a, naddr (getn w bi) = Some a /\ on_spec a (nsize (getn w bi)) q = true.
Proof. intros w known s q R. exact (sec_bis_on_exact w s q (reach_sync w known R) (reach_nonneg w known R)). Qed.

Theorem C06_sec_bis_at_exact : forall w known s q, reachable_k w known -> kindof w s = KSec ->
  NoDup (snd (sec_bis_at w s q)) /\
  forall bi, In bi (snd (sec_bis_at w s q)) <->
    In bi (kids w s) /\ exists a, naddr (getn w bi) = Some a /\ in_q a q = true.
Proof. intros w known s q R. exact (sec_bis_at_exact w s q (reach_sync w known R) (reach_nonneg w known R)). Qed.

Theorem C06_mod_bis_on_exact : forall w known m q, reachable_k w known ->
  (GoodK known (fst (mod_lift sec_bis_on w m q)) /\ agree w (fst (mod_lift sec_bis_on w m q))) /\
  NoDup (snd (mod_lift sec_bis_on w m q)) /\
  forall bi, In bi (snd (mod_lift sec_bis_on w m q)) <->
    exists s, In s (secs_of w m) /\ In bi (kids w s) /\
      exists a, naddr (getn w bi) = Some a /\ on_spec a (nsize (getn w bi)) q = true.
Proof. intros w known m q R. exact (mod_bis_on_exact known w m q (reach_goodk w known R)). Qed.

Theorem C06_mod_bis_at_exact : forall w known m q, reachable_k w known ->
  (GoodK known (fst (mod_lift sec_bis_at w m q)) /\ agree w (fst (mod_lift sec_bis_at w m q))) /\
  NoDup (snd (mod_lift sec_bis_at w m q)) /\
  forall bi, In bi (snd (mod_lift sec_bis_at w m q)) <->
    exists s, In s (secs_of w m) /\ In bi (kids w s) /\
      exists a, naddr (getn w bi) = Some a /\ in_q a q = true.
Proof. intros w known m q R. exact (mod_bis_at_exact known w m q (reach_goodk w known R)). Qed.

Theorem C06_ir_bis_on_exact : forall w known ir q, reachable_k w known ->
  (GoodK known (fst (ir_lift sec_bis_on w ir q)) /\ agree w (fst (ir_lift sec_bis_on w ir q))) /\
  NoDup (snd (ir_lift sec_bis_on w ir q)) /\
  forall bi, In bi (snd (ir_lift sec_bis_on w ir q)) <->
    exists m, In m (kids w ir) /\ exists s, In s (secs_of w m) /\ In bi (kids w s) /\
      exists a, naddr (getn w bi) = Some a /\ on_spec a (nsize (getn w bi)) q = true.
Proof. intros w known ir q R. exact (ir_bis_on_exact known w ir q (reach_goodk w known R)). Qed.

Theorem C06_ir_bis_at_exact : forall w known ir q, reachable_k w known ->
  (GoodK known (fst (ir_lift sec_bis_at w ir q)) /\ agree w (fst (ir_lift sec_bis_at w ir q))) /\
  NoDup (snd (ir_lift sec_bis_at w ir q)) /\
  forall bi, In bi (snd (ir_lift sec_bis_at w ir q)) <->
    exists m, In m (kids w ir) /\ exists s, In s (secs_of w m) /\ In bi (kids w s) /\
      exists a, naddr (getn w bi) = Some a /\ in_q a q = true.
Proof. intros w known ir q R. exact (ir_bis_at_exact known w ir q (reach_goodk w known R)). Qed.

(* secs_of w m: the module's children of kind section *)
Theorem C06_secs_of : forall w m s, In s (secs_of w m) <-> In s (kids w m) /\ kindof w s = KSec.
Proof. exact secs_of_In. Qed.

(* ---------- Section.address / Section.size ---------- *)

(* the lazily computed extent is the function ext_pure of the current structure ... *)
Theorem C06_sec_extent_exact : forall w known s, reachable_k w known -> kindof w s = KSec ->
  snd (sec_extent w s) = ext_pure w s.
Proof. intros w known s R. exact (sec_extent_exact w known s (reach_forest w known R) (reach_sync w known R)). Qed.

(* ... which is (address, size) exactly when there is an interval and all intervals have addresses: then the address
   is the lowest interval address and address + size the highest interval end ... *)
Theorem C06_extent_some : forall w s lo sz, ext_pure w s = Some (lo, sz) ->
  kids w s <> [] /\ (forall bi, In bi (kids w s) -> naddr (getn w bi) <> None) /\
  (exists bi, In bi (kids w s) /\ naddr (getn w bi) = Some lo) /\
  (forall bi a, In bi (kids w s) -> naddr (getn w bi) = Some a -> lo <= a) /\
  (exists bi a, In bi (kids w s) /\ naddr (getn w bi) = Some a /\ a + nsize (getn w bi) = lo + sz) /\
  (forall bi a, In bi (kids w s) -> naddr (getn w bi) = Some a -> a + nsize (getn w bi) <= lo + sz).
Proof. exact ext_pure_Some. Qed.

(* ... and None exactly otherwise *)
Theorem C06_extent_none : forall w s, ext_pure w s = None <->
  kids w s = [] \/ exists bi, In bi (kids w s) /\ naddr (getn w bi) = None.
Proof. exact ext_pure_None. Qed.

(* ---------- sections_on / sections_at (module and IR) ---------- *)

Theorem C06_sections_on_exact : forall w known secs q, reachable_k w known -> NoDup secs ->
  (forall s, In s secs -> kindof w s = KSec) ->
  NoDup (snd (sections_on w secs q)) /\
  forall s, In s (snd (sections_on w secs q)) <->
    In s secs /\ exists a sz, ext_pure w s = Some (a, sz) /\
      (Z.max (qstart q) a <? Z.min (qstop q) (a + sz)) = true.
Proof. intros w known secs q R. exact (sections_on_exact known w secs q (reach_goodk w known R)). Qed.

Theorem C06_sections_at_exact : forall w known secs q, reachable_k w known -> NoDup secs ->
  (forall s, In s secs -> kindof w s = KSec) ->
  NoDup (snd (sections_at w secs q)) /\
  forall s, In s (snd (sections_at w secs q)) <->
    In s secs /\ exists a sz, ext_pure w s = Some (a, sz) /\ in_q a q = true.
Proof. intros w known secs q R. exact (sections_at_exact known w secs q (reach_goodk w known R)). Qed.

Theorem C06_mod_sections_on_exact : forall w known m q, reachable_k w known ->
  NoDup (snd (sections_on w (secs_of w m) q)) /\
  forall s, In s (snd (sections_on w (secs_of w m) q)) <->
    In s (secs_of w m) /\ exists a sz, ext_pure w s = Some (a, sz) /\
      (Z.max (qstart q) a <? Z.min (qstop q) (a + sz)) = true.
Proof. intros w known m q R. exact (mod_sections_on_exact w known m q (reach_goodk w known R)). Qed.

Theorem C06_mod_sections_at_exact : forall w known m q, reachable_k w known ->
  NoDup (snd (sections_at w (secs_of w m) q)) /\
  forall s, In s (snd (sections_at w (secs_of w m) q)) <->
    In s (secs_of w m) /\ exists a sz, ext_pure w s = Some (a, sz) /\ in_q a q = true.
Proof. intros w known m q R. exact (mod_sections_at_exact w known m q (reach_goodk w known R)). Qed.

Theorem C06_ir_sections_on_exact : forall w known ir q, reachable_k w known ->
  NoDup (snd (sections_on w (flat_map (secs_of w) (mods_of w ir)) q)) /\
  forall s, In s (snd (sections_on w (flat_map (secs_of w) (mods_of w ir)) q)) <->
    In s (flat_map (secs_of w) (mods_of w ir)) /\ exists a sz, ext_pure w s = Some (a, sz) /\
      (Z.max (qstart q) a <? Z.min (qstop q) (a + sz)) = true.
Proof. intros w known ir q R. exact (ir_sections_on_exact w known ir q (reach_goodk w known R)). Qed.

Theorem C06_ir_sections_at_exact : forall w known ir q, reachable_k w known ->
  NoDup (snd (sections_at w (flat_map (secs_of w) (mods_of w ir)) q)) /\
  forall s, In s (snd (sections_at w (flat_map (secs_of w) (mods_of w ir)) q)) <->
    In s (flat_map (secs_of w) (mods_of w ir)) /\ exists a sz, ext_pure w s = Some (a, sz) /\ in_q a q = true.
Proof. intros w known ir q R. exact (ir_sections_at_exact w known ir q (reach_goodk w known R)). Qed.

Theorem C06_ir_secs : forall w ir s, In s (flat_map (secs_of w) (mods_of w ir)) <->
  exists m, In m (kids w ir) /\ In s (kids w m) /\ kindof w s = KSec.
Proof. exact ir_secs_In. Qed.

(* non-vacuity: IR 1 > module 2 > sections 3 and 4; intervals 5 (100, size 50), 6 (120, size 100), 7 (300, size 0)
   in section 3 and 8 (400, size 16) in section 4; both section indexes are forced.  Then: address of 5 := 10, size of
   6 := 5, address of 7 := None (state wm), index forced, address of 7 := 0, 8 moved into section 3, 5 discarded
   (state wb); finally address of 6 := None (state wc). *)
Example C06_example :
  let Q a b s := {| qstart := a; qstop := b; qstep := s |} in
  let ops1 := [ONew 1 KIR 101 None 0 0 0 PNone; ONew 2 KMod 102 None 0 0 0 PNone; ONew 3 KSec 103 None 0 0 0 PNone;
     ONew 4 KSec 104 None 0 0 0 PNone;
     ONew 5 KBI 105 (Some 100) 50 0 0 PNone; ONew 6 KBI 106 (Some 120) 100 0 0 PNone; ONew 7 KBI 107 (Some 300) 0 0 0 PNone;
     ONew 8 KBI 108 (Some 400) 16 0 0 PNone;
     OModAppend 1 2; OSet 2 [KSec] SUpdate [[3; 4]]; OSet 3 [KBI] SUpdate [[5; 6; 7]]; OSetParent 8 (Some 4);
     OTouch 3; OTouch 4] in
  let opsm := [OAttrAddr 5 (Some 10); OAttrSize 6 5; OAttrAddr 7 None] in
  let ops2 := opsm ++ [OTouch 3; OAttrAddr 7 (Some 0); OSetParent 8 (Some 3); OSet 3 [KBI] SDiscard [[5]]] in
  let ops3 := [OAttrAddr 6 None] in
  let wa := fst (run_guarded w0 [] ops1) in
  let wm := fst (run_guarded w0 [] (ops1 ++ opsm)) in
  let wb := fst (run_guarded w0 [] (ops1 ++ ops2)) in
  let wc := fst (run_guarded w0 [] (ops1 ++ ops2 ++ ops3)) in
  all_guarded_ok w0 [] (ops1 ++ ops2 ++ ops3) = true /\
  (snd (sec_extent wa 3), snd (sec_extent wa 4), snd (sec_bis_on wa 3 (Q 110 130 1)),
   snd (sec_bis_at wa 3 (Q 100 301 20)), snd (sec_bis_on wa 3 (Q 290 310 1)))
  = (Some (100, 200), Some (400, 16), [5; 6], [5; 6; 7], []) /\
  (snd (sections_on wa (secs_of wa 2) (Q 0 1000 1)), snd (sections_at wa (flat_map (secs_of wa) (mods_of wa 1)) (Q 100 401 100)),
   snd (ir_lift sec_bis_on wa 1 (Q 0 1000 1)), snd (mod_lift sec_bis_at wa 2 (Q 0 1000 1)))
  = ([3; 4], [3; 4], [5; 6; 8], [5; 6; 7; 8]) /\
  (snd (sec_extent wm 3), snd (sec_extent wb 3), snd (sec_extent wb 4), snd (sec_bis_on wb 3 (Q 0 1000 1)),
   snd (sec_bis_at wb 3 (Q 0 1000 1)), snd (sections_on wb (secs_of wb 2) (Q 0 1000 1)))
  = (None, Some (0, 416), None, [6; 8], [6; 7; 8], [3]) /\
  (snd (sec_extent wc 3), snd (sec_bis_at wc 3 (Q 0 1000 1)), snd (sections_at wc (secs_of wc 2) (Q 0 1000 1)))
  = (None, [7; 8], []).
Proof. vm_compute. repeat split. Qed.

Print Assumptions C06_on_criterion.
Print Assumptions C06_sec_bis_on_exact.
Print Assumptions C06_sec_bis_at_exact.
Print Assumptions C06_mod_bis_on_exact.
Print Assumptions C06_mod_bis_at_exact.
Print Assumptions C06_ir_bis_on_exact.
Print Assumptions C06_ir_bis_at_exact.
Print Assumptions C06_secs_of.
Print Assumptions C06_sec_extent_exact.
Print Assumptions C06_extent_some.
Print Assumptions C06_extent_none.
Print Assumptions C06_sections_on_exact.
Print Assumptions C06_sections_at_exact.
Print Assumptions C06_mod_sections_on_exact.
Print Assumptions C06_mod_sections_at_exact.
Print Assumptions C06_ir_sections_on_exact.
Print Assumptions C06_ir_sections_at_exact.
Print Assumptions C06_ir_secs.
Print Assumptions C06_example.
