(* C18 placeholder: theorems land with Proofs/DeepEqProofs.v *)
From Coq Require Import ZArith List.
From V Require Import Result Proto DeepEq.
Import ListNotations.
Theorem C18_block_deq_refl : forall b, block_deq b b = true.
Proof. intro b. unfold block_deq. rewrite Bool.eqb_reflx, !Z.eqb_refl. destruct (cb_code b); reflexivity. Qed.
Print Assumptions C18_block_deq_refl.
