(* C18 -- deep_eq is exact structural equality.
   For two contents in the domain (deq_ok: UUIDs pairwise distinct, every reference resolves, expression offsets and
   AuxData keys pairwise distinct, data blocks carry no decode mode) deep_eq is true iff they have the same normal form
   `norm`: the content with every collection that the API treats as a set (modules, sections, intervals, blocks, symbols,
   expressions, flags, attributes, edges, AuxData keys) put in canonical order and AuxData values erased -- i.e. the same
   UUIDs and the same value in every compared field.  Hence it is reflexive, symmetric, insensitive to iteration order,
   and false as soon as one compared field differs.
   Model: Model/DeepEq.v (the deep_eq methods of ir.py, module.py, section.py, byteinterval.py, block.py, symbol.py,
   symbolicexpression.py, cfg.py, auxdata.py, as coded: sorted by UUID, zipped after a length check, references compared
   by the deep_eq of what they name) over the content records of Model/Proto.v.  Proofs: Proofs/DeepEqBase.v,
   Proofs/DeepEqProofs.v.  Trusted: nothing beyond the model's agreement with the implementation (differential harness). *)
From Coq Require Import ZArith List Permutation.
From V Require Import Result Proto DeepEq DeepEqProofs.
Import ListNotations.
Open Scope Z_scope.

(* ---------- main statement ---------- *)
Theorem C18_deep_eq_iff : forall a b, deq_ok a = true -> deq_ok b = true -> (ir_deq a b = true <-> norm a = norm b).
Proof. exact deep_eq_iff. Qed.

Theorem C18_refl : forall a, deq_ok a = true -> ir_deq a a = true.
Proof. exact deep_eq_refl. Qed.

Theorem C18_sym : forall a b, deq_ok a = true -> deq_ok b = true -> ir_deq a b = ir_deq b a.
Proof. exact deep_eq_sym. Qed.

(* two listings of the same content (same normal form) are indistinguishable by deep_eq against anything *)
Theorem C18_order_insensitive : forall a a', deq_ok a = true -> deq_ok a' = true -> norm a = norm a' ->
  forall b, deq_ok b = true -> ir_deq a b = ir_deq a' b.
Proof. exact deep_eq_order_insensitive. Qed.

(* any difference that survives normalisation -- a single compared field is enough -- makes it false *)
Theorem C18_single_field : forall a b, deq_ok a = true -> deq_ok b = true -> norm a <> norm b -> ir_deq a b = false.
Proof. exact deep_eq_single_field. Qed.

(* AuxData: only the keys are compared *)
Theorem C18_aux_values_ignored : forall a aux', map fst aux' = map fst (cr_aux a) ->
  norm {| cr_uuid := cr_uuid a; cr_version := cr_version a; cr_modules := cr_modules a; cr_edges := cr_edges a;
          cr_aux := aux' |} = norm a.
Proof. exact aux_values_ignored. Qed.

(* the domain contains every self-contained content of C01 whose AuxData tables are dicts (no key twice) *)
Theorem C18_wf_in_domain : forall c, wf c = true -> aux_keys_ok c = true -> deq_ok c = true.
Proof. exact wf_deq_ok. Qed.

(* ---------- what `norm` forgets is exactly iteration order ---------- *)
Theorem C18_norm_modules_order : forall a ms', NoDup (map cm_uuid (cr_modules a)) -> Permutation (cr_modules a) ms' ->
  norm {| cr_uuid := cr_uuid a; cr_version := cr_version a; cr_modules := ms'; cr_edges := cr_edges a;
          cr_aux := cr_aux a |} = norm a.
Proof. exact norm_modules_order. Qed.

Theorem C18_norm_sections_order : forall m ss', NoDup (map cs_uuid (cm_sections m)) -> Permutation (cm_sections m) ss' ->
  norm_module {| cm_uuid := cm_uuid m; cm_name := cm_name m; cm_binary_path := cm_binary_path m; cm_isa := cm_isa m;
                 cm_file_format := cm_file_format m; cm_byte_order := cm_byte_order m;
                 cm_preferred_addr := cm_preferred_addr m; cm_rebase_delta := cm_rebase_delta m; cm_entry := cm_entry m;
                 cm_proxies := cm_proxies m; cm_sections := ss'; cm_symbols := cm_symbols m; cm_aux := cm_aux m |}
  = norm_module m.
Proof. exact norm_module_sections_order. Qed.

Theorem C18_norm_symbols_order : forall m ys', NoDup (map cy_uuid (cm_symbols m)) -> Permutation (cm_symbols m) ys' ->
  norm_module {| cm_uuid := cm_uuid m; cm_name := cm_name m; cm_binary_path := cm_binary_path m; cm_isa := cm_isa m;
                 cm_file_format := cm_file_format m; cm_byte_order := cm_byte_order m;
                 cm_preferred_addr := cm_preferred_addr m; cm_rebase_delta := cm_rebase_delta m; cm_entry := cm_entry m;
                 cm_proxies := cm_proxies m; cm_sections := cm_sections m; cm_symbols := ys'; cm_aux := cm_aux m |}
  = norm_module m.
Proof. exact norm_module_symbols_order. Qed.

Theorem C18_norm_intervals_order : forall s bs', NoDup (map ci_uuid (cs_bis s)) -> Permutation (cs_bis s) bs' ->
  norm_section {| cs_uuid := cs_uuid s; cs_name := cs_name s; cs_flags := cs_flags s; cs_bis := bs' |} = norm_section s.
Proof. exact norm_section_bis_order. Qed.

Theorem C18_norm_blocks_order : forall b ks', NoDup (map cb_uuid (ci_blocks b)) -> Permutation (ci_blocks b) ks' ->
  norm_bi {| ci_uuid := ci_uuid b; ci_addr := ci_addr b; ci_size := ci_size b; ci_contents := ci_contents b;
             ci_blocks := ks'; ci_symx := ci_symx b |} = norm_bi b.
Proof. exact norm_bi_blocks_order. Qed.

Theorem C18_norm_expressions_order : forall b xs', NoDup (map fst (ci_symx b)) -> Permutation (ci_symx b) xs' ->
  norm_bi {| ci_uuid := ci_uuid b; ci_addr := ci_addr b; ci_size := ci_size b; ci_contents := ci_contents b;
             ci_blocks := ci_blocks b; ci_symx := xs' |} = norm_bi b.
Proof. exact norm_bi_symx_order. Qed.

(* flags and attributes: lists denoting the same set have the same normal form *)
Theorem C18_norm_set_canonical : forall l1 l2, (forall x, In x l1 <-> In x l2) -> norm_set l1 = norm_set l2.
Proof. exact norm_set_canonical. Qed.

(* ---------- the same statement level by level ---------- *)
Theorem C18_block_iff : forall x y, blk_ok x = true -> blk_ok y = true -> (block_deq x y = true <-> x = y).
Proof. exact block_deq_iff. Qed.

Theorem C18_symbol_fwd : forall ca cb a b, symbol_deq ca cb a b = true -> a = b.
Proof. exact symbol_deq_fwd. Qed.

Theorem C18_symbol_refl : forall ca cb a,
  (forall r, cy_payload a = CPRef r -> rnode_deq (find_ref ca r) (find_ref cb r) = true) -> symbol_deq ca cb a a = true.
Proof. exact symbol_deq_refl. Qed.

Theorem C18_expression_fwd : forall ca cb a b, expr_deq ca cb a b = true ->
  cx_val a = cx_val b /\ norm_set (cx_attrs a) = norm_set (cx_attrs b).
Proof. exact expr_deq_fwd. Qed.

Theorem C18_expression_bwd : forall ca cb a b,
  (forall s, In s (expr_syms a) -> osym_deq ca cb s s = true) ->
  cx_val a = cx_val b -> norm_set (cx_attrs a) = norm_set (cx_attrs b) -> expr_deq ca cb a b = true.
Proof. exact expr_deq_bwd. Qed.

(* ctx_ok ca cb: the references of ca resolve in cb to deep_eq nodes; it holds whenever norm ca = norm cb *)
Theorem C18_context_of_norm : forall a b, deq_ok a = true -> deq_ok b = true -> norm a = norm b -> ctx_ok a b.
Proof. exact ctx_ok_of_norm. Qed.

Theorem C18_interval_iff : forall ca cb a b, ctx_ok ca cb -> bi_deq_ok ca a = true -> bi_deq_ok cb b = true ->
  (bi_deq ca cb a b = true <-> norm_bi a = norm_bi b).
Proof. exact bi_deq_iff. Qed.

Theorem C18_section_iff : forall ca cb a b, ctx_ok ca cb -> sec_deq_ok ca a = true -> sec_deq_ok cb b = true ->
  (section_deq ca cb a b = true <-> norm_section a = norm_section b).
Proof. exact section_deq_iff. Qed.

Theorem C18_module_iff : forall ca cb a b, ctx_ok ca cb -> module_deq_ok ca a = true -> module_deq_ok cb b = true ->
  (module_deq ca cb a b = true <-> norm_module a = norm_module b).
Proof. exact module_deq_iff. Qed.

Theorem C18_cfg_iff : forall a b, ctx_ok a b -> deq_ok a = true ->
  (cfg_deq a b = true <-> sort edge_leb (cr_edges a) = sort edge_leb (cr_edges b)).
Proof. exact cfg_deq_iff. Qed.

(* ---------- the domain cannot be enlarged to "unique UUIDs + resolvable references" alone ---------- *)
(* DataBlock.deep_eq ignores a decode mode: a data block record carrying one is deep_eq to the one without *)
Theorem C18_iff_refuted_without_dm_clause :
  exists a b, deq_ok_task a = true /\ deq_ok_task b = true /\ ir_deq a b = true /\ norm a <> norm b.
Proof. exact deep_eq_iff_refuted_without_dm_clause. Qed.

(* AuxData keys are compared as sets: an association list with a repeated key is deep_eq to the one without *)
Theorem C18_iff_refuted_without_aux_clause :
  exists a b, deq_ok_task a = true /\ deq_ok_task b = true /\ wf a = true /\ wf b = true
              /\ ir_deq a b = true /\ norm a <> norm b.
Proof. exact deep_eq_iff_refuted_without_aux_clause. Qed.

(* ---------- non-vacuity ---------- *)
Example C18_ex_domain : wf ex0 = true /\ deq_ok ex0 = true.
Proof. exact ex0_wf. Qed.

(* every child list, flag list, attribute list, edge list and AuxData table in the opposite order *)
Example C18_ex_order : let a := ex0 in let b := ex_ir true false CPNone None None in
  wf b = true /\ deq_ok b = true /\ ir_deq a b = true /\ ir_deq b a = true.
Proof. exact ex_order. Qed.

(* one field changed: a block's kind; a symbol's payload None -> value 0; an interval's address None -> 0;
   an edge's label None -> all-false label of type 0 *)
Example C18_ex_block_kind : let a := ex0 in let b := ex_ir false true CPNone None None in
  wf b = true /\ deq_ok b = true /\ ir_deq a b = false /\ ir_deq b a = false.
Proof. exact ex_block_kind. Qed.

Example C18_ex_symbol_payload : let a := ex0 in let b := ex_ir false false (CPVal 0) None None in
  wf b = true /\ deq_ok b = true /\ ir_deq a b = false /\ ir_deq b a = false.
Proof. exact ex_symbol_payload. Qed.

Example C18_ex_interval_addr : let a := ex0 in let b := ex_ir false false CPNone (Some 0) None in
  wf b = true /\ deq_ok b = true /\ ir_deq a b = false /\ ir_deq b a = false.
Proof. exact ex_interval_addr. Qed.

Example C18_ex_edge_label : let a := ex0 in let b := ex_ir false false CPNone None (Some (0, false, false)) in
  wf b = true /\ deq_ok b = true /\ ir_deq a b = false /\ ir_deq b a = false.
Proof. exact ex_edge_label. Qed.

Example C18_ex_order_and_kind : let a := ex0 in let b := ex_ir true true CPNone None None in
  ir_deq a b = false /\ ir_deq b a = false.
Proof. exact ex_order_and_kind. Qed.

Example C18_ex_aux_values :
  let a := ex0 in
  let b := {| cr_uuid := cr_uuid a; cr_version := cr_version a; cr_modules := cr_modules a; cr_edges := cr_edges a;
              cr_aux := [([99], {| a_type := [7; 7]; a_data := [] |})] |} in
  ir_deq a b = true /\ ir_deq b a = true.
Proof. exact ex_aux_values. Qed.

Print Assumptions C18_deep_eq_iff.
Print Assumptions C18_refl.
Print Assumptions C18_sym.
Print Assumptions C18_order_insensitive.
Print Assumptions C18_single_field.
Print Assumptions C18_aux_values_ignored.
Print Assumptions C18_wf_in_domain.
Print Assumptions C18_norm_modules_order.
Print Assumptions C18_norm_sections_order.
Print Assumptions C18_norm_symbols_order.
Print Assumptions C18_norm_intervals_order.
Print Assumptions C18_norm_blocks_order.
Print Assumptions C18_norm_expressions_order.
Print Assumptions C18_norm_set_canonical.
Print Assumptions C18_block_iff.
Print Assumptions C18_symbol_fwd.
Print Assumptions C18_symbol_refl.
Print Assumptions C18_expression_fwd.
Print Assumptions C18_expression_bwd.
Print Assumptions C18_context_of_norm.
Print Assumptions C18_interval_iff.
Print Assumptions C18_section_iff.
Print Assumptions C18_module_iff.
Print Assumptions C18_cfg_iff.
Print Assumptions C18_iff_refuted_without_dm_clause.
Print Assumptions C18_iff_refuted_without_aux_clause.
