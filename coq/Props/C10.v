(* C10 -- module.symbols_named(name) yields exactly the symbols currently in that module with that name, and
   block.references exactly the symbols of the block's current module whose referent is that block (nothing when the
   block has no module), each once; across renames, payload changes, adding / removing / moving symbols and blocks.
   Model: Model/World.v (nix / rix = Module._symbol_name_index / _symbol_referent_index, mod_index_add /
   mod_index_discard, sym_attr, symbols_named, references), Model/WorldGuard.v.
   Invariant: InvDefs.SymIx together with WorldInv.FreshIx, parts of WorldInv.InvAll.
   Only property theorems here; proofs in Proofs/SymIxBase.v, Proofs/SymIxProofs.v, Proofs/WorldInv.v. *)
From Coq Require Import ZArith List Bool.
From V Require Import Result LazyTree World WorldGuard ForestDefs InvDefs WorldInv WorldProps.
From V Require SymIxProofs ScheduleProofs.
Import ListNotations.
Open Scope Z_scope.

(* after any history: each qualifying symbol exactly once, nothing else *)
Theorem C10_symbols_named_exact : forall w known m nm, reachable_k w known -> has w m = true -> kindof w m = KMod ->
  NoDup (symbols_named w m nm) /\
  forall y, In y (symbols_named w m nm) <-> In y (kids w m) /\ kindof w y = KSym /\ nname (getn w y) = nm.
Proof.
  intros w known m nm R. exact (SymIxProofs.symbols_named_exact w known m nm (reach_forest w known R) (reach_symix w known R)).
Qed.

(* b is a block or a proxy (or anything else); when it has no module the right-hand side is empty *)
Theorem C10_references_exact : forall w known b, reachable_k w known -> has w b = true ->
  NoDup (references w b) /\
  forall y, In y (references w b) <->
    exists m, module_of w b = Some m /\ In y (kids w m) /\ kindof w y = KSym /\ referent (getn w y) = Some b.
Proof.
  intros w known b R. exact (SymIxProofs.references_exact w known b (reach_forest w known R) (reach_symix w known R)).
Qed.

Theorem C10_references_detached : forall w b, module_of w b = None -> references w b = [].
Proof. intros w b H. unfold references. rewrite H. reflexivity. Qed.

(* the indexes hold in every state of every history, also with lookups interleaved *)
Theorem C10_index_invariant : forall w known, reachable_k w known -> SymIx w /\ FreshIx w.
Proof. intros w known R. exact (conj (reach_symix w known R) (reach_fresh w known R)). Qed.

Theorem C10_with_lookups_interleaved : forall its, SymIx (fst (ScheduleProofs.run_sched w0 [] its)).
Proof. intros its. exact (inv_symix _ _ (ia_inv _ _ (invall_sched its))). Qed.

(* non-vacuity: two modules 2, 3 of IR 1; block 8 (module 2 > section 4 > interval 6); symbols 10, 11, 12.
   10 and 11 are named 7 in module 2, 11 refers to block 8; then 11 is renamed to 0, 12 gets referent 8 and then the
   integer value 0, 10 is moved to module 3, and the block's section is moved to module 3. *)
Example C10_example :
  let ops1 := [ONew 1 KIR 101 None 0 0 0 PNone; ONew 2 KMod 102 None 0 0 0 PNone; ONew 3 KMod 103 None 0 0 0 PNone;
               ONew 4 KSec 104 None 0 0 0 PNone; ONew 6 KBI 106 (Some 0) 16 0 0 PNone; ONew 8 KCode 108 None 4 0 0 PNone;
               OModAppend 1 2; OModAppend 1 3; OSetParent 4 (Some 2); OSetParent 6 (Some 4); OSetParent 8 (Some 6);
               ONew 10 KSym 110 None 0 0 7 PNone; ONew 11 KSym 111 None 0 0 7 (PRef 8); ONew 12 KSym 112 None 0 0 9 PNone;
               OSet 2 [KSym] SUpdate [[10; 11]; [12]]] in
  let ops2 := [OAttrName 11 0; OAttrPay 12 (PRef 8); OSetParent 10 (Some 3)] in
  let ops3 := [OAttrPay 12 (PVal 0); OSet 3 [KSec] SAdd [[4]]; OAttrPay 10 (PRef 8)] in
  let w1 := fst (run_guarded w0 [] ops1) in
  let w2 := fst (run_guarded w0 [] (ops1 ++ ops2)) in
  let w3 := fst (run_guarded w0 [] (ops1 ++ ops2 ++ ops3)) in
  all_guarded_ok w0 [] (ops1 ++ ops2 ++ ops3) = true /\
  (symbols_named w1 2 7, symbols_named w1 2 0, references w1 8) = ([10; 11], [], [11]) /\
  (symbols_named w2 2 7, symbols_named w2 2 0, symbols_named w2 3 7, references w2 8) = ([], [11], [10], [11; 12]) /\
  (module_of w3 8, references w3 8, symbols_named w3 2 9) = (Some 3, [10], [12]).
Proof. vm_compute. repeat split. Qed.

(* ROUTE INDEPENDENCE.  Two histories -- ANY two: constructor arguments or attribute assignment, a subtree moved whole or rebuilt piece by
   piece, rename-then-move or move-then-rename, with or without detours -- that arrive at the same structure (the same nodes with the
   same attributes, the same members in every collection) answer both lookups alike.  The indexes are lists in insertion order, so the
   two worlds are in general NOT equal; what a caller can observe of them (each qualifying symbol exactly once) is. *)
Definition same_structure (w1 w2 : world) : Prop :=
  (forall n, nodes w1 n = nodes w2 n) /\ (forall p x, In x (kids w1 p) <-> In x (kids w2 p)).

Lemma same_getn : forall w1 w2, (forall n, nodes w1 n = nodes w2 n) -> forall n, getn w1 n = getn w2 n.
Proof. intros w1 w2 H n. unfold getn. rewrite H. reflexivity. Qed.

Lemma same_module_of : forall w1 w2, (forall n, nodes w1 n = nodes w2 n) -> forall n, module_of w1 n = module_of w2 n.
Proof.
  intros w1 w2 H n. pose proof (same_getn w1 w2 H) as G.
  assert (P : forall x, par w1 x = par w2 x) by (intro x; unfold par; rewrite G; reflexivity).
  unfold module_of, kindof. rewrite G. destruct (nk (getn w2 n)); try reflexivity; try apply P.
  - rewrite P. destruct (par w2 n) as [s|]; [cbn; apply P|reflexivity].
  - rewrite P. destruct (par w2 n) as [b|]; [cbn|reflexivity]. rewrite P. destruct (par w2 b) as [s|]; [cbn; apply P|reflexivity].
  - rewrite P. destruct (par w2 n) as [b|]; [cbn|reflexivity]. rewrite P. destruct (par w2 b) as [s|]; [cbn; apply P|reflexivity].
Qed.

Theorem C10_route_independent : forall w1 k1 w2 k2, reachable_k w1 k1 -> reachable_k w2 k2 -> same_structure w1 w2 ->
  (forall m nm, has w1 m = true -> kindof w1 m = KMod ->
     NoDup (symbols_named w1 m nm) /\ NoDup (symbols_named w2 m nm) /\
     forall y, In y (symbols_named w1 m nm) <-> In y (symbols_named w2 m nm)) /\
  (forall b, has w1 b = true ->
     NoDup (references w1 b) /\ NoDup (references w2 b) /\
     forall y, In y (references w1 b) <-> In y (references w2 b)).
Proof.
  intros w1 k1 w2 k2 R1 R2 [HN HK]. pose proof (same_getn w1 w2 HN) as G.
  assert (Hhas : forall n, has w1 n = has w2 n) by (intro n; unfold has; rewrite HN; reflexivity).
  assert (Hkind : forall n, kindof w1 n = kindof w2 n) by (intro n; unfold kindof; rewrite G; reflexivity).
  split.
  - intros m nm Hm Km.
    destruct (C10_symbols_named_exact w1 k1 m nm R1 Hm Km) as [D1 E1].
    assert (Hm2 : has w2 m = true) by (rewrite <- Hhas; exact Hm).
    assert (Km2 : kindof w2 m = KMod) by (rewrite <- Hkind; exact Km).
    destruct (C10_symbols_named_exact w2 k2 m nm R2 Hm2 Km2) as [D2 E2].
    split; [exact D1|]. split; [exact D2|].
    intro y. rewrite E1, E2, HK, Hkind, G. reflexivity.
  - intros b Hb.
    destruct (C10_references_exact w1 k1 b R1 Hb) as [D1 E1].
    assert (Hb2 : has w2 b = true) by (rewrite <- Hhas; exact Hb).
    destruct (C10_references_exact w2 k2 b R2 Hb2) as [D2 E2].
    split; [exact D1|]. split; [exact D2|].
    intro y. rewrite E1, E2. split; intros [m [Hm [Hy [Ky Ry]]]]; exists m.
    + rewrite <- (same_module_of w1 w2 HN), <- HK, <- Hkind, <- G. auto.
    + rewrite (same_module_of w1 w2 HN), HK, Hkind, G. auto.
Qed.

(* the two orders of "rename" and "move" (and a detour through a third module) on the example world: different routes, one structure *)
Example C10_route_independent_example :
  let ops0 := [ONew 1 KIR 101 None 0 0 0 PNone; ONew 2 KMod 102 None 0 0 0 PNone; ONew 3 KMod 103 None 0 0 0 PNone; ONew 5 KMod 105 None 0 0 0 PNone;
               OModAppend 1 2; OModAppend 1 3; OModAppend 1 5;
               ONew 10 KSym 110 None 0 0 7 PNone; ONew 11 KSym 111 None 0 0 7 PNone; OSet 2 [KSym] SUpdate [[10; 11]]] in
  let routeA := [OAttrName 10 9; OSetParent 10 (Some 3); OSetParent 11 (Some 3); OAttrName 11 9] in
  let routeB := [OSetParent 11 (Some 5); OSetParent 11 (Some 3); OAttrName 11 9; OSetParent 10 (Some 3); OAttrName 10 9] in
  let wa := fst (run_guarded w0 [] (ops0 ++ routeA)) in
  let wb := fst (run_guarded w0 [] (ops0 ++ routeB)) in
  all_guarded_ok w0 [] (ops0 ++ routeA) = true /\ all_guarded_ok w0 [] (ops0 ++ routeB) = true /\
  (symbols_named wa 3 9, symbols_named wb 3 9) = ([10; 11], [11; 10]) /\
  map (nodes wa) [1; 2; 3; 5; 10; 11] = map (nodes wb) [1; 2; 3; 5; 10; 11].
Proof. vm_compute. repeat split. Qed.

Print Assumptions C10_symbols_named_exact.
Print Assumptions C10_references_exact.
Print Assumptions C10_references_detached.
Print Assumptions C10_index_invariant.
Print Assumptions C10_with_lookups_interleaved.
Print Assumptions C10_example.
Print Assumptions C10_route_independent.
Print Assumptions C10_route_independent_example.
