(* C10 -- module.symbols_named(name) yields exactly the symbols currently in that module with that name, and
   block.references exactly the symbols of the block's current module whose referent is that block (nothing when the
   block has no module), each once; across renames, payload changes, adding / removing / moving symbols and blocks.
   Model: Model/World.v (nix / rix = Module._symbol_name_index / _symbol_referent_index, mod_index_add /
   mod_index_discard, sym_attr, symbols_named, references), Model/WorldGuard.v.
   Invariant: InvDefs.SymIx together with WorldInv.FreshIx, parts of WorldInv.InvAll.
   Only property theorems here; proofs in Proofs/SymIxBase.v, Proofs/SymIxProofs.v, Proofs/WorldInv.v. *)
From Coq Require Import ZArith List Bool.
From V Require Import Result LazyTree World WorldGuard ForestDefs InvDefs WorldInv WorldProps.
From V Require SymIxProofs ScheduleProofs.
Import ListNotations.
Open Scope Z_scope.

(* after any history: each qualifying symbol exactly once, nothing else *)
Theorem C10_symbols_named_exact : forall w known m nm, reachable_k w known -> has w m = true -> kindof w m = KMod ->
  NoDup (symbols_named w m nm) /\
  forall y, In y (symbols_named w m nm) <-> In y (kids w m) /\ kindof w y = KSym /\ nname (getn w y) = nm.
Proof.
  intros w known m nm R. exact (SymIxProofs.symbols_named_exact w known m nm (reach_forest w known R) (reach_symix w known R)).
Qed.

(* b is a block or a proxy (or anything else); when it has no module the right-hand side is empty *)
Theorem C10_references_exact : forall w known b, reachable_k w known -> has w b = true ->
  NoDup (references w b) /\
  forall y, In y (references w b) <->
    exists m, module_of w b = Some m /\ In y (kids w m) /\ kindof w y = KSym /\ referent (getn w y) = Some b.
Proof.
  intros w known b R. exact (SymIxProofs.references_exact w known b (reach_forest w known R) (reach_symix w known R)).
Qed.

Theorem C10_references_detached : forall w b, module_of w b = None -> references w b = [].
Proof. intros w b H. unfold references. rewrite H. reflexivity. Qed.

(* the indexes hold in every state of every history, also with lookups interleaved *)
Theorem C10_index_invariant : forall w known, reachable_k w known -> SymIx w /\ FreshIx w.
Proof. intros w known R. exact (conj (reach_symix w known R) (reach_fresh w known R)). Qed.

Theorem C10_with_lookups_interleaved : forall its, SymIx (fst (ScheduleProofs.run_sched w0 [] its)).
Proof. intros its. exact (inv_symix _ _ (ia_inv _ _ (invall_sched its))). Qed.

(* non-vacuity: two modules 2, 3 of IR 1; block 8 (module 2 > section 4 > interval 6); symbols 10, 11, 12.
   10 and 11 are named 7 in module 2, 11 refers to block 8; then 11 is renamed to 0, 12 gets referent 8 and then the
   integer value 0, 10 is moved to module 3, and the block's section is moved to module 3. *)
Example C10_example :
  let ops1 := [ONew 1 KIR 101 None 0 0 0 PNone; ONew 2 KMod 102 None 0 0 0 PNone; ONew 3 KMod 103 None 0 0 0 PNone;
               ONew 4 KSec 104 None 0 0 0 PNone; ONew 6 KBI 106 (Some 0) 16 0 0 PNone; ONew 8 KCode 108 None 4 0 0 PNone;
               OModAppend 1 2; OModAppend 1 3; OSetParent 4 (Some 2); OSetParent 6 (Some 4); OSetParent 8 (Some 6);
               ONew 10 KSym 110 None 0 0 7 PNone; ONew 11 KSym 111 None 0 0 7 (PRef 8); ONew 12 KSym 112 None 0 0 9 PNone;
               OSet 2 [KSym] SUpdate [[10; 11]; [12]]] in
  let ops2 := [OAttrName 11 0; OAttrPay 12 (PRef 8); OSetParent 10 (Some 3)] in
  let ops3 := [OAttrPay 12 (PVal 0); OSet 3 [KSec] SAdd [[4]]; OAttrPay 10 (PRef 8)] in
  let w1 := fst (run_guarded w0 [] ops1) in
  let w2 := fst (run_guarded w0 [] (ops1 ++ ops2)) in
  let w3 := fst (run_guarded w0 [] (ops1 ++ ops2 ++ ops3)) in
  all_guarded_ok w0 [] (ops1 ++ ops2 ++ ops3) = true /\
  (symbols_named w1 2 7, symbols_named w1 2 0, references w1 8) = ([10; 11], [], [11]) /\
  (symbols_named w2 2 7, symbols_named w2 2 0, symbols_named w2 3 7, references w2 8) = ([], [11], [10], [11; 12]) /\
  (module_of w3 8, references w3 8, symbols_named w3 2 9) = (Some 3, [10], [12]).
Proof. vm_compute. repeat split. Qed.

Print Assumptions C10_symbols_named_exact.
Print Assumptions C10_references_exact.
Print Assumptions C10_references_detached.
Print Assumptions C10_index_invariant.
Print Assumptions C10_with_lookups_interleaved.
Print Assumptions C10_example.
