(* C01 -- save then load reproduces the IR exactly.
   For every self-contained, staged-resolvable content c (`wf c`), writing it (to_proto / save) and reading the result
   (from_proto / load) gives back c itself: same nodes, UUIDs, kinds, attribute values, containment tree, payloads,
   entry points, expressions with all attributes, edges with labels, AuxData type names and bytes.  The loaded content
   is deep_eq to the original in both directions and saving it again gives the same header and message.
   Model: Model/Proto.v (the _to_protobuf / _from_protobuf / _decode_protobuf pairs of ir.py, module.py, section.py,
   byteinterval.py, block.py, symbol.py, symbolicexpression.py, cfg.py, node.py and the 8-byte header of ir.py),
   Model/DeepEq.v (deep_eq).  Proofs: Proofs/ProtoRoundTrip.v, Proofs/DeepEqProofs.v, glue in Proofs/ProtoProps.v.
   Trusted: the protobuf wire codec (message <-> bytes) of the protobuf runtime; AuxData values are bytes here, their
   decoding is C07/C08.  The agreement of the model with the implementation is observed by the differential harness. *)
From Coq Require Import ZArith List.
From V Require Import Result PyFacts Proto DeepEq.
From V Require ProtoRoundTrip DeepEqProofs ProtoProps.
Import ListNotations.
Open Scope Z_scope.

(* writer then reader is the identity on the domain *)
Theorem C01_load_save : forall c, wf c = true -> from_proto (to_proto c) = Ok c.
Proof. exact ProtoRoundTrip.load_save. Qed.

(* the same through the file header *)
Theorem C01_file_roundtrip : forall c, wf c = true -> load (fst (save c)) (snd (save c)) = Ok c.
Proof. exact ProtoRoundTrip.file_roundtrip. Qed.

(* saving the loaded IR again yields the same file content *)
Theorem C01_resave_same : forall c c', wf c = true -> load (fst (save c)) (snd (save c)) = Ok c' -> save c' = save c.
Proof. exact ProtoRoundTrip.resave_same. Qed.

(* the header save writes passes the header check of load and leaves exactly the message bytes *)
Theorem C01_header_accepted : forall rest, check_header (header ++ rest) = Ok rest.
Proof. exact ProtoRoundTrip.header_accepted. Qed.

(* original and loaded IR are deep_eq in both directions (aux_keys_ok: AuxData tables are dicts, no key twice) *)
Theorem C01_deep_eq_both_ways : forall c c', wf c = true -> DeepEqProofs.aux_keys_ok c = true ->
  load (fst (save c)) (snd (save c)) = Ok c' -> ir_deq c c' = true /\ ir_deq c' c = true.
Proof. exact ProtoProps.deep_eq_both_ways. Qed.

(* UUIDs survive the 16-byte big-endian representation *)
Theorem C01_uuid_roundtrip : forall u, 0 <= u < 2 ^ 128 -> uuid_of_bytes (bytes_of_uuid u) = Ok u.
Proof. exact ProtoRoundTrip.uuid_roundtrip. Qed.

(* Recorded finding (boundary of the domain).  `wf` demands that a module's entry point names a code block of the SAME
   or of an EARLIER module of the IR, and likewise that symbol referents name blocks/proxies and expression operands name
   symbols of the same or an earlier module (module_ok), because the reader resolves these references while it decodes
   the module.  An IR that the API lets one build with the first module's entry point set to a code block of the second
   module satisfies every clause of wf except that staging (wf_entry_unstaged = wf with all entry points erased, plus
   every entry point names a code block of some module of the IR), is written without complaint, and is then REJECTED
   on load with DeserializationError. *)
Theorem C01_entry_point_in_later_module_refuted :
  exists c, ProtoProps.wf_entry_unstaged c = true /\ wf c = false /\ from_proto (to_proto c) = Err EDeser.
Proof. exact ProtoProps.entry_point_in_later_module_refuted. Qed.

(* wf_entry_unstaged drops nothing else: it is implied by wf *)
Theorem C01_unstaged_weaker_than_wf : forall c, wf c = true -> ProtoProps.wf_entry_unstaged c = true.
Proof. exact ProtoProps.wf_wf_entry_unstaged. Qed.

(* non-vacuity: two modules, code/data/proxy blocks, a zero-sized block with the largest UUID, all three symbol payloads
   (referent, value 0, none), a cross-module referent, both expression kinds with known attributes, address Some 0 and
   None, an empty name, parallel edges with label None and the all-false label, AuxData *)
Example C01_example : wf ProtoRoundTrip.ex_ir = true
  /\ load (fst (save ProtoRoundTrip.ex_ir)) (snd (save ProtoRoundTrip.ex_ir)) = Ok ProtoRoundTrip.ex_ir
  /\ DeepEqProofs.aux_keys_ok ProtoRoundTrip.ex_ir = true
  /\ ir_deq ProtoRoundTrip.ex_ir ProtoRoundTrip.ex_ir = true.
Proof. vm_compute. repeat split; reflexivity. Qed.

(* an entry point in an earlier module is inside the domain *)
Example C01_example_entry_earlier :
  wf ProtoProps.ex_entry_earlier = true /\ from_proto (to_proto ProtoProps.ex_entry_earlier) = Ok ProtoProps.ex_entry_earlier.
Proof. exact ProtoProps.entry_point_in_earlier_module_ok. Qed.

Example C01_example_empty : wf ProtoRoundTrip.ex_empty = true
  /\ load (fst (save ProtoRoundTrip.ex_empty)) (snd (save ProtoRoundTrip.ex_empty)) = Ok ProtoRoundTrip.ex_empty.
Proof. vm_compute. split; reflexivity. Qed.

Print Assumptions C01_load_save.
Print Assumptions C01_file_roundtrip.
Print Assumptions C01_resave_same.
Print Assumptions C01_header_accepted.
Print Assumptions C01_deep_eq_both_ways.
Print Assumptions C01_uuid_roundtrip.
Print Assumptions C01_entry_point_in_later_module_refuted.
Print Assumptions C01_unstaged_weaker_than_wf.
