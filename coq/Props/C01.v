(* C01 placeholder: theorems land with Proofs/ProtoProofs.v *)
From Coq Require Import ZArith List.
From V Require Import Result Proto.
Import ListNotations.
Theorem C01_empty_ir_roundtrip :
  let c := {| cr_uuid := 7; cr_version := PyFacts.py_protobuf_version; cr_modules := []; cr_edges := []; cr_aux := [] |} in
  wf c = true /\ load (fst (save c)) (snd (save c)) = Ok c.
Proof. vm_compute. split; reflexivity. Qed.
Print Assumptions C01_empty_ir_roundtrip.
