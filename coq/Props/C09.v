(* C09 -- after load every reference is the attached object itself (at UUID level).
   In a loaded content each UUID denotes one node; symbol referents, entry points, edge endpoints and expression symbols
   are UUIDs of nodes of that same content, of the admissible kind, and the decoder obtains each of them by looking the
   UUID up in the per-IR table of already decoded nodes (`resolve`), never by creating a node.  A reference naming a
   missing node or a node of the wrong kind is rejected with DeserializationError; a reference that is not 16 bytes
   with ValueError.
   Object IDENTITY (`is`) -- that the Python attribute holds the very object reachable through the containment tree --
   and the AuxData UUID/Offset entries are observed by the differential harness; they are not expressible in this
   model, where a node is its UUID plus attributes.  What is proved here is the part identity rests on: one node per
   UUID, and every reference resolved through the one table.
   Model: Model/Proto.v.  Proofs: Proofs/ProtoReaderBase.v, Proofs/ProtoReader.v, Proofs/ProtoProps.v.
   Trusted: the protobuf wire codec. *)
From Coq Require Import ZArith List.
From V Require Import Result Proto ProtoReaderBase ProtoReader ProtoProps.
Import ListNotations.
Open Scope Z_scope.

(* each UUID denotes one node: the UUIDs of all nodes of a loaded content are pairwise distinct *)
Theorem C09_loaded_unique : forall p c, msg_ok p = true -> from_proto p = Ok c -> NoDup (all_uuids c).
Proof. exact loaded_unique. Qed.

(* every reference names a node of the loaded content of an admissible kind: referents are blocks or proxies, entry
   points code blocks, edge endpoints code blocks or proxies, expression operands symbols *)
Theorem C09_refs_closed_typed : forall p c, msg_ok p = true -> from_proto p = Ok c -> refs_closed c.
Proof. exact refs_closed_typed. Qed.

(* together: a reference is the UUID of exactly one node of the loaded content *)
Theorem C09_reference_one_node : forall p c r, msg_ok p = true -> from_proto p = Ok c -> is_reference c r ->
  count_occ Z.eq_dec (all_uuids c) r = 1%nat.
Proof. exact loaded_reference_one_node. Qed.

(* ---------- resolve: the only way a reference is decoded ---------- *)
Theorem C09_resolve_accepts : forall t bs ok u, resolve t bs ok = Ok u ->
  uuid_of_bytes bs = Ok u /\ exists k, tlookup t u = Some k /\ ok k = true.
Proof. exact resolve_inv. Qed.

Theorem C09_dangling_rejected : forall t bs ok u,
  uuid_of_bytes bs = Ok u -> tlookup t u = None -> resolve t bs ok = Err EDeser.
Proof. exact resolve_dangling. Qed.

Theorem C09_illtyped_rejected : forall t bs ok u k,
  uuid_of_bytes bs = Ok u -> tlookup t u = Some k -> ok k = false -> resolve t bs ok = Err EDeser.
Proof. exact resolve_illtyped. Qed.

Theorem C09_badlen_rejected : forall t bs ok, length bs <> 16%nat -> resolve t bs ok = Err EValue.
Proof. exact resolve_badlen. Qed.

(* ---------- one lemma per reference kind: the decoder uses resolve with the right admissible kinds ---------- *)
(* symbol referent: code block, data block or proxy block *)
Theorem C09_symbol_referent : forall t y y' t' bs, decode_symbol t y = Ok (y', t') -> y_payload y = PPRef bs ->
  exists u k, cy_payload y' = CPRef u /\ uuid_of_bytes bs = Ok u /\ tlookup t u = Some k /\ is_block_kind k = true.
Proof. exact decode_symbol_referent. Qed.

(* module entry point: a code block, in the table as it is after this module's proxies and sections were decoded *)
Theorem C09_entry_point : forall t m m' t', decode_module t m = Ok (m', t') ->
  (m_entry m = [] /\ cm_entry m' = None)
  \/ (m_entry m <> [] /\
      exists um proxies t1 secs0 t2 u,
        uuid_of_bytes (m_uuid m) = Ok um
        /\ map_res decode_proxy ((um, NMod) :: t) (m_proxies m) = Ok (proxies, t1)
        /\ map_res decode_section t1 (m_sections m) = Ok (secs0, t2)
        /\ cm_entry m' = Some u /\ uuid_of_bytes (m_entry m) = Ok u /\ tlookup t2 u = Some NCode).
Proof. exact decode_module_entry. Qed.

(* CFG edge endpoints: code block or proxy block *)
Theorem C09_edge_endpoints : forall t e e', decode_edge t e = Ok e' ->
  (exists k, uuid_of_bytes (e_src e) = Ok (ce_src e') /\ tlookup t (ce_src e') = Some k /\ is_cfg_kind k = true)
  /\ (exists k, uuid_of_bytes (e_dst e) = Ok (ce_dst e') /\ tlookup t (ce_dst e') = Some k /\ is_cfg_kind k = true).
Proof. exact decode_edge_endpoints. Qed.

(* symbolic expression operands: symbols *)
Theorem C09_expression_symbols : forall t kv kv', decode_expr t kv = Ok kv' ->
  fst kv' = fst kv /\
  match x_val (snd kv) with
  | PAddrConst off s => exists u, cx_val (snd kv') = CAddrConst off u /\ uuid_of_bytes s = Ok u /\ tlookup t u = Some NSym
  | PAddrAddr sc off s1 s2 => exists u1 u2, cx_val (snd kv') = CAddrAddr sc off u1 u2
                                /\ uuid_of_bytes s1 = Ok u1 /\ tlookup t u1 = Some NSym
                                /\ uuid_of_bytes s2 = Ok u2 /\ tlookup t u2 = Some NSym
  | PNoExpr => False
  end.
Proof. exact decode_expr_symbols. Qed.

(* a node is entered in the table once: a second node with the same UUID -- of whatever class -- is a
   DeserializationError, so a table entry is never replaced and no reference can be resolved to a "second" node *)
Theorem C09_dup_rejected : forall t u k k', tlookup t u = Some k' -> fresh t u k = Err EDeser.
Proof. exact dup_rejected. Qed.

(* in particular with another class *)
Theorem C09_dup_other_kind : forall t u k k', tlookup t u = Some k' -> k' <> k -> fresh t u k = Err EDeser.
Proof. exact dup_other_kind. Qed.

(* non-vacuity: the accepted example message has a referent, an entry point, two distinct edges and an expression
   operand; the same message with the symbol's referent pointing at the section (wrong kind) or at nothing is rejected *)
Example C09_example :
  ex_retarget (ex_uuid 5) = ex_msg
  /\ (exists c, from_proto ex_msg = Ok c
        /\ map cy_payload (flat_map cm_symbols (cr_modules c)) = [CPRef (5 * 256 + 255); CPVal 0]
        /\ map cm_entry (cr_modules c) = [Some (5 * 256 + 255)]
        /\ flat_map code_uuids (cr_modules c) = [5 * 256 + 255])
  /\ from_proto (ex_retarget (ex_uuid 3)) = Err EDeser           (* the section: wrong kind *)
  /\ from_proto (ex_retarget (ex_uuid 77)) = Err EDeser          (* no such node *)
  /\ from_proto (ex_retarget [5; 255]) = Err EValue.             (* not a UUID *)
Proof.
  split; [vm_compute; reflexivity|]. split; [|vm_compute; repeat split; reflexivity].
  eexists. split; [vm_compute; reflexivity|]. vm_compute. repeat split; reflexivity.
Qed.

Print Assumptions C09_loaded_unique.
Print Assumptions C09_refs_closed_typed.
Print Assumptions C09_reference_one_node.
Print Assumptions C09_resolve_accepts.
Print Assumptions C09_dangling_rejected.
Print Assumptions C09_illtyped_rejected.
Print Assumptions C09_badlen_rejected.
Print Assumptions C09_symbol_referent.
Print Assumptions C09_entry_point.
Print Assumptions C09_edge_endpoints.
Print Assumptions C09_expression_symbols.
Print Assumptions C09_dup_rejected.
Print Assumptions C09_dup_other_kind.
