(* C09 placeholder: theorems land with Proofs/ProtoProofs.v *)
From Coq Require Import ZArith List.
From V Require Import Result Proto.
Import ListNotations.
Theorem C09_resolve_missing : forall t bs ok u, uuid_of_bytes bs = Ok u -> tlookup t u = None -> resolve t bs ok = Err EDeser.
Proof. intros t bs ok u H1 H2. unfold resolve. rewrite H1. cbn. rewrite H2. reflexivity. Qed.
Print Assumptions C09_resolve_missing.
