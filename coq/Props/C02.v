(* C02 -- writer and reader each agree with the protobuf schema, field by field.
   Writer: save emits the 8-byte header (GTIRB, two zero bytes, the protobuf version) and a message in which every field
   equals the corresponding attribute of the content (address-presence flag, payload one-ofs, enum numbers, attribute
   flags, 16-byte UUIDs, the vertex list naming every CFG node).  Reader: whatever schema-valid message it accepts,
   whoever wrote it, the content it returns has every attribute equal to the corresponding message field
   (to_proto c = msg_norm p: p up to what the API stores as sets -- repeated flags/attributes/edges -- and the unread
   vertex list and stale address).  Each direction on its own, not their composition.
   The finite tables (enum constants, protobuf version, message fields) are checked by computation against gen/Schema.v
   (generated from /repo/proto/*.proto) and gen/PyFacts.v (introspected from the Python package) on every run.
   Model: Model/Proto.v.  Proofs: Proofs/ProtoProps.v (writer, tables), Proofs/ProtoReader.v (reader).
   Trusted: the protobuf wire codec; that the p-records of Model/Proto.v are read/written by the Python code as modelled
   is observed by the differential harness. *)
From Coq Require Import String ZArith List Bool.
From V Require Import Result Bytes Schema PyFacts Proto ProtoReader ProtoProps SchemaFacts.
From V Require ProtoRoundTrip.
Import ListNotations.
Local Open Scope string_scope.
Local Open Scope list_scope.
Local Open Scope Z_scope.

(* ---------- writer ---------- *)
Theorem C02_header_layout : forall c, fst (save c) = py_magic ++ [0; 0; py_protobuf_version].
Proof. reflexivity. Qed.

Theorem C02_header_is_GTIRB : py_magic = [71; 84; 73; 82; 66] /\ length (py_magic ++ [0; 0; py_protobuf_version]) = 8%nat.
Proof. vm_compute. split; reflexivity. Qed.

Theorem C02_writer_uuid_16_bytes : forall u, length (bytes_of_uuid u) = 16%nat /\ forallb is_byte (bytes_of_uuid u) = true.
Proof. exact writer_uuid_16. Qed.

Theorem C02_writer_ir : forall c,
  i_uuid (to_proto c) = bytes_of_uuid (cr_uuid c)
  /\ i_modules (to_proto c) = map module_to_proto (cr_modules c)
  /\ i_aux (to_proto c) = cr_aux c
  /\ i_version (to_proto c) = cr_version c
  /\ i_vertices (to_proto c) = map bytes_of_uuid (flat_map module_cfg_nodes (cr_modules c))
  /\ i_edges (to_proto c) = map edge_to_proto (cr_edges c).
Proof. exact writer_ir_fields. Qed.

(* the vertex list names every code block and every proxy block of every module, and nothing else *)
Theorem C02_writer_vertices : forall c bs,
  In bs (i_vertices (to_proto c)) <->
  exists u, bs = bytes_of_uuid u /\ (In u (flat_map code_uuids (cr_modules c)) \/ In u (flat_map cm_proxies (cr_modules c))).
Proof. exact writer_vertices_complete. Qed.

Theorem C02_writer_module : forall m,
  m_uuid (module_to_proto m) = bytes_of_uuid (cm_uuid m)
  /\ m_binary_path (module_to_proto m) = cm_binary_path m
  /\ m_preferred_addr (module_to_proto m) = cm_preferred_addr m
  /\ m_rebase_delta (module_to_proto m) = cm_rebase_delta m
  /\ m_file_format (module_to_proto m) = cm_file_format m
  /\ m_isa (module_to_proto m) = cm_isa m
  /\ m_name (module_to_proto m) = cm_name m
  /\ m_symbols (module_to_proto m) = map symbol_to_proto (cm_symbols m)
  /\ m_proxies (module_to_proto m) = map bytes_of_uuid (cm_proxies m)
  /\ m_sections (module_to_proto m) = map section_to_proto (cm_sections m)
  /\ m_aux (module_to_proto m) = cm_aux m
  /\ (m_entry (module_to_proto m) = [] <-> cm_entry m = None)
  /\ (forall e, cm_entry m = Some e -> m_entry (module_to_proto m) = bytes_of_uuid e)
  /\ m_byte_order (module_to_proto m) = cm_byte_order m.
Proof. exact writer_module_fields. Qed.

Theorem C02_writer_section : forall s,
  s_uuid (section_to_proto s) = bytes_of_uuid (cs_uuid s)
  /\ s_name (section_to_proto s) = cs_name s
  /\ s_bis (section_to_proto s) = map bi_to_proto (cs_bis s)
  /\ s_flags (section_to_proto s) = cs_flags s.
Proof. exact writer_section_fields. Qed.

(* address presence: the flag is set iff there is an address; None and Some 0 differ only in the flag *)
Theorem C02_writer_byte_interval : forall b,
  bi_uuid (bi_to_proto b) = bytes_of_uuid (ci_uuid b)
  /\ bi_blocks (bi_to_proto b) = map block_to_proto (ci_blocks b)
  /\ bi_symx (bi_to_proto b) = map (fun kv => (fst kv, expr_to_proto (snd kv))) (ci_symx b)
  /\ (bi_has_addr (bi_to_proto b) = true <-> ci_addr b <> None)
  /\ (forall a, ci_addr b = Some a -> bi_addr (bi_to_proto b) = a)
  /\ (ci_addr b = None -> bi_addr (bi_to_proto b) = 0)
  /\ bi_size (bi_to_proto b) = ci_size b
  /\ bi_contents (bi_to_proto b) = ci_contents b.
Proof. exact writer_bi_fields. Qed.

Theorem C02_writer_address_none_vs_zero : forall b b', ci_addr b = None -> ci_addr b' = Some 0 ->
  bi_has_addr (bi_to_proto b) = false /\ bi_has_addr (bi_to_proto b') = true
  /\ bi_addr (bi_to_proto b) = bi_addr (bi_to_proto b').
Proof. exact writer_bi_addr_none_vs_zero. Qed.

(* the one-of of Block is always set, to the alternative of the block's kind *)
Theorem C02_writer_block : forall b,
  b_off (block_to_proto b) = cb_off b
  /\ (cb_code b = true -> b_val (block_to_proto b) = PCode (bytes_of_uuid (cb_uuid b)) (cb_size b) (cb_dm b))
  /\ (cb_code b = false -> b_val (block_to_proto b) = PData (bytes_of_uuid (cb_uuid b)) (cb_size b))
  /\ b_val (block_to_proto b) <> PNoBlock.
Proof. exact writer_block_fields. Qed.

(* payload one-of of Symbol: unset iff no payload; value v (also 0) iff the symbol has that value; referent otherwise *)
Theorem C02_writer_symbol : forall y,
  y_uuid (symbol_to_proto y) = bytes_of_uuid (cy_uuid y)
  /\ y_name (symbol_to_proto y) = cy_name y
  /\ y_at_end (symbol_to_proto y) = cy_at_end y
  /\ (y_payload (symbol_to_proto y) = PPNone <-> cy_payload y = CPNone)
  /\ (forall v, y_payload (symbol_to_proto y) = PPValue v <-> cy_payload y = CPVal v)
  /\ (forall u, cy_payload y = CPRef u -> y_payload (symbol_to_proto y) = PPRef (bytes_of_uuid u))
  /\ (forall bs, y_payload (symbol_to_proto y) = PPRef bs -> exists u, cy_payload y = CPRef u /\ bs = bytes_of_uuid u).
Proof. exact writer_symbol_fields. Qed.

(* attribute flags are written as they are (known and unknown numbers alike) *)
Theorem C02_writer_expression : forall x,
  x_attrs (expr_to_proto x) = cx_attrs x
  /\ (forall off s, cx_val x = CAddrConst off s -> x_val (expr_to_proto x) = PAddrConst off (bytes_of_uuid s))
  /\ (forall sc off s1 s2, cx_val x = CAddrAddr sc off s1 s2 ->
        x_val (expr_to_proto x) = PAddrAddr sc off (bytes_of_uuid s1) (bytes_of_uuid s2))
  /\ x_val (expr_to_proto x) <> PNoExpr.
Proof. exact writer_expr_fields. Qed.

(* label present iff the edge has one *)
Theorem C02_writer_edge : forall e,
  e_src (edge_to_proto e) = bytes_of_uuid (ce_src e)
  /\ e_dst (edge_to_proto e) = bytes_of_uuid (ce_dst e)
  /\ (e_label (edge_to_proto e) = None <-> ce_label e = None)
  /\ (forall t c d, ce_label e = Some (t, c, d) ->
        e_label (edge_to_proto e) = Some {| l_cond := c; l_direct := d; l_type := t |}).
Proof. exact writer_edge_fields. Qed.

(* ---------- reader ---------- *)
(* every attribute of the returned content equals the message field (read back through the writer characterised above) *)
Theorem C02_reader_fields : forall p c, msg_ok p = true -> from_proto p = Ok c -> to_proto c = msg_norm p.
Proof. exact reader_fields. Qed.

Theorem C02_accept_coherent : forall p c, msg_ok p = true -> from_proto p = Ok c -> wf c = true.
Proof. exact accept_coherent. Qed.

(* ---------- finite tables over the generated files ---------- *)
(* the seven enums of the schema (in the canonical order of gen/Schema.v: sorted by name), both inclusions *)
Theorem C02_enum_total : forall nm, In nm (map fst schema_enums) ->
  In nm ["ByteOrder"; "DecodeMode"; "EdgeType"; "FileFormat"; "ISA"; "SectionFlag"; "SymAttribute"]
  /\ schema_members nm <> []
  /\ (forall sn v, In (sn, v) (schema_members nm) -> enum_ok nm v = true)
  /\ (forall pn v, In (pn, v) (enum_members nm) -> exists sn, In (sn, v) (schema_members nm)).
Proof. exact enum_total. Qed.

Theorem C02_enum_names : map fst schema_enums = ["ByteOrder"; "DecodeMode"; "EdgeType"; "FileFormat"; "ISA"; "SectionFlag"; "SymAttribute"].
Proof. exact (proj1 enum_tables_agree). Qed.

(* every enum constant the schema defines passes the reader's check *)
Theorem C02_schema_enum_accepted : forall nm sn v, In nm (map fst schema_enums) -> In (sn, v) (schema_members nm) ->
  check_enum nm v = Ok tt.
Proof. exact schema_enum_accepted. Qed.

(* ... and the pairing is by NAME: each Python member carries the number of the schema constant it is named after (same name, the
   name after the schema's prefix, or without "Endian"), each schema constant has such a member, and no member shares its name with
   a constant of another number.  Exchanging the numbers of two members leaves save-then-load the identity and every number
   accepted, but makes the writer and the reader each disagree with the schema: that breaks this obligation. *)
Theorem C02_enum_names_paired : forall nm, In nm (map fst schema_enums) ->
  (forall pn v, In (pn, v) (enum_members nm) -> exists sn, In (sn, v) (schema_members nm) /\ name_match sn pn = true)
  /\ (forall sn v, In (sn, v) (schema_members nm) -> exists pn, In (pn, v) (enum_members nm) /\ name_match sn pn = true)
  /\ (forall n v v', In (n, v) (enum_members nm) -> In (n, v') (schema_members nm) -> v = v').
Proof. exact enum_names_paired. Qed.

Example C02_name_match_examples :
  name_match "ISA_Undefined" "Undefined" = true /\ name_match "ARM_Thumb" "Thumb" = true /\ name_match "BigEndian" "Big" = true
  /\ name_match "ARM64" "ARM64" = true /\ name_match "ARM64" "ARM" = false /\ name_match "PPC64" "ARM64" = false
  /\ name_match "GOTPC" "GOT" = false /\ name_match "TLSGD" "TLS" = false.
Proof. vm_compute. repeat split; reflexivity. Qed.

Theorem C02_version_agrees : schema_protobuf_version = py_protobuf_version.
Proof. exact (proj1 version_agrees). Qed.

(* every field of the sixteen messages is one the model has (ProtoProps.modelled_fields says where); one-of groups too *)
Theorem C02_fields_covered : flat_map schema_fields modelled_messages = modelled_fields.
Proof. exact fields_covered. Qed.

Theorem C02_oneofs_covered : flat_map schema_oneofs modelled_messages = modelled_oneofs.
Proof. exact oneofs_covered. Qed.

(* the schema's remaining messages (Offset, SymStackConst) are not the type of any field *)
Theorem C02_messages_partition :
  filter (fun nm => negb (existsb (String.eqb nm) modelled_messages)) (map fst schema_messages) = ["Offset"; "SymStackConst"]
  /\ forallb (fun nm => existsb (String.eqb nm) (map fst schema_messages)) modelled_messages = true
  /\ forallb (fun p => forallb (fun f => negb (String.eqb (snd (fst (fst f))) "SymStackConst")
                                         && negb (String.eqb (snd (fst (fst f))) "Offset")) (snd p)) schema_messages = true.
Proof. exact messages_partition. Qed.

(* non-vacuity.  Writer: the example content's message has the presence flags and one-ofs as stated.  Reader: a message
   NOT produced by the writer (repeated flags, attributes and edges, a stale address under has_address = false, an empty
   vertex list) is accepted and read field by field. *)
Example C02_example_writer :
  let p := to_proto ProtoRoundTrip.ex_ir in
  map (fun m => m_entry m) (i_modules p) = [bytes_of_uuid 10; []]
  /\ length (i_vertices p) = 3%nat
  /\ map e_label (i_edges p) = [None; Some {| l_cond := false; l_direct := false; l_type := 0 |};
                                Some {| l_cond := true; l_direct := true; l_type := 3 |}].
Proof. vm_compute. repeat split; reflexivity. Qed.

Example C02_example_reader :
  msg_ok ex_msg = true /\ (exists c, from_proto ex_msg = Ok c /\ to_proto c = msg_norm ex_msg) /\ msg_norm ex_msg <> ex_msg.
Proof.
  destruct ex_msg_accepted as [H1 [[c [H2 _]] H3]]. split; [exact H1|]. split; [|exact H3].
  exists c. split; [exact H2|]. exact (reader_fields ex_msg c H1 H2).
Qed.

(* Known finding (C02 forward-reference-later-module, recorded): the reader resolves the references of a module while that module
   is decoded, so a message is accepted only if every reference names a node defined EARLIER (wf's staging clauses).  The property
   asks for every referentially closed message.  The example IR of ProtoRoundTrip (two modules, the second holding a symbol whose
   referent is a block of the first) round-trips; the same message with its two modules listed in the other order -- every reference
   still names a node of the message -- is refused with DeserializationError. *)
Definition modules_reversed (c : cIR) : cIR :=
  {| cr_uuid := cr_uuid c; cr_version := cr_version c; cr_modules := rev (cr_modules c); cr_edges := cr_edges c; cr_aux := cr_aux c |}.

Theorem C02_forward_reference_refuted :
  exists c, wf c = true /\ from_proto (to_proto c) = Ok c /\
            wf (modules_reversed c) = false /\ from_proto (to_proto (modules_reversed c)) = Err EDeser.
Proof. exists ProtoRoundTrip.ex_ir. vm_compute. repeat split; reflexivity. Qed.

Print Assumptions C02_header_layout.
Print Assumptions C02_header_is_GTIRB.
Print Assumptions C02_writer_uuid_16_bytes.
Print Assumptions C02_writer_ir.
Print Assumptions C02_writer_vertices.
Print Assumptions C02_writer_module.
Print Assumptions C02_writer_section.
Print Assumptions C02_writer_byte_interval.
Print Assumptions C02_writer_address_none_vs_zero.
Print Assumptions C02_writer_block.
Print Assumptions C02_writer_symbol.
Print Assumptions C02_writer_expression.
Print Assumptions C02_writer_edge.
Print Assumptions C02_reader_fields.
Print Assumptions C02_accept_coherent.
Print Assumptions C02_enum_total.
Print Assumptions C02_enum_names.
Print Assumptions C02_schema_enum_accepted.
Print Assumptions C02_enum_names_paired.
Print Assumptions C02_version_agrees.
Print Assumptions C02_fields_covered.
Print Assumptions C02_oneofs_covered.
Print Assumptions C02_messages_partition.
Print Assumptions C02_forward_reference_refuted.
