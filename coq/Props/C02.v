(* C02 placeholder: theorems land with Proofs/ProtoProofs.v *)
From Coq Require Import ZArith List.
From V Require Import Result Proto.
Import ListNotations.
Theorem C02_header_layout : forall c, fst (save c) = PyFacts.py_magic ++ [0; 0; PyFacts.py_protobuf_version]%Z.
Proof. reflexivity. Qed.
Print Assumptions C02_header_layout.
