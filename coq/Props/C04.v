(* C04 -- containment is a forest kept consistent from both ends: a node is in a parent's collection iff its parent
   attribute names that parent; no node has two parents or appears twice; a move (from either end) removes the node
   from its previous owner; .ir/.module/.section are the walks along the parent attributes; nodes not named by an
   operation keep their state.
   Model: Model/World.v (kids / npar, set_add, set_discard, blocks_update, the IR module list, do_setparent),
   Model/WorldGuard.v (guard, reachable states).  Invariant: ForestDefs.Forest, part of WorldInv.InvAll.
   Only property theorems here; proofs in Proofs/SetOpsProofs.v, Proofs/ModListProofs.v, Proofs/WorldInv.v,
   Proofs/WorldProps.v. *)
From Coq Require Import ZArith List Bool.
From V Require Import Result LazyTree World WorldGuard ForestDefs InvDefs WorldInv WorldProps.
From V Require SetOpsBase SetOpsProofs ModListProofs SymIxProofs.
Import ListNotations.
Open Scope Z_scope.

(* ---------- the forest, in every reachable state ---------- *)

Theorem C04_two_ended : forall w known, reachable_k w known -> forall p c, In c (kids w p) <-> par w c = Some p.
Proof. intros w known R. exact (f_two_ended _ _ (reach_forest w known R)). Qed.

Theorem C04_no_duplicates : forall w known, reachable_k w known -> forall p, NoDup (kids w p).
Proof. intros w known R. exact (f_nodup _ _ (reach_forest w known R)). Qed.

Theorem C04_single_parent : forall w known p q c, reachable_k w known -> In c (kids w p) -> In c (kids w q) -> p = q.
Proof. intros w known p q c R. exact (single_parent w known p q c (reach_forest w known R)). Qed.

(* the six relations: IR-module, module-section/symbol/proxy, section-interval, interval-block *)
Theorem C04_kinds_layered : forall w known, reachable_k w known -> forall p c, par w c = Some p ->
  has w c = true /\ has w p = true /\ parent_kind (kindof w c) = Some (kindof w p).
Proof. intros w known R. exact (f_kind _ _ (reach_forest w known R)). Qed.

Theorem C04_nodes_known : forall w known, reachable_k w known -> forall n, has w n = true <-> In n known.
Proof. intros w known R. exact (f_known _ _ (reach_forest w known R)). Qed.

Theorem C04_every_step : forall w known o, reachable_k w known -> op_okb w known o = true ->
  reachable_k (step' w o) (known_after o known).
Proof. exact reachable_k_step. Qed.

(* ---------- a move removes the node from its previous owner ---------- *)

(* from the collection side: parent.collection.add(c) *)
Theorem C04_move_leaves_previous_owner : forall w known p fk c, reachable_k w known ->
  op_okb w known (OSet p fk SAdd [[c]]) = true ->
  exists w', step w (OSet p fk SAdd [[c]]) = Ok w' /\
    par w' c = Some p /\ In c (kids w' p) /\
    (forall x, In x (kids w' p) <-> In x (kids w p) \/ x = c) /\
    (forall q, q <> p -> kids w' q = remove_id c (kids w q)) /\
    (forall x, x <> c -> nodes w' x = nodes w x) /\
    getn w' c = with_par (getn w c) (Some p).
Proof. intros w known p fk c R. exact (op_add_effect w known p fk c (invall_reachable w known R)). Qed.

(* from the node side: c.parent = p (all six relations; p = None detaches) *)
Theorem C04_move_leaves_previous_owner_parent_attr : forall w known c p, reachable_k w known ->
  op_okb w known (OSetParent c p) = true ->
  exists w', step w (OSetParent c p) = Ok w' /\
    par w' c = p /\
    (forall q, p = Some q -> kids w' q = remove_id c (kids w q) ++ [c]) /\
    (forall q, p <> Some q -> kids w' q = remove_id c (kids w q)) /\
    (forall x, x <> c -> nodes w' x = nodes w x) /\
    getn w' c = with_par (getn w c) p.
Proof. intros w known c p R. exact (op_setparent_effect w known c p (invall_reachable w known R)). Qed.

(* the module list: ir.modules.insert(i, v) of a module owned by another IR or by none (for a module of this very IR see
   C04_modlist_insert_own_module below and C16_modlist_insert / C16_modlist_insert_member_moves: insert is the slice
   assignment modules[i:i] = [v], which moves a member inside the list) ... *)
Theorem C04_move_leaves_previous_owner_modlist_insert : forall w known ir i v, reachable_k w known ->
  op_okb w known (OModInsert ir i v) = true -> par w v <> Some ir ->
  let l := remove_id v (kids w ir) in
  exists w', step w (OModInsert ir i v) = Ok w' /\
    kids w' ir = insert_at (clamp_insert i (length l)) v l /\
    (forall x, x <> ir -> kids w' x = remove_id v (kids w x)) /\
    (forall x, nodes w' x = if x =? v then Some (with_par (getn w v) (Some ir)) else nodes w x) /\
    par w' v = Some ir.
Proof.
  intros w known ir i v R G Hp l. pose proof (reach_forest w known R) as F.
  assert (Hn : ~ In v (kids w ir)) by (intro H; apply (f_two_ended w known F) in H; contradiction).
  assert (El : l = kids w ir) by (apply ModListBase.remove_id_notin; exact Hn).
  destruct (ModListProofs.insert_effect w known ir i v F (reach_cache w known R) G) as (w' & Hs & Hk & H).
  exists w'. split; [exact Hs|]. split; [|exact H].
  rewrite Hk, El. apply ModListProofs.insert_list_fresh. exact Hn.
Qed.

(* ... and of a module this IR owns already: it stays owned by this IR, once; no other list and no node changes *)
Theorem C04_modlist_insert_own_module : forall w known ir i v, reachable_k w known ->
  op_okb w known (OModInsert ir i v) = true -> par w v = Some ir ->
  exists w', step w (OModInsert ir i v) = Ok w' /\
    par w' v = Some ir /\ NoDup (kids w' ir) /\ (forall x, In x (kids w' ir) <-> In x (kids w ir)) /\
    (forall x, x <> ir -> kids w' x = kids w x) /\
    (forall x, nodes w' x = nodes w x).
Proof.
  intros w known ir i v R G Hp. pose proof (reach_forest w known R) as F.
  assert (Hv : In v (kids w ir)) by (apply (f_two_ended w known F); exact Hp).
  destruct (ModListProofs.insert_effect_member w known ir i v F (reach_cache w known R) G Hv)
    as (w' & Hs & _ & Hnd & Hin & _ & _ & Ho & Hn).
  exists w'. split; [exact Hs|]. split; [|split; [exact Hnd|split; [exact Hin|split; [exact Ho|exact Hn]]]].
  unfold par, getn. rewrite Hn. exact Hp.
Qed.

(* append(v) of a module owned elsewhere or by this very IR (then it is moved to the end) *)
Theorem C04_move_leaves_previous_owner_modlist_append : forall w known ir v, reachable_k w known ->
  op_okb w known (OModAppend ir v) = true ->
  exists w', step w (OModAppend ir v) = Ok w' /\
    kids w' ir = remove_id v (kids w ir) ++ [v] /\
    (forall x, x <> ir -> kids w' x = remove_id v (kids w x)) /\
    (forall x, nodes w' x = if x =? v then Some (with_par (getn w v) (Some ir)) else nodes w x) /\
    par w' v = Some ir.
Proof.
  intros w known ir v R. exact (ModListProofs.append_effect w known ir v (reach_forest w known R) (reach_cache w known R)).
Qed.

(* ---------- derived accessors ---------- *)

(* .ir / .module / .section are, by definition, the walks along the parent attributes ... *)
Theorem C04_accessors : forall w n,
  ir_of w n = match kindof w n with
              | KIR => None
              | KMod => par w n
              | KSec | KSym | KProxy => bind_o (par w n) (par w)
              | KBI => bind_o (par w n) (fun s => bind_o (par w s) (par w))
              | KCode | KData => bind_o (par w n) (fun b => bind_o (par w b) (fun s => bind_o (par w s) (par w)))
              end /\
  module_of w n = match kindof w n with
                  | KIR | KMod => None
                  | KSec | KSym | KProxy => par w n
                  | KBI => bind_o (par w n) (par w)
                  | KCode | KData => bind_o (par w n) (fun b => bind_o (par w b) (par w))
                  end /\
  section_of w n = match kindof w n with
                   | KBI => par w n
                   | KCode | KData => bind_o (par w n) (par w)
                   | _ => None
                   end.
Proof. intros w n. repeat split. Qed.

(* ... they land on nodes of the right kind ... *)
Theorem C04_accessors_kinds : forall w known n x, reachable_k w known ->
  (ir_of w n = Some x -> kindof w x = KIR) /\
  (module_of w n = Some x -> kindof w x = KMod) /\
  (section_of w n = Some x -> kindof w x = KSec).
Proof.
  intros w known n x R. pose proof (reach_forest w known R) as HF.
  exact (conj (ir_of_kind w known n x HF) (conj (SymIxProofs.module_of_mod w known n x HF) (section_of_kind w known n x HF))).
Qed.

(* ... and what the aggregate iterators enumerate from the top (ir.modules, their sections, ..., blocks: `reach`,
   four nested levels of `kids`) is exactly the set of nodes whose .ir is that IR *)
Theorem C04_accessors_agree_with_iteration : forall w known ir n, reachable_k w known -> kindof w ir = KIR ->
  (In n (reach w ir) <-> n = ir \/ ir_of w n = Some ir).
Proof. intros w known ir n R. exact (ModListProofs.reach_ir_of w known ir n (reach_forest w known R)). Qed.

(* ---------- frame: nodes not named by an operation keep their state ---------- *)

Theorem C04_frame_discard : forall w known p fk c, reachable_k w known ->
  op_okb w known (OSet p fk SDiscard [[c]]) = true ->
  exists w', step w (OSet p fk SDiscard [[c]]) = Ok w' /\
    kids w' p = remove_id c (kids w p) /\
    (forall q, q <> p -> kids w' q = kids w q) /\
    (forall x, x <> c -> nodes w' x = nodes w x) /\
    (In c (kids w p) -> par w' c = None) /\
    (~ In c (kids w p) -> w' = w).
Proof. intros w known p fk c R. exact (op_discard_effect w known p fk c (invall_reachable w known R)). Qed.

Theorem C04_frame_modlist_remove : forall w known ir v, reachable_k w known ->
  op_okb w known (OModRemove ir v) = true -> In v (kids w ir) ->
  exists w', step w (OModRemove ir v) = Ok w' /\
    kids w' ir = remove_id v (kids w ir) /\
    (forall x, x <> ir -> kids w' x = kids w x) /\
    (forall x, nodes w' x = if x =? v then Some (with_par (getn w v) None) else nodes w x) /\
    par w' v = None.
Proof.
  intros w known ir v R G Hin.
  destruct (ModListProofs.remove_effect_in w known ir v (reach_forest w known R) (reach_cache w known R) G Hin)
    as (i & _ & E & _ & A & B & C & D).
  exists (ModListProofs.detach w ir v). exact (conj E (conj A (conj B (conj C D)))).
Qed.

Theorem C04_frame_modlist_delslice : forall w known ir a b, reachable_k w known ->
  op_okb w known (OModDelSlice ir a b) = true ->
  let l := kids w ir in
  let lo := norm_bound a 0 (length l) in
  let hi := Z.max lo (norm_bound b (Z.of_nat (length l)) (length l)) in
  let victims := ModListProofs.slice_victims l lo hi in
  exists w', step w (OModDelSlice ir a b) = Ok w' /\
    kids w' ir = firstn (Z.to_nat lo) l ++ skipn (Z.to_nat hi) l /\
    (forall x, x <> ir -> kids w' x = kids w x) /\
    (forall x, nodes w' x = if mem x victims then Some (with_par (getn w x) None) else nodes w x) /\
    (forall x, In x victims -> par w' x = None) /\
    (forall x, x <> ir -> cache w' x = cache w x).
Proof.
  intros w known ir a b R. exact (ModListProofs.delslice_effect w known ir a b (reach_forest w known R) (reach_cache w known R)).
Qed.

Theorem C04_frame_modlist_clear : forall w known ir, reachable_k w known ->
  op_okb w known (OModClear ir) = true ->
  exists w', step w (OModClear ir) = Ok w' /\
    kids w' ir = [] /\
    (forall x, x <> ir -> kids w' x = kids w x) /\
    (forall x, nodes w' x = if mem x (kids w ir) then Some (with_par (getn w x) None) else nodes w x) /\
    (forall x, In x (kids w ir) -> par w' x = None) /\
    (forall x, x <> ir -> cache w' x = cache w x).
Proof.
  intros w known ir R. exact (ModListProofs.clear_effect w known ir (reach_forest w known R) (reach_cache w known R)).
Qed.

(* construction: a new node is detached, childless, and nothing else changes *)
Theorem C04_frame_new : forall w known n k u a s f nm p, reachable_k w known ->
  op_okb w known (ONew n k u a s f nm p) = true ->
  exists w', step w (ONew n k u a s f nm p) = Ok w' /\
    par w' n = None /\ kids w' n = [] /\
    nodes w' n = Some (ModListProofs.new_node k u a s f nm p) /\
    (forall x, x <> n -> nodes w' x = nodes w x) /\
    (forall x, kids w' x = kids w x) /\
    (forall x, x <> n -> cache w' x = cache w x) /\
    (k = KIR -> cache w' n = [(u, n)]).
Proof.
  intros w known n k u a s f nm p R. exact (ModListProofs.new_effect w known n k u a s f nm p (reach_forest w known R)).
Qed.

(* attribute edits, symbolic-expression edits and lookups change no collection, no parent attribute, no kind,
   no UUID, no UUID table *)
Theorem C04_frame_attribute_edits : forall w known o, op_okb w known o = true ->
  match o with
  | OAttrAddr _ _ | OAttrSize _ _ | OAttrOff _ _ | OAttrName _ _ | OAttrPay _ _
  | OSymxSet _ _ _ | OSymxDel _ _ | OSymxPop _ _ | OSymxPopitem _ | OSymxSetdefault _ _ _
  | OSymxUpdate _ _ | OSymxClear _ | OSymxAssign _ _ | OTouch _ =>
    (forall x, kids (step' w o) x = kids w x) /\ (forall x, cache (step' w o) x = cache w x) /\
    (forall x, has (step' w o) x = has w x /\ nk (getn (step' w o) x) = nk (getn w x) /\
               nuuid (getn (step' w o) x) = nuuid (getn w x) /\ npar (getn (step' w o) x) = npar (getn w x))
  | _ => True
  end.
Proof. exact SetOpsProofs.f1_attr_skel. Qed.

(* non-vacuity: module 2 with section 4 and symbol 5; the section is moved to module 3 from the collection side,
   the symbol from the attribute side, module 3 is moved from IR 1 to IR 6; the old owners forgot them *)
Example C04_example :
  let ops := [ONew 1 KIR 101 None 0 0 0 PNone; ONew 2 KMod 102 None 0 0 0 PNone; ONew 3 KMod 103 None 0 0 0 PNone;
              ONew 4 KSec 104 None 0 0 0 PNone; ONew 5 KSym 105 None 0 0 7 PNone; ONew 6 KIR 106 None 0 0 0 PNone;
              OModAppend 1 2; OModAppend 1 3; OSet 2 [KSec] SAdd [[4]]; OSetParent 5 (Some 2);
              OSet 3 [KSec] SAdd [[4]]; OSetParent 5 (Some 3); OModInsert 6 0 3] in
  let w := fst (run_guarded w0 [] ops) in
  all_guarded_ok w0 [] ops = true /\
  map (kids w) [1; 2; 3; 6] = [[2]; []; [4; 5]; [3]] /\
  map (par w) [2; 3; 4; 5] = [Some 1; Some 6; Some 3; Some 3] /\
  map (ir_of w) [4; 5] = [Some 6; Some 6] /\ map (module_of w) [4; 5] = [Some 3; Some 3].
Proof. vm_compute. repeat split. Qed.

Print Assumptions C04_two_ended.
Print Assumptions C04_no_duplicates.
Print Assumptions C04_single_parent.
Print Assumptions C04_kinds_layered.
Print Assumptions C04_nodes_known.
Print Assumptions C04_every_step.
Print Assumptions C04_move_leaves_previous_owner.
Print Assumptions C04_move_leaves_previous_owner_parent_attr.
Print Assumptions C04_move_leaves_previous_owner_modlist_insert.
Print Assumptions C04_modlist_insert_own_module.
Print Assumptions C04_move_leaves_previous_owner_modlist_append.
Print Assumptions C04_accessors.
Print Assumptions C04_accessors_kinds.
Print Assumptions C04_accessors_agree_with_iteration.
Print Assumptions C04_frame_discard.
Print Assumptions C04_frame_modlist_remove.
Print Assumptions C04_frame_modlist_delslice.
Print Assumptions C04_frame_modlist_clear.
Print Assumptions C04_frame_new.
Print Assumptions C04_frame_attribute_edits.
Print Assumptions C04_example.

(* ---------- the aggregate iterators (section.byte_blocks, module.code_blocks, ir.cfg_nodes, ...) ---------- *)
(* Model/Aggregates.v transcribes them as itertools.chain compositions over the owning collections; in every reachable
   state each enumerates exactly the nodes of the stated kind whose .section / .module / .ir is the scope, each once.
   Proofs in Proofs/AggregateProofs.v. *)
From V Require Import Aggregates.
From V Require AggregateProofs.

Theorem C04_aggregates_section : forall w known s, reachable_k w known ->
  (forall n, In n (sec_byte_intervals w s) <-> kindof w n = KBI /\ par w n = Some s) /\
  (forall n, In n (sec_byte_blocks w s) <-> is_block (kindof w n) = true /\ section_of w n = Some s) /\
  (forall n, In n (sec_code_blocks w s) <-> kindof w n = KCode /\ section_of w n = Some s) /\
  (forall n, In n (sec_data_blocks w s) <-> kindof w n = KData /\ section_of w n = Some s) /\
  NoDup (sec_byte_intervals w s) /\ NoDup (sec_byte_blocks w s) /\
  NoDup (sec_code_blocks w s) /\ NoDup (sec_data_blocks w s).
Proof. intros w known s R. exact (AggregateProofs.reach_section_aggregates w known R s). Qed.

Theorem C04_aggregates_module : forall w known m, reachable_k w known ->
  (forall n, In n (mod_sections w m) <-> kindof w n = KSec /\ par w n = Some m) /\
  (forall n, In n (mod_symbols w m) <-> kindof w n = KSym /\ par w n = Some m) /\
  (forall n, In n (mod_proxies w m) <-> kindof w n = KProxy /\ par w n = Some m) /\
  (forall n, In n (mod_byte_intervals w m) <-> kindof w n = KBI /\ module_of w n = Some m) /\
  (forall n, In n (mod_byte_blocks w m) <-> is_block (kindof w n) = true /\ module_of w n = Some m) /\
  (forall n, In n (mod_code_blocks w m) <-> kindof w n = KCode /\ module_of w n = Some m) /\
  (forall n, In n (mod_data_blocks w m) <-> kindof w n = KData /\ module_of w n = Some m) /\
  (forall n, In n (mod_cfg_nodes w m) <-> (kindof w n = KCode \/ kindof w n = KProxy) /\ module_of w n = Some m) /\
  NoDup (mod_sections w m) /\ NoDup (mod_symbols w m) /\ NoDup (mod_proxies w m) /\
  NoDup (mod_byte_intervals w m) /\ NoDup (mod_byte_blocks w m) /\
  NoDup (mod_code_blocks w m) /\ NoDup (mod_data_blocks w m) /\ NoDup (mod_cfg_nodes w m).
Proof. intros w known m R. exact (AggregateProofs.reach_module_aggregates w known R m). Qed.

Theorem C04_aggregates_ir : forall w known ir, reachable_k w known ->
  (forall n, In n (ir_sections w ir) <-> kindof w n = KSec /\ ir_of w n = Some ir) /\
  (forall n, In n (ir_symbols w ir) <-> kindof w n = KSym /\ ir_of w n = Some ir) /\
  (forall n, In n (ir_proxy_blocks w ir) <-> kindof w n = KProxy /\ ir_of w n = Some ir) /\
  (forall n, In n (ir_byte_intervals w ir) <-> kindof w n = KBI /\ ir_of w n = Some ir) /\
  (forall n, In n (ir_byte_blocks w ir) <-> is_block (kindof w n) = true /\ ir_of w n = Some ir) /\
  (forall n, In n (ir_code_blocks w ir) <-> kindof w n = KCode /\ ir_of w n = Some ir) /\
  (forall n, In n (ir_data_blocks w ir) <-> kindof w n = KData /\ ir_of w n = Some ir) /\
  (forall n, In n (ir_cfg_nodes w ir) <-> (kindof w n = KCode \/ kindof w n = KProxy) /\ ir_of w n = Some ir) /\
  NoDup (ir_sections w ir) /\ NoDup (ir_symbols w ir) /\ NoDup (ir_proxy_blocks w ir) /\
  NoDup (ir_byte_intervals w ir) /\ NoDup (ir_byte_blocks w ir) /\
  NoDup (ir_code_blocks w ir) /\ NoDup (ir_data_blocks w ir) /\ NoDup (ir_cfg_nodes w ir).
Proof. intros w known ir R. exact (AggregateProofs.reach_ir_aggregates w known R ir). Qed.

(* the selector the harness compares against the implementation: every enumerated node is a strict descendant of
   the scope (a non-empty chain of parent attributes leads from it to the scope), it is exactly the set the
   forest implies for that scope kind and selector, and nothing is listed twice *)
Theorem C04_aggregates_selector : forall w known scope, reachable_k w known -> has w scope = true -> forall a n,
  (In n (aggregate w scope a) -> AggregateProofs.strict_desc w scope n) /\
  (In n (aggregate w scope a) <->
   match kindof w scope, a with
   | KSec, 0 => kindof w n = KBI /\ par w n = Some scope
   | KSec, 1 => is_block (kindof w n) = true /\ section_of w n = Some scope
   | KSec, 2 => kindof w n = KCode /\ section_of w n = Some scope
   | KSec, 3 => kindof w n = KData /\ section_of w n = Some scope
   | KMod, 0 => kindof w n = KBI /\ module_of w n = Some scope
   | KMod, 1 => is_block (kindof w n) = true /\ module_of w n = Some scope
   | KMod, 2 => kindof w n = KCode /\ module_of w n = Some scope
   | KMod, 3 => kindof w n = KData /\ module_of w n = Some scope
   | KMod, 4 => (kindof w n = KCode \/ kindof w n = KProxy) /\ module_of w n = Some scope
   | KIR, 0 => kindof w n = KBI /\ ir_of w n = Some scope
   | KIR, 1 => is_block (kindof w n) = true /\ ir_of w n = Some scope
   | KIR, 2 => kindof w n = KCode /\ ir_of w n = Some scope
   | KIR, 3 => kindof w n = KData /\ ir_of w n = Some scope
   | KIR, 4 => (kindof w n = KCode \/ kindof w n = KProxy) /\ ir_of w n = Some scope
   | KIR, 5 => kindof w n = KSec /\ ir_of w n = Some scope
   | KIR, 6 => kindof w n = KSym /\ ir_of w n = Some scope
   | KIR, 7 => kindof w n = KProxy /\ ir_of w n = Some scope
   | _, _ => False
   end) /\
  NoDup (aggregate w scope a).
Proof. intros w known scope R H. exact (AggregateProofs.aggregate_exact w known scope R H). Qed.

(* non-vacuity: IR 1 > modules 2, 3; module 2 > section 4, symbol 5, proxy 6; section 4 > intervals 7, 8;
   interval 7 > code 9, data 10; interval 8 > code 11; module 3 > section 12 > interval 13 > data 14 *)
Example C04_aggregates_example :
  let ops := [ONew 1 KIR 101 None 0 0 0 PNone; ONew 2 KMod 102 None 0 0 0 PNone; ONew 3 KMod 103 None 0 0 0 PNone;
              ONew 4 KSec 104 None 0 0 0 PNone; ONew 5 KSym 105 None 0 0 7 PNone; ONew 6 KProxy 106 None 0 0 0 PNone;
              ONew 7 KBI 107 None 16 0 0 PNone; ONew 8 KBI 108 None 16 0 0 PNone;
              ONew 9 KCode 109 None 4 0 0 PNone; ONew 10 KData 110 None 4 4 0 PNone; ONew 11 KCode 111 None 4 0 0 PNone;
              ONew 12 KSec 112 None 0 0 0 PNone; ONew 13 KBI 113 None 16 0 0 PNone; ONew 14 KData 114 None 4 0 0 PNone;
              OModAppend 1 2; OModAppend 1 3;
              OSetParent 4 (Some 2); OSetParent 5 (Some 2); OSetParent 6 (Some 2);
              OSetParent 7 (Some 4); OSetParent 8 (Some 4);
              OSetParent 9 (Some 7); OSetParent 10 (Some 7); OSetParent 11 (Some 8);
              OSetParent 12 (Some 3); OSetParent 13 (Some 12); OSetParent 14 (Some 13)] in
  let w := fst (run_guarded w0 [] ops) in
  all_guarded_ok w0 [] ops = true /\
  map (aggregate w 4) [0; 1; 2; 3] = [[7; 8]; [9; 10; 11]; [9; 11]; [10]] /\
  map (aggregate w 2) [0; 1; 2; 3; 4] = [[7; 8]; [9; 10; 11]; [9; 11]; [10]; [9; 11; 6]] /\
  map (aggregate w 1) [0; 1; 2; 3; 4; 5; 6; 7] =
    [[7; 8; 13]; [9; 10; 11; 14]; [9; 11]; [10; 14]; [9; 11; 6]; [4; 12]; [5]; [6]].
Proof. vm_compute. repeat split. Qed.

Print Assumptions C04_aggregates_section.
Print Assumptions C04_aggregates_module.
Print Assumptions C04_aggregates_ir.
Print Assumptions C04_aggregates_selector.
Print Assumptions C04_aggregates_example.
