(* C04 placeholder: theorems land with Proofs/WorldProofs.v *)
From Coq Require Import ZArith List.
From V Require Import Result World.
Import ListNotations.
Theorem C04_new_detached : forall w n k u a s f nm p, par (step' w (ONew n k u a s f nm p)) n = None.
Proof. intros. unfold step', step, par, getn. destruct k; cbn; unfold upd; rewrite Z.eqb_refl; reflexivity. Qed.
Print Assumptions C04_new_detached.
