(* C14 -- AuxData tables are never silently lost, staled or rewritten.
   Model: Model/AuxTable.v (auxdata.py: AuxData, _LazyDataContainer, _to_protobuf) over Model/Codec.v. *)
From Coq Require Import ZArith Bool String List.
From V Require Import Result Bytes TypeName Codec AuxTable AuxTableProofs.
Import ListNotations.
Open Scope Z_scope.

(* loaded and saved without its data being read (type name possibly reassigned, but equal to the loaded
   one at save time): written back byte for byte with the same type name -- for ANY bytes and ANY type
   name, parseable or not, known or not *)
Theorem C14_untouched_verbatim : forall get ops raw tn0 t',
  forallb (fun o => negb (touches o)) ops = true ->
  t' = steps get (load tn0 raw) ops ->
  tname t' = tn0 ->
  exists t'', save get t' = Ok (t'', (tn0, raw)) /\ lazy t'' = Some (raw, tn0).
Proof. exact untouched_verbatim. Qed.

(* ... through any number of save/load generations *)
Theorem C14_untouched_generations : forall get n tn raw, generations get n tn raw = Ok (tn, raw).
Proof. exact untouched_generations. Qed.

(* read / mutate / assign drop the loaded bytes for good ... *)
Theorem C14_touch_clears_raw : forall get t o t', touches o = true -> step get t o = Ok t' -> lazy t' = None.
Proof. exact touch_clears_lazy. Qed.

(* ... each op leaves exactly the value / type name it should ... *)
Theorem C14_touched_value : forall get t o t',
  step get t o = Ok t' ->
  match o with
  | Mutate v | Assign v => data t' = v /\ tname t' = tname t
  | Read => (lazy t = None -> t' = t)
            /\ (forall raw tn0, lazy t = Some (raw, tn0) -> decode_top get tn0 raw = Ok (data t') /\ tname t' = tname t)
  | SetType s => tname t' = s /\ data t' = data t /\ lazy t' = lazy t
  end.
Proof. exact touched_value. Qed.

(* ... and from then on save writes the encoding of the current value under the current type name *)
Theorem C14_touched_reencoded : forall get t t' out,
  lazy t = None -> save get t = Ok (t', out) ->
  exists bs, encode_top (tname t) (data t) = Ok bs /\ out = (tname t, bs) /\ t' = t.
Proof. exact touched_reencoded. Qed.

(* given a different type name without being read: decoded under the old name, encoded under the new *)
Theorem C14_retyped_reencoded : forall get raw tn0 tn1 t' out,
  zs_eqb tn1 tn0 = false ->
  save get {| lazy := Some (raw, tn0); data := VUnknown []; tname := tn1 |} = Ok (t', out) ->
  exists v bs, decode_top get tn0 raw = Ok v /\ encode_top tn1 v = Ok bs /\ out = (tn1, bs) /\ lazy t' = None.
Proof. exact retyped_reencoded. Qed.

(* a type involving a name without codec: the bytes survive a read, under whatever type name *)
Theorem C14_unknown_sticky : forall get tn raw t1,
  decode_top get tn raw = Ok (VUnknown raw) ->
  step get (load tn raw) Read = Ok t1 ->
  forall tn', exists t2, save get {| lazy := lazy t1; data := data t1; tname := tn' |} = Ok (t2, (tn', raw)).
Proof. exact unknown_sticky. Qed.

Theorem C14_unknown_iff : forall get tn raw t,
  parse_type tn = Ok t ->
  (decode_top get tn raw = Ok (VUnknown raw) <->
   decode get t raw = Err EUnknownCodec \/ exists rest, decode get t raw = Ok (VUnknown raw, rest)).
Proof. exact unknown_iff. Qed.

(* The property's third clause speaks of a type that INVOLVES a name without codec; the implementation (and this model of it)
   notices such a name only when decoding REACHES it.  Where it does not -- an empty sequence<foo>, a variant whose taken
   alternative is known -- the value is an ordinary one and a read followed by a save re-encodes the known parts: a set that
   lists an element twice loses the repetition.  This is the known finding C14 unknown-name-not-reached (recorded, not repaired). *)
Fixpoint involves_unknown (t : tree) : bool :=
  match t with
  | T nm subs => (match lookup_codec spec_table nm with None => true | Some _ => false end) || existsb involves_unknown subs
  end.

Theorem C14_unknown_not_reached_refuted :
  exists get tn t raw t1 t2 out,
    parse_type tn = Ok t /\ involves_unknown t = true /\
    step get (load tn raw) Read = Ok t1 /\ save get t1 = Ok (t2, out) /\
    fst out = tn /\ snd out <> raw.
Proof.
  exists (fun _ : Z => None), (str "tuple<set<uint8_t>,sequence<foo>>").
  eexists. exists [2;0;0;0;0;0;0;0; 5; 5; 0;0;0;0;0;0;0;0].
  eexists. eexists. eexists.
  split; [vm_compute; reflexivity|]. split; [vm_compute; reflexivity|].
  split; [vm_compute; reflexivity|]. split; [vm_compute; reflexivity|].
  split; [vm_compute; reflexivity|]. vm_compute. discriminate.
Qed.

(* non-vacuity: a set listing an element twice is verbatim if untouched and canonicalised once read;
   a partially unknown type keeps arbitrary bytes after a read *)
Example C14_example :
  let get := fun _ : Z => None in
  let tn := str "set<uint8_t>" in
  let raw := [2;0;0;0;0;0;0;0; 5; 5] in
  (exists t, save get (load tn raw) = Ok (t, (tn, raw))) /\
  (match step get (load tn raw) Read with
   | Ok t1 => match save get t1 with Ok (_, (_, bs)) => bs = [1;0;0;0;0;0;0;0; 5] | Err _ => False end
   | Err _ => False end) /\
  decode_top get (str "mapping<string,foo<bar>>") [1;0;0;0;0;0;0;0; 0;0;0;0;0;0;0;0; 9; 9; 9]
    = Ok (VUnknown [1;0;0;0;0;0;0;0; 0;0;0;0;0;0;0;0; 9; 9; 9]).
Proof. vm_compute. repeat split; eauto. Qed.

Print Assumptions C14_untouched_verbatim.
Print Assumptions C14_untouched_generations.
Print Assumptions C14_touch_clears_raw.
Print Assumptions C14_touched_value.
Print Assumptions C14_touched_reencoded.
Print Assumptions C14_retyped_reencoded.
Print Assumptions C14_unknown_sticky.
Print Assumptions C14_unknown_iff.
Print Assumptions C14_unknown_not_reached_refuted.
