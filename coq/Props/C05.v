(* C05 -- block lookups by address or offset equal a fresh scan at every scope: byte_blocks_on/at (and the code_ /
   data_ variants) on a byte interval, section, module or IR and the _offset variants on a byte interval return each
   qualifying block exactly once and nothing else; 'on' = non-zero size and byte range intersects the query, 'at' =
   first address (offset) is a member of the query range; intervals without address contribute nothing to address
   queries; at section / module / IR scope only blocks (or parts) outside their interval's declared extent may differ.
   Model: Model/World.v (the lazily maintained interval trees `tree`, force, nodes_on_tree / nodes_at_tree,
   bi_blocks_*, sec_blocks_*, mod_lift, ir_lift), Model/LazyTree.v, Model/WorldRun.v (kfilter), Model/WorldGuard.v.
   Invariants: Forest, SyncAll, NonNeg (parts of WorldInv.InvAll).  A lookup returns (world', answer): world' differs
   from the world only in the lazy trees (`agree`) and satisfies the same invariants.
   Only property theorems here; proofs in Proofs/LookupBase.v, LookupProofs.v, ScheduleProofs.v, SyncProofs.v,
   WorldInv.v, WorldProps.v. *)
From Coq Require Import ZArith List Bool.
From V Require Import Result LazyTree World WorldGuard WorldRun ForestDefs InvDefs WorldInv WorldProps.
From V Require Import LookupBase LookupProofs ScheduleProofs.
Import ListNotations.
Open Scope Z_scope.

(* the two selection criteria.  in_q x q (World.v) is: qstart <= x < qstop and (x - qstart) mod qstep = 0 *)
Theorem C05_on_criterion : forall lo size q, on_spec lo size q = true <->
  0 < size /\ Z.max (qstart q) lo < Z.min (qstop q) (lo + size).
Proof. exact on_spec_true. Qed.

(* ---------- byte-interval scope: exact ---------- *)

Theorem C05_bi_blocks_on_exact : forall w known bi q, reachable_k w known -> kindof w bi = KBI ->
  NoDup (snd (bi_blocks_on w bi q)) /\
  forall b, In b (snd (bi_blocks_on w bi q)) <->
    In b (kids w bi) /\ exists a, naddr (getn w bi) = Some a /\
      on_spec (a + noff (getn w b)) (nsize (getn w b)) q = true.
Proof.
  intros w known bi q R. exact (bi_blocks_on_exact w known bi q (reach_forest w known R) (reach_sync w known R) (reach_nonneg w known R)).
Qed.

Theorem C05_bi_blocks_at_exact : forall w known bi q, reachable_k w known -> kindof w bi = KBI ->
  NoDup (snd (bi_blocks_at w bi q)) /\
  forall b, In b (snd (bi_blocks_at w bi q)) <->
    In b (kids w bi) /\ exists a, naddr (getn w bi) = Some a /\ in_q (a + noff (getn w b)) q = true.
Proof.
  intros w known bi q R. exact (bi_blocks_at_exact w known bi q (reach_forest w known R) (reach_sync w known R) (reach_nonneg w known R)).
Qed.

Theorem C05_bi_blocks_on_offset_exact : forall w known bi q, reachable_k w known -> kindof w bi = KBI ->
  NoDup (snd (bi_blocks_on_off w bi q)) /\
  forall b, In b (snd (bi_blocks_on_off w bi q)) <->
    In b (kids w bi) /\ on_spec (noff (getn w b)) (nsize (getn w b)) q = true.
Proof.
  intros w known bi q R. exact (bi_blocks_on_off_exact w bi q (reach_sync w known R) (reach_nonneg w known R)).
Qed.

Theorem C05_bi_blocks_at_offset_exact : forall w known bi q, reachable_k w known -> kindof w bi = KBI ->
  NoDup (snd (bi_blocks_at_off w bi q)) /\
  forall b, In b (snd (bi_blocks_at_off w bi q)) <-> In b (kids w bi) /\ in_q (noff (getn w b)) q = true.
Proof.
  intros w known bi q R. exact (bi_blocks_at_off_exact w bi q (reach_sync w known R) (reach_nonneg w known R)).
Qed.

(* an interval without an address answers address queries with nothing (and does not even build its index) *)
Theorem C05_no_address_no_blocks : forall w bi q, naddr (getn w bi) = None ->
  bi_blocks_on w bi q = (w, []) /\ bi_blocks_at w bi q = (w, []).
Proof. intros w bi q H. exact (conj (bi_blocks_on_noaddr w bi q H) (bi_blocks_at_noaddr w bi q H)). Qed.

(* ---------- the code_ / data_ variants: exactly the blocks of that kind, still without duplicates ---------- *)

Theorem C05_code_filter : forall w l b, In b (kfilter w 1 l) <-> In b l /\ kindof w b = KCode.
Proof. exact kfilter_code. Qed.
Theorem C05_data_filter : forall w l b, In b (kfilter w 2 l) <-> In b l /\ kindof w b = KData.
Proof. exact kfilter_data. Qed.
Theorem C05_byte_filter : forall w kf l, kf <> 1 -> kf <> 2 -> kfilter w kf l = l.
Proof. exact kfilter_all. Qed.
Theorem C05_filter_once : forall w kf l, NoDup l -> NoDup (kfilter w kf l).
Proof. exact kfilter_NoDup. Qed.

(* ---------- section / module / IR scope: what the implementation computes, exactly ----------
   the blocks that the byte-interval lookup reports for the intervals that byte_intervals_on reports *)

Theorem C05_sec_blocks_on_exact : forall w known s q, reachable_k w known -> kindof w s = KSec ->
  (GoodK known (fst (sec_blocks_on w s q)) /\ agree w (fst (sec_blocks_on w s q))) /\
  NoDup (snd (sec_blocks_on w s q)) /\
  forall b, In b (snd (sec_blocks_on w s q)) <->
    exists bi, In bi (snd (sec_bis_on w s q)) /\ bi_on_spec w bi q b.
Proof. intros w known s q R. exact (sec_blocks_on_exact known w s q (reach_goodk w known R)). Qed.

Theorem C05_sec_blocks_at_exact : forall w known s q, reachable_k w known -> kindof w s = KSec ->
  (GoodK known (fst (sec_blocks_at w s q)) /\ agree w (fst (sec_blocks_at w s q))) /\
  NoDup (snd (sec_blocks_at w s q)) /\
  forall b, In b (snd (sec_blocks_at w s q)) <->
    exists bi, In bi (snd (sec_bis_on w s q)) /\ bi_at_spec w bi q b.
Proof. intros w known s q R. exact (sec_blocks_at_exact known w s q (reach_goodk w known R)). Qed.

(* ... where byte_intervals_on is itself exact (C06) *)
Theorem C05_sec_bis_on_members : forall w known s q bi, reachable_k w known -> kindof w s = KSec ->
  (In bi (snd (sec_bis_on w s q)) <->
   In bi (kids w s) /\ exists a, naddr (getn w bi) = Some a /\ on_spec a (nsize (getn w bi)) q = true).
Proof. intros w known s q bi R. exact (sec_bis_on_In known w s q bi (reach_goodk w known R)). Qed.

Theorem C05_mod_blocks_on_exact : forall w known m q, reachable_k w known ->
  (GoodK known (fst (mod_lift sec_blocks_on w m q)) /\ agree w (fst (mod_lift sec_blocks_on w m q))) /\
  NoDup (snd (mod_lift sec_blocks_on w m q)) /\
  forall b, In b (snd (mod_lift sec_blocks_on w m q)) <->
    exists s, In s (secs_of w m) /\
    exists bi, In bi (snd (sec_bis_on w s q)) /\ bi_on_spec w bi q b.
Proof. intros w known m q R. exact (mod_blocks_on_exact known w m q (reach_goodk w known R)). Qed.

Theorem C05_mod_blocks_at_exact : forall w known m q, reachable_k w known ->
  (GoodK known (fst (mod_lift sec_blocks_at w m q)) /\ agree w (fst (mod_lift sec_blocks_at w m q))) /\
  NoDup (snd (mod_lift sec_blocks_at w m q)) /\
  forall b, In b (snd (mod_lift sec_blocks_at w m q)) <->
    exists s, In s (secs_of w m) /\
    exists bi, In bi (snd (sec_bis_on w s q)) /\ bi_at_spec w bi q b.
Proof. intros w known m q R. exact (mod_blocks_at_exact known w m q (reach_goodk w known R)). Qed.

Theorem C05_ir_blocks_on_exact : forall w known ir q, reachable_k w known ->
  (GoodK known (fst (ir_lift sec_blocks_on w ir q)) /\ agree w (fst (ir_lift sec_blocks_on w ir q))) /\
  NoDup (snd (ir_lift sec_blocks_on w ir q)) /\
  forall b, In b (snd (ir_lift sec_blocks_on w ir q)) <->
    exists m, In m (kids w ir) /\ exists s, In s (secs_of w m) /\
    exists bi, In bi (snd (sec_bis_on w s q)) /\ bi_on_spec w bi q b.
Proof. intros w known ir q R. exact (ir_blocks_on_exact known w ir q (reach_goodk w known R)). Qed.

Theorem C05_ir_blocks_at_exact : forall w known ir q, reachable_k w known ->
  (GoodK known (fst (ir_lift sec_blocks_at w ir q)) /\ agree w (fst (ir_lift sec_blocks_at w ir q))) /\
  NoDup (snd (ir_lift sec_blocks_at w ir q)) /\
  forall b, In b (snd (ir_lift sec_blocks_at w ir q)) <->
    exists m, In m (kids w ir) /\ exists s, In s (secs_of w m) /\
    exists bi, In bi (snd (sec_bis_on w s q)) /\ bi_at_spec w bi q b.
Proof. intros w known ir q R. exact (ir_blocks_at_exact known w ir q (reach_goodk w known R)). Qed.

(* ---------- section / module / IR scope: the envelope of the property statement ----------
   sound (everything returned qualifies by the fresh-scan criterion), complete for blocks inside their interval's
   declared extent [a, a + size(interval)), and without duplicates *)

Theorem C05_sec_blocks_on_envelope : forall w known s q, reachable_k w known -> kindof w s = KSec ->
  (GoodK known (fst (sec_blocks_on w s q)) /\ agree w (fst (sec_blocks_on w s q))) /\
  NoDup (snd (sec_blocks_on w s q)) /\
  (forall b, In b (snd (sec_blocks_on w s q)) ->
     exists bi a, In bi (kids w s) /\ In b (kids w bi) /\ naddr (getn w bi) = Some a /\
       on_spec (a + noff (getn w b)) (nsize (getn w b)) q = true) /\
  (forall bi b a, In bi (kids w s) -> In b (kids w bi) -> naddr (getn w bi) = Some a ->
     0 < nsize (getn w b) ->
     Z.max (Z.max (qstart q) (a + noff (getn w b))) a <
     Z.min (Z.min (qstop q) (a + noff (getn w b) + nsize (getn w b))) (a + nsize (getn w bi)) ->
     In b (snd (sec_blocks_on w s q))).
Proof. intros w known s q R. exact (sec_blocks_on_envelope known w s q (reach_goodk w known R)). Qed.

Theorem C05_sec_blocks_at_envelope : forall w known s q, reachable_k w known -> kindof w s = KSec ->
  (GoodK known (fst (sec_blocks_at w s q)) /\ agree w (fst (sec_blocks_at w s q))) /\
  NoDup (snd (sec_blocks_at w s q)) /\
  (forall b, In b (snd (sec_blocks_at w s q)) ->
     exists bi a, In bi (kids w s) /\ In b (kids w bi) /\ naddr (getn w bi) = Some a /\
       in_q (a + noff (getn w b)) q = true) /\
  (forall bi b a, In bi (kids w s) -> In b (kids w bi) -> naddr (getn w bi) = Some a ->
     in_q (a + noff (getn w b)) q = true ->
     a <= a + noff (getn w b) < a + nsize (getn w bi) ->
     In b (snd (sec_blocks_at w s q))).
Proof. intros w known s q R. exact (sec_blocks_at_envelope known w s q (reach_goodk w known R)). Qed.

Theorem C05_mod_blocks_on_envelope : forall w known m q, reachable_k w known ->
  (GoodK known (fst (mod_lift sec_blocks_on w m q)) /\ agree w (fst (mod_lift sec_blocks_on w m q))) /\
  NoDup (snd (mod_lift sec_blocks_on w m q)) /\
  (forall b, In b (snd (mod_lift sec_blocks_on w m q)) ->
     exists s, In s (secs_of w m) /\
     exists bi a, In bi (kids w s) /\ In b (kids w bi) /\ naddr (getn w bi) = Some a /\
       on_spec (a + noff (getn w b)) (nsize (getn w b)) q = true) /\
  (forall s bi b a, In s (secs_of w m) -> In bi (kids w s) -> In b (kids w bi) ->
     naddr (getn w bi) = Some a -> 0 < nsize (getn w b) ->
     Z.max (Z.max (qstart q) (a + noff (getn w b))) a <
     Z.min (Z.min (qstop q) (a + noff (getn w b) + nsize (getn w b))) (a + nsize (getn w bi)) ->
     In b (snd (mod_lift sec_blocks_on w m q))).
Proof. intros w known m q R. exact (mod_blocks_on_envelope known w m q (reach_goodk w known R)). Qed.

Theorem C05_mod_blocks_at_envelope : forall w known m q, reachable_k w known ->
  (GoodK known (fst (mod_lift sec_blocks_at w m q)) /\ agree w (fst (mod_lift sec_blocks_at w m q))) /\
  NoDup (snd (mod_lift sec_blocks_at w m q)) /\
  (forall b, In b (snd (mod_lift sec_blocks_at w m q)) ->
     exists s, In s (secs_of w m) /\
     exists bi a, In bi (kids w s) /\ In b (kids w bi) /\ naddr (getn w bi) = Some a /\
       in_q (a + noff (getn w b)) q = true) /\
  (forall s bi b a, In s (secs_of w m) -> In bi (kids w s) -> In b (kids w bi) ->
     naddr (getn w bi) = Some a -> in_q (a + noff (getn w b)) q = true ->
     a <= a + noff (getn w b) < a + nsize (getn w bi) ->
     In b (snd (mod_lift sec_blocks_at w m q))).
Proof. intros w known m q R. exact (mod_blocks_at_envelope known w m q (reach_goodk w known R)). Qed.

Theorem C05_ir_blocks_on_envelope : forall w known ir q, reachable_k w known ->
  (GoodK known (fst (ir_lift sec_blocks_on w ir q)) /\ agree w (fst (ir_lift sec_blocks_on w ir q))) /\
  NoDup (snd (ir_lift sec_blocks_on w ir q)) /\
  (forall b, In b (snd (ir_lift sec_blocks_on w ir q)) ->
     exists m, In m (kids w ir) /\ exists s, In s (secs_of w m) /\
     exists bi a, In bi (kids w s) /\ In b (kids w bi) /\ naddr (getn w bi) = Some a /\
       on_spec (a + noff (getn w b)) (nsize (getn w b)) q = true) /\
  (forall m s bi b a, In m (kids w ir) -> In s (secs_of w m) -> In bi (kids w s) ->
     In b (kids w bi) -> naddr (getn w bi) = Some a -> 0 < nsize (getn w b) ->
     Z.max (Z.max (qstart q) (a + noff (getn w b))) a <
     Z.min (Z.min (qstop q) (a + noff (getn w b) + nsize (getn w b))) (a + nsize (getn w bi)) ->
     In b (snd (ir_lift sec_blocks_on w ir q))).
Proof. intros w known ir q R. exact (ir_blocks_on_envelope known w ir q (reach_goodk w known R)). Qed.

Theorem C05_ir_blocks_at_envelope : forall w known ir q, reachable_k w known ->
  (GoodK known (fst (ir_lift sec_blocks_at w ir q)) /\ agree w (fst (ir_lift sec_blocks_at w ir q))) /\
  NoDup (snd (ir_lift sec_blocks_at w ir q)) /\
  (forall b, In b (snd (ir_lift sec_blocks_at w ir q)) ->
     exists m, In m (kids w ir) /\ exists s, In s (secs_of w m) /\
     exists bi a, In bi (kids w s) /\ In b (kids w bi) /\ naddr (getn w bi) = Some a /\
       in_q (a + noff (getn w b)) q = true) /\
  (forall m s bi b a, In m (kids w ir) -> In s (secs_of w m) -> In bi (kids w s) ->
     In b (kids w bi) -> naddr (getn w bi) = Some a -> in_q (a + noff (getn w b)) q = true ->
     a <= a + noff (getn w b) < a + nsize (getn w bi) ->
     In b (snd (ir_lift sec_blocks_at w ir q))).
Proof. intros w known ir q R. exact (ir_blocks_at_envelope known w ir q (reach_goodk w known R)). Qed.

(* non-vacuity: IR 1 > module 2 > section 3 > intervals 4 (address 100, size 50) and 8 (no address).  Blocks 5 (code,
   size 10, offset 0), 6 (data, size 0, offset 10), 7 (data, size 5, offset 20) in 4; block 9 (code) in 8.  The indexes
   are forced (OTouch), then: offset of 5 := 30, address of 4 := 200, size of 6 := 3, index forced again, offset of
   7 := 48 (sticks out of the interval), 9 moved into 4 with offset 60 (entirely outside the declared extent). *)
Example C05_example :
  let Q a b s := {| qstart := a; qstop := b; qstep := s |} in
  let ops1 := [ONew 1 KIR 101 None 0 0 0 PNone; ONew 2 KMod 102 None 0 0 0 PNone; ONew 3 KSec 103 None 0 0 0 PNone;
     ONew 4 KBI 104 (Some 100) 50 0 0 PNone; ONew 5 KCode 105 None 10 0 0 PNone; ONew 6 KData 106 None 0 10 0 PNone;
     ONew 7 KData 107 None 5 20 0 PNone; ONew 8 KBI 108 None 50 0 0 PNone; ONew 9 KCode 109 None 4 0 0 PNone;
     OModAppend 1 2; OSetParent 3 (Some 2); OSetParent 4 (Some 3); OSetParent 8 (Some 3);
     OSet 4 [KCode; KData] SUpdate [[5; 6]; [7]]; OSetParent 9 (Some 8); OTouch 4; OTouch 3] in
  let ops2 := [OAttrOff 5 30; OAttrAddr 4 (Some 200); OAttrSize 6 3; OTouch 4; OAttrOff 7 48;
               OSetParent 9 (Some 4); OAttrOff 9 60] in
  let wa := fst (run_guarded w0 [] ops1) in
  let wb := fst (run_guarded w0 [] (ops1 ++ ops2)) in
  all_guarded_ok w0 [] (ops1 ++ ops2) = true /\
  (snd (bi_blocks_on wa 4 (Q 100 150 1)), snd (bi_blocks_at wa 4 (Q 100 150 10)),
   snd (bi_blocks_on_off wa 4 (Q 0 50 1)), snd (bi_blocks_at_off wa 4 (Q 10 21 10)), snd (bi_blocks_on wa 8 (Q 0 300 1)))
  = ([5; 7], [5; 6; 7], [5; 7], [6; 7], []) /\
  (snd (bi_blocks_on wb 4 (Q 100 150 1)), snd (bi_blocks_on wb 4 (Q 200 300 1)), snd (bi_blocks_at wb 4 (Q 200 300 2)),
   snd (bi_blocks_on_off wb 4 (Q 0 50 1)), snd (bi_blocks_at_off wb 4 (Q 10 100 10)))
  = ([], [5; 6; 7; 9], [5; 6; 7; 9], [5; 6; 7], [5; 6; 9]) /\
  (snd (sec_blocks_on wb 3 (Q 200 300 1)), snd (mod_lift sec_blocks_on wb 2 (Q 200 300 1)),
   snd (ir_lift sec_blocks_on wb 1 (Q 200 300 1)), snd (ir_lift sec_blocks_at wb 1 (Q 200 300 1)))
  = ([5; 6; 7; 9], [5; 6; 7; 9], [5; 6; 7; 9], [5; 6; 7; 9]) /\
  (kfilter wb 1 (snd (ir_lift sec_blocks_on wb 1 (Q 200 300 1))), kfilter wb 2 (snd (ir_lift sec_blocks_on wb 1 (Q 200 300 1))))
  = ([5; 9], [6; 7]) /\
  (* the envelope is real: beyond the interval's extent the interval scope still reports 7 and 9, the section does not *)
  (snd (bi_blocks_on wb 4 (Q 251 300 1)), snd (sec_blocks_on wb 3 (Q 251 300 1))) = ([7; 9], []).
Proof. vm_compute. repeat split. Qed.

(* ROUTE INDEPENDENCE at the byte-interval scope: two histories -- any two -- that arrive at the same nodes with the same attributes
   and the same members in every collection give all four block lookups of every interval the same blocks (each exactly once, by
   the theorems above), whatever the routes and whatever lookups were issued on the way. *)
Definition same_structure (w1 w2 : world) : Prop :=
  (forall n, nodes w1 n = nodes w2 n) /\ (forall p x, In x (kids w1 p) <-> In x (kids w2 p)).

Theorem C05_route_independent : forall w1 k1 w2 k2 bi q, reachable_k w1 k1 -> reachable_k w2 k2 -> same_structure w1 w2 ->
  kindof w1 bi = KBI ->
  forall b,
    (In b (snd (bi_blocks_on w1 bi q)) <-> In b (snd (bi_blocks_on w2 bi q))) /\
    (In b (snd (bi_blocks_at w1 bi q)) <-> In b (snd (bi_blocks_at w2 bi q))) /\
    (In b (snd (bi_blocks_on_off w1 bi q)) <-> In b (snd (bi_blocks_on_off w2 bi q))) /\
    (In b (snd (bi_blocks_at_off w1 bi q)) <-> In b (snd (bi_blocks_at_off w2 bi q))).
Proof.
  intros w1 k1 w2 k2 bi q R1 R2 [HN HK] K1 b.
  assert (G : forall x, getn w1 x = getn w2 x) by (intro x; unfold getn; rewrite HN; reflexivity).
  assert (K2 : kindof w2 bi = KBI) by (unfold kindof in *; rewrite <- G; exact K1).
  split; [|split; [|split]].
  - rewrite (proj2 (C05_bi_blocks_on_exact w1 k1 bi q R1 K1) b), (proj2 (C05_bi_blocks_on_exact w2 k2 bi q R2 K2) b), HK, !G. reflexivity.
  - rewrite (proj2 (C05_bi_blocks_at_exact w1 k1 bi q R1 K1) b), (proj2 (C05_bi_blocks_at_exact w2 k2 bi q R2 K2) b), HK, !G. reflexivity.
  - rewrite (proj2 (C05_bi_blocks_on_offset_exact w1 k1 bi q R1 K1) b), (proj2 (C05_bi_blocks_on_offset_exact w2 k2 bi q R2 K2) b), HK, !G. reflexivity.
  - rewrite (proj2 (C05_bi_blocks_at_offset_exact w1 k1 bi q R1 K1) b), (proj2 (C05_bi_blocks_at_offset_exact w2 k2 bi q R2 K2) b), HK, !G. reflexivity.
Qed.

Print Assumptions C05_on_criterion.
Print Assumptions C05_bi_blocks_on_exact.
Print Assumptions C05_bi_blocks_at_exact.
Print Assumptions C05_bi_blocks_on_offset_exact.
Print Assumptions C05_bi_blocks_at_offset_exact.
Print Assumptions C05_no_address_no_blocks.
Print Assumptions C05_code_filter.
Print Assumptions C05_data_filter.
Print Assumptions C05_byte_filter.
Print Assumptions C05_filter_once.
Print Assumptions C05_sec_blocks_on_exact.
Print Assumptions C05_sec_blocks_at_exact.
Print Assumptions C05_sec_bis_on_members.
Print Assumptions C05_mod_blocks_on_exact.
Print Assumptions C05_mod_blocks_at_exact.
Print Assumptions C05_ir_blocks_on_exact.
Print Assumptions C05_ir_blocks_at_exact.
Print Assumptions C05_sec_blocks_on_envelope.
Print Assumptions C05_sec_blocks_at_envelope.
Print Assumptions C05_mod_blocks_on_envelope.
Print Assumptions C05_mod_blocks_at_envelope.
Print Assumptions C05_ir_blocks_on_envelope.
Print Assumptions C05_ir_blocks_at_envelope.
Print Assumptions C05_example.
Print Assumptions C05_route_independent.
