(* Little-endian fixed-width integers over byte lists (bytes are Z in [0,256)). *)
From Coq Require Import ZArith List.
Import ListNotations.
Open Scope Z_scope.

(* int.to_bytes(n, 'little') for 0 <= x < 256^n : n bytes, least significant first *)
Fixpoint le_bytes (n : nat) (x : Z) : list Z :=
  match n with
  | O => []
  | S n' => (x mod 256) :: le_bytes n' (x / 256)
  end.

(* int.from_bytes(bs, 'little', signed=False) for any length *)
Fixpoint of_le (bs : list Z) : Z :=
  match bs with
  | [] => 0
  | b :: bs' => b + 256 * of_le bs'
  end.

Definition pow256 (n : nat) : Z := 256 ^ Z.of_nat n.

(* read(n) on a BytesIO: up to n bytes, never an error *)
Definition take (n : nat) (bs : list Z) : list Z := firstn n bs.
Definition drop (n : nat) (bs : list Z) : list Z := skipn n bs.

Definition is_byte (b : Z) : bool := (0 <=? b) && (b <? 256).
Definition all_bytes (bs : list Z) : bool := forallb is_byte bs.
