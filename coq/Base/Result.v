(* Shared result/error types and the s-expression wire type used between the
   Python harness and the extracted model. *)
From Coq Require Import ZArith List.
Import ListNotations.
Open Scope Z_scope.

(* Exception classes of the implementation that some property mentions,
   plus model-only outcomes (OutOfFuel/Impossible) that theorems exclude. *)
Inductive err :=
| ETypeName      (* gtirb.serialization.TypeNameError *)
| EDeser         (* gtirb.util.DeserializationError *)
| EValue         (* ValueError (incl. UnicodeDecodeError, enum value errors) *)
| EKey           (* KeyError *)
| EIndex         (* IndexError *)
| EType          (* TypeError *)
| EEncode        (* gtirb.serialization.EncodeError *)
| EDecode        (* gtirb.serialization.DecodeError *)
| EOverflow      (* OverflowError *)
| EStruct        (* struct.error *)
| EUnknownCodec  (* gtirb.serialization.UnknownCodecError (internal) *)
| EAttribute     (* AttributeError *)
| EOutOfFuel     (* model only *)
| EImpossible.   (* model only: branch the implementation cannot reach *)

Definition err_code (e : err) : Z :=
  match e with
  | ETypeName => 1 | EDeser => 2 | EValue => 3 | EKey => 4 | EIndex => 5
  | EType => 6 | EEncode => 7 | EDecode => 8 | EOverflow => 9 | EStruct => 10
  | EUnknownCodec => 11 | EAttribute => 12 | EOutOfFuel => 98 | EImpossible => 99
  end.

Inductive res (A : Type) := Ok (a : A) | Err (e : err).
Arguments Ok {A} a.
Arguments Err {A} e.

Definition bind {A B} (r : res A) (f : A -> res B) : res B :=
  match r with Ok a => f a | Err e => Err e end.
Notation "'do' x <- r ; k" := (bind r (fun x => k))
  (at level 200, x pattern, r at level 100, k at level 200, right associativity).

Inductive sx := A (z : Z) | L (l : list sx).

Definition sx_err (e : err) : sx := L [A (-1); A (err_code e)].
Definition sx_bool (b : bool) : sx := A (if b then 1 else 0).
Definition sx_zs (l : list Z) : sx := L (map A l).
Definition sx_opt (o : option Z) : sx := match o with None => L [] | Some z => L [A z] end.

Definition un_z (s : sx) : Z := match s with A z => z | L _ => 0 end.
Definition un_l (s : sx) : list sx := match s with A _ => [] | L l => l end.
Definition un_zs (s : sx) : list Z := map un_z (un_l s).
Definition un_bool (s : sx) : bool := negb (un_z s =? 0).
Definition un_opt (s : sx) : option Z := match s with L [A z] => Some z | _ => None end.
