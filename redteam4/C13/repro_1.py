"""C13: a lookup result that is consumed while an expression OUTSIDE the queried
range is stored or deleted (an edit that leaves the correct answer unchanged)
skips a triple, yields a triple twice, or dies with IndexError."""
import sys
sys.path.insert(0, "/tmp/mutkit")
import gtirb_from_repo
gtirb = gtirb_from_repo.load()
from gtirb import IR, Module, Section, ByteInterval, Symbol, SymAddrConst

ir = IR(); m = Module(name="m", ir=ir); sym = Symbol(name="x", module=m)
sec = Section(name="s", module=m)
bi = ByteInterval(address=100, size=40, section=sec)
bad = []


def fresh():
    bi.symbolic_expressions = {k: SymAddrConst(k, sym) for k in range(10, 20)}


def scan(q, by_offset):
    r = range(q.start, q.stop, q.step)
    return [o for o in sorted(bi.symbolic_expressions)
            if ((o if by_offset else bi.address + o) in r)]


for label, look, q, by_offset in [
    ("ByteInterval.symbolic_expressions_at", bi.symbolic_expressions_at, range(112, 118), False),
    ("ByteInterval.symbolic_expressions_at_offset", bi.symbolic_expressions_at_offset, range(12, 18), True),
    ("Section.symbolic_expressions_at", sec.symbolic_expressions_at, range(112, 118), False),
    ("Module.symbolic_expressions_at", m.symbolic_expressions_at, range(112, 118), False),
    ("IR.symbolic_expressions_at", ir.symbolic_expressions_at, range(112, 118), False),
]:
    for what, edit in [
        ("del m[10] (below the range)", lambda: bi.symbolic_expressions.__delitem__(10)),
        ("m[0] = e (below the range)", lambda: bi.symbolic_expressions.__setitem__(0, SymAddrConst(0, sym))),
    ]:
        fresh()
        g = iter(look(q))
        got = [next(g)[1]]
        edit()                      # the answer to q is the same before and after
        expected = scan(q, by_offset)
        try:
            got += [t[1] for t in g]
        except Exception as e:      # noqa
            got = "%s: %s" % (type(e).__name__, e)
        again = [t[1] for t in look(q)]
        assert again == expected, "fresh lookup itself is wrong?!"
        if got != expected:
            bad.append("%s, %s in between: got %r, expected %r" % (label, what, got, expected))

# scale variant: 2000 expressions, storing one far beyond the range splits the
# backing list of the sorted mapping
bi.symbolic_expressions = {k: SymAddrConst(k, sym) for k in range(2000)}
g = iter(bi.symbolic_expressions_at_offset(range(0, 2000)))
got = [next(g)[1]]
bi.symbolic_expressions[10**9] = SymAddrConst(1, sym)   # not in range(0, 2000)
try:
    got += [t[1] for t in g]
except Exception as e:
    got = "%s: %s" % (type(e).__name__, e)
if got != list(range(2000)):
    bad.append("2000 expressions, store at offset 10**9 in between: got %s, expected offsets 0..1999"
               % (got if isinstance(got, str) else "%d triples" % len(got)))

if bad:
    print("C13 violated:")
    for b in bad:
        print("  " + b)
    sys.exit(1)
print("ok")
