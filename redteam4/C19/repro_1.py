"""C19: padding through initialized_size grows ANOTHER interval's stored bytes
past its size when the two intervals were given the same contents by attribute
assignment (b.contents = a.contents).  Truncation rebinds, padding is in place.
Run: VERIF_REPO=/tmp/hunt4_C19 /venv/bin/python repro_1.py
"""
import io
import sys

sys.path.insert(0, "/tmp/mutkit")
import gtirb_from_repo  # noqa: E402

gtirb = gtirb_from_repo.load()

ir = gtirb.IR()
m = gtirb.Module(name="m", ir=ir)
s = gtirb.Section(name="s", module=m)
a = gtirb.ByteInterval(address=0, size=4, contents=b"abcd", section=s)
blk = gtirb.DataBlock(offset=0, size=4, byte_interval=a)

# route 1: constructor argument -- copies, no problem
c = gtirb.ByteInterval(address=32, size=8, contents=a.contents, section=s)
c.initialized_size = 8
assert (a.size, a.initialized_size) == (4, 4)

# route 2: attribute assignment of the same value, then the same edit
b = gtirb.ByteInterval(address=16, size=8, section=s)
b.contents = a.contents  # content edit: b gets a's four bytes
b.initialized_size = 8  # 8 <= b.size: inside the domain; pads with zeros

bad = []
if a.initialized_size > a.size:
    bad.append(
        "interval a was never resized, yet holds %d stored bytes with size %d"
        " (contents %r)" % (a.initialized_size, a.size, bytes(a.contents))
    )
f = io.BytesIO()
ir.save_protobuf_file(f)
f.seek(0)
try:
    gtirb.IR.load_protobuf_file(f)
except Exception as e:  # noqa: BLE001
    bad.append("the saved IR cannot be loaded back: %r" % (e,))

# the opposite edit (truncation) does not propagate: routes/orders disagree
a2 = gtirb.ByteInterval(size=4, contents=b"abcd")
b2 = gtirb.ByteInterval(size=8)
b2.contents = a2.contents
b2.initialized_size = 2  # truncation rebinds b2.contents
if bytes(a2.contents) != b"abcd":
    bad.append("truncation propagated too")  # does not happen

if bad:
    print("C19 VIOLATION")
    for line in bad:
        print(" -", line)
    sys.exit(1)
print("ok")
