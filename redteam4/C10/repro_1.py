"""C10: replacing Module.symbols by attribute assignment leaves symbols_named / references stale.

Run: VERIF_REPO=/tmp/hunt4_C10 /venv/bin/python repro_1.py
"""
import sys
sys.path.insert(0, "/tmp/mutkit")
import gtirb_from_repo
gtirb = gtirb_from_repo.load()
from gtirb import Module, Section, ByteInterval, CodeBlock, Symbol

bad = []

# Route A: collection method -- the reference route, works.
m = Module(name="m")
s = Symbol("a", module=m)
t = Symbol("a")
m.symbols |= {t}
assert sorted(map(id, m.symbols_named("a"))) == sorted(map(id, (s, t)))

# Route B: the same union written as an attribute assignment (no in-place operator).
m = Module(name="m")
s = Symbol("a", module=m)
t = Symbol("a")
m.symbols = m.symbols | {t}
got = sorted(map(id, m.symbols_named("a")))
exp = sorted(id(x) for x in m.symbols if x.name == "a")
if got != exp:
    bad.append("m.symbols = m.symbols | {t}: t in m.symbols is %r, but symbols_named('a') yields %d of %d symbols; t.module is %r"
               % (t in m.symbols, len(got), len(exp), t.module))

# Route C: removing every symbol by assigning an empty set.
m = Module(name="m")
sec = Section(name=".text", module=m)
bi = ByteInterval(size=4, section=sec)
b = CodeBlock(size=4, byte_interval=bi)
s = Symbol("a", payload=b, module=m)
m.symbols = set()
got_n = list(m.symbols_named("a"))
got_r = list(b.references)
if got_n or got_r:
    bad.append("m.symbols = set(): len(m.symbols) == %d, yet symbols_named('a') yields %d and block.references yields %d symbol(s)"
               % (len(m.symbols), len(got_n), len(got_r)))

# Route D: difference written as assignment.
m = Module(name="m")
s = Symbol("a", module=m)
m.symbols = m.symbols - {s}
if list(m.symbols_named("a")):
    bad.append("m.symbols = m.symbols - {s}: s not in m.symbols, yet symbols_named('a') still yields it")

if bad:
    print("C10 VIOLATION")
    for line in bad:
        print(" -", line)
    sys.exit(1)
print("ok")
