# C07: a module-level AuxData table that is read only after its module moved to
# another IR resolves UUID/Offset entries against the IR it was LOADED into.
import sys, io
sys.path.insert(0, "/tmp/mutkit")
import gtirb_from_repo
gtirb = gtirb_from_repo.load()

ir = gtirb.IR(); m = gtirb.Module(name="m", ir=ir)
p = gtirb.ProxyBlock(module=m)
m.aux_data["t"] = gtirb.AuxData((p, gtirb.Offset(p, 1)), "tuple<UUID,Offset>")
buf = io.BytesIO(); ir.save_protobuf_file(buf); raw = buf.getvalue()

bad = []
# route 1: load, read, move  (reference)
ir1 = gtirb.IR.load_protobuf_file(io.BytesIO(raw)); m1 = ir1.modules[0]
d1 = m1.aux_data["t"].data
tgt1 = gtirb.IR(); tgt1.modules.append(m1)
p1 = next(iter(m1.proxies))
assert d1[0] is p1 and d1[1].element_id is p1 and tgt1.get_by_uuid(p1.uuid) is p1

# route 2: load, move, read  (same final structure)
ir2 = gtirb.IR.load_protobuf_file(io.BytesIO(raw)); m2 = ir2.modules[0]
tgt2 = gtirb.IR(); tgt2.modules.append(m2)
p2 = next(iter(m2.proxies))
d2 = m2.aux_data["t"].data
if d2[0] is not p2 or d2[1].element_id is not p2:
    bad.append("load/move/read: entry naming the module's own ProxyBlock (a node "
               "of the module's IR) came back as %r / %r, not as the node object"
               % (type(d2[0]).__name__, type(d2[1].element_id).__name__))

# route 3: as route 2, but the old IR meanwhile received another module whose
# nodes carry the same UUIDs (second load of the same file): the table hands
# out node objects of a foreign module in a foreign IR.
irA = gtirb.IR.load_protobuf_file(io.BytesIO(raw)); mA = irA.modules[0]
irB = gtirb.IR.load_protobuf_file(io.BytesIO(raw)); mB = irB.modules[0]
irX = gtirb.IR(); irX.modules.append(mA); irA.modules.append(mB)
pA = next(iter(mA.proxies)); pB = next(iter(mB.proxies))
dA = mA.aux_data["t"].data
if dA[0] is pB:
    bad.append("load/move/read: the table of module mA (now in irX) returned the "
               "ProxyBlock of module mB in irA (is pA: %s, is pB: %s)"
               % (dA[0] is pA, dA[0] is pB))
if bad:
    print("\n".join(bad)); sys.exit(1)
sys.exit(0)
