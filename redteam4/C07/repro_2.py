# C07: Serialization.decode on a stream consumes the whole stream, not just the
# bytes the encoder produced for the value.
import sys, io
sys.path.insert(0, "/tmp/mutkit")
import gtirb_from_repo
gtirb = gtirb_from_repo.load()
S = gtirb.AuxData.serializer
out = io.BytesIO()
S.encode(out, 5, "int8_t"); produced = out.tell()
S.encode(out, "abc", "string")
out.seek(0)
first = S.decode(out, "int8_t"); consumed = out.tell()
second = S.decode(out, "string")
if consumed != produced or second != "abc":
    print("encoder produced %d byte(s) for the int8_t, decoder consumed %d; "
          "the following string decoded as %r instead of 'abc' (first=%r)"
          % (produced, consumed, second, first))
    sys.exit(1)
sys.exit(0)
