# C07: a Python float that rounds to +-inf in float32 cannot be written as 'float'.
import sys, io, math
sys.path.insert(0, "/tmp/mutkit")
import gtirb_from_repo
gtirb = gtirb_from_repo.load()
S = gtirb.AuxData.serializer
bad = []
for v in (2.0**128 - 2.0**103, 1e39, -1e39, 1.7976931348623157e308):
    for tn, val, get in (("float", v, lambda d: d), ("sequence<float>", [1.0, v], lambda d: d[1])):
        try:
            out = io.BytesIO(); S.encode(out, val, tn)
            d = get(S.decode(out.getvalue(), tn))
            if d != math.copysign(math.inf, v):
                bad.append("%s %r decoded as %r" % (tn, v, d))
        except Exception as ex:
            bad.append("%s %r: %s: %s" % (tn, v, type(ex).__name__, ex))
if bad:
    print("\n".join(bad)); print("expected: round-to-nearest float32, i.e. +-inf"); sys.exit(1)
sys.exit(0)
