"""Single structural faults injected into a valid message (sx shape of content.msg_to_sx), for C09 and C17.
Each fault: (signature, mutated message, exception class the property prescribes or None when only coherence is required)."""
import copy

from content import ub


def nodes_of(msg):
    """uuid (as tuple of bytes) -> kind for every node the message defines"""
    out = {tuple(msg[0]): "IR"}
    for m in msg[1]:
        out[tuple(m[0])] = "Module"
        for y in m[7]:
            out[tuple(y[0])] = "Symbol"
        for p in m[8]:
            out[tuple(p)] = "ProxyBlock"
        for s in m[9]:
            out[tuple(s[0])] = "Section"
            for b in s[2]:
                out[tuple(b[0])] = "ByteInterval"
                for blk in b[1]:
                    if blk[1]:
                        out[tuple(blk[1][1])] = "CodeBlock" if blk[1][0] == 0 else "DataBlock"
    return out


def ref_sites(msg):
    """every reference in the message: (kind of reference, path to the byte list, admissible target kinds)"""
    sites = []
    for mi, m in enumerate(msg[1]):
        if m[11]:
            sites.append(("entry_point", (1, mi, 11), {"CodeBlock"}))
        for yi, y in enumerate(m[7]):
            if y[1] and y[1][0] == 1:
                sites.append(("referent", (1, mi, 7, yi, 1, 1), {"CodeBlock", "DataBlock", "ProxyBlock"}))
        for si, s in enumerate(m[9]):
            for bi, b in enumerate(s[2]):
                for xi, x in enumerate(b[2]):
                    v = x[1]
                    if v and v[0] == 0:
                        sites.append(("expr-symbol", (1, mi, 9, si, 2, bi, 2, xi, 1, 2), {"Symbol"}))
                    elif v:
                        sites.append(("expr-symbol1", (1, mi, 9, si, 2, bi, 2, xi, 1, 3), {"Symbol"}))
                        sites.append(("expr-symbol2", (1, mi, 9, si, 2, bi, 2, xi, 1, 4), {"Symbol"}))
    for ei, e in enumerate(msg[5]):
        sites.append(("edge-source", (5, ei, 0), {"CodeBlock", "ProxyBlock"}))
        sites.append(("edge-target", (5, ei, 1), {"CodeBlock", "ProxyBlock"}))
    return sites


def uuid_sites(msg):
    """paths of every node-defining uuid field"""
    out = [("IR", (0,))]
    for mi, m in enumerate(msg[1]):
        out.append(("Module", (1, mi, 0)))
        for yi, _ in enumerate(m[7]):
            out.append(("Symbol", (1, mi, 7, yi, 0)))
        for pi, _ in enumerate(m[8]):
            out.append(("ProxyBlock", (1, mi, 8, pi)))
        for si, s in enumerate(m[9]):
            out.append(("Section", (1, mi, 9, si, 0)))
            for bi, b in enumerate(s[2]):
                out.append(("ByteInterval", (1, mi, 9, si, 2, bi, 0)))
                for ki, blk in enumerate(b[1]):
                    if blk[1]:
                        out.append(("CodeBlock" if blk[1][0] == 0 else "DataBlock", (1, mi, 9, si, 2, bi, 1, ki, 1, 1)))
    return out


def get(msg, path):
    x = msg
    for p in path:
        x = x[p]
    return x


def put(msg, path, v):
    m = copy.deepcopy(msg)
    x = m
    for p in path[:-1]:
        x = x[p]
    x[path[-1]] = v
    return m


def reference_faults(msg, rng):
    """C09: one reference made dangling or ill-typed -> DeserializationError"""
    kinds = nodes_of(msg)
    by_kind = {}
    for u, k in kinds.items():
        by_kind.setdefault(k, []).append(list(u))
    out = []
    for name, path, ok in ref_sites(msg):
        missing = ub(rng.getrandbits(128))
        while tuple(missing) in kinds:
            missing = ub(rng.getrandbits(128))
        out.append(("dangling:" + name, put(msg, path, missing), "DeserializationError"))
        if tuple(ub(0)) not in kinds:
            out.append(("dangling-nil:" + name, put(msg, path, ub(0)), "DeserializationError"))
        wrong = [k for k in by_kind if k not in ok]
        if wrong:
            k = rng.choice(sorted(wrong))
            bad = rng.choice(by_kind[k])
            out.append(("illtyped:%s->%s" % (name, k), put(msg, path, bad), "DeserializationError"))
            if name.startswith("edge-"):
                # ... and the same with the UUID also listed among the CFG vertices (a reader that trusts the redundant list)
                out.append(("illtyped-listed-vertex:%s->%s" % (name, k), put(put(msg, path, bad), (4,), list(msg[4]) + [bad]), "DeserializationError"))
                out.append(("dangling-listed-vertex:" + name, put(put(msg, path, missing), (4,), [missing] + list(msg[4])), "DeserializationError"))
        for n in (0, 15, 17):
            if n == 0 and name == "entry_point":
                continue            # empty entry_point means "no entry point"
            out.append(("reflen%d:%s" % (n, name), put(msg, path, list(range(n))), "ValueError"))
    return out


def structural_faults(msg, rng, enums):
    """C17: every other single structural fault class at every applicable site"""
    out = []
    big = {k: max(v) + rng.choice([1, 7, 1000]) for k, v in enums.items()}
    for kind, path in uuid_sites(msg):
        for n in (0, 15, 17):
            out.append(("uuidlen%d:%s" % (n, kind), put(msg, path, list(range(n))), "ValueError"))
    for mi, m in enumerate(msg[1]):
        out.append(("enum:isa", put(msg, (1, mi, 5), big["ISA"]), "ValueError"))
        out.append(("enum:file_format", put(msg, (1, mi, 4), big["FileFormat"]), "ValueError"))
        out.append(("enum:byte_order", put(msg, (1, mi, 12), big["ByteOrder"]), "ValueError"))
        for si, s in enumerate(m[9]):
            out.append(("enum:section_flag", put(msg, (1, mi, 9, si, 3), s[3] + [big["SectionFlag"]]), "ValueError"))
            for bi, b in enumerate(s[2]):
                out.append(("bytes>size", put(put(msg, (1, mi, 9, si, 2, bi, 6), [1, 2, 3]), (1, mi, 9, si, 2, bi, 5), 2), "ValueError"))
                for ki, blk in enumerate(b[1]):
                    out.append(("block-no-payload", put(msg, (1, mi, 9, si, 2, bi, 1, ki, 1), []), "TypeError"))
                    if blk[1] and blk[1][0] == 0:
                        out.append(("enum:decode_mode", put(msg, (1, mi, 9, si, 2, bi, 1, ki, 1, 3), big["DecodeMode"]), "ValueError"))
                for xi, x in enumerate(b[2]):
                    out.append(("expr-no-value", put(msg, (1, mi, 9, si, 2, bi, 2, xi, 1), []), "TypeError"))
    for ei, e in enumerate(msg[5]):
        if e[2]:
            out.append(("enum:edge_type", put(msg, (5, ei, 2, 2), big["EdgeType"]), "ValueError"))
    for v in (0, 3, 5, 255, (1 << 32) - 1):
        if v != msg[3]:
            out.append(("version-field=%d" % v, put(msg, (3,), v), "ValueError"))
    # the same UUID on two nodes (same or different kinds): a node is defined once -> DeserializationError
    sites = uuid_sites(msg)
    if len(sites) >= 2:
        for _ in range(4):
            (k1, p1), (k2, p2) = rng.sample(sites, 2)
            if p1 == (0,) or k1 == "IR":
                continue
            out.append(("dup-uuid:%s=%s" % (k1, k2), put(msg, p1, get(msg, p2)), "DeserializationError"))
        # the same UUID on two SIBLINGS (two blocks of one interval, two intervals of one section, two sections / symbols / proxies
        # of one module, two modules): decoded back to back inside one bulk operation
        sib = []
        for a in range(len(sites)):
            for b in range(a + 1, len(sites)):
                (k1, p1), (k2, p2) = sites[a], sites[b]
                if len(p1) == len(p2) and sum(1 for x, y in zip(p1, p2) if x != y) == 1 and k1 != "IR":
                    same_coll = all(x == y for x, y in zip(p1[:-3], p2[:-3])) if len(p1) > 3 else True
                    if same_coll:
                        sib.append((k1, p1, k2, p2))
        rng.shuffle(sib)
        blocks_first = sorted(sib, key=lambda t: 0 if "Block" in t[0] and "Block" in t[2] else 1)
        for (k1, p1, k2, p2) in blocks_first[:6]:
            out.append(("dup-sibling:%s=%s" % (k2, k1), put(msg, p2, get(msg, p1)), "DeserializationError"))
        # one UUID on THREE nodes (a same-class pair plus a third of any class, in decode order)
        if len(sites) >= 3:
            for _ in range(3):
                (k1, p1), (k2, p2), (k3, p3) = rng.sample(sites, 3)
                if "IR" in (k1, k2):
                    continue
                m2 = put(put(msg, p1, get(msg, p3)), p2, get(msg, p3))
                out.append(("triple-uuid:%s=%s=%s" % (k1, k2, k3), m2, "DeserializationError"))
    # a node carrying the UUID of one of its own ancestors (decode order matters: the ancestor must already be registered)
    for kind, path in sites:
        if kind == "IR":
            continue
        anc = []
        for k2, p2 in sites:
            if p2 != path and len(p2) < len(path) and tuple(path[:len(p2) - 1]) == tuple(p2[:-1]) and p2[-1] == 0:
                anc.append((k2, p2))
        anc.append(("IR", (0,)))
        for k2, p2 in anc:
            out.append(("dup-ancestor:%s=%s" % (kind, k2), put(msg, path, get(msg, p2)), "DeserializationError"))
    return out
