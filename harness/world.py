"""Operation language over the gtirb object graph: executor on the real objects, encoder to
the model's wire items (coq/Model/WorldRun.v), history generator, direct oracles for the
structural properties (C03, C04, C05, C06, C10, C12, C13, C16)."""
import uuid as uuidlib

from common import ERR_CODES, ImplTimeout, exc_name, time_limit

CODE_OF_ERR = {v: k for k, v in ERR_CODES.items()}
KINDS = ["IR", "Module", "Section", "ByteInterval", "CodeBlock", "DataBlock", "ProxyBlock", "Symbol"]
K = {n: i for i, n in enumerate(KINDS)}
SETM = ["add", "discard", "remove", "pop", "clear", "update", "ior", "iand", "isub", "ixor"]
# owner kind -> {field name: kinds of members}
FIELDS = {
    "Module": {"sections": ["Section"], "symbols": ["Symbol"], "proxies": ["ProxyBlock"]},
    "Section": {"byte_intervals": ["ByteInterval"]},
    "ByteInterval": {"blocks": ["CodeBlock", "DataBlock"]},
}
PARENT_ATTR = {"Module": "ir", "Section": "module", "Symbol": "module", "ProxyBlock": "module",
               "ByteInterval": "section", "CodeBlock": "byte_interval", "DataBlock": "byte_interval"}
PARENT_KIND = {"Module": "IR", "Section": "Module", "Symbol": "Module", "ProxyBlock": "Module",
               "ByteInterval": "Section", "CodeBlock": "ByteInterval", "DataBlock": "ByteInterval"}
FIELD_OF_CHILD = {"Section": "sections", "Symbol": "symbols", "ProxyBlock": "proxies", "ByteInterval": "byte_intervals",
                  "CodeBlock": "blocks", "DataBlock": "blocks", "Module": "modules"}
QUERY_M = {"blocks_on": 0, "blocks_at": 1, "blocks_on_offset": 2, "blocks_at_offset": 3, "byte_intervals_on": 4,
           "byte_intervals_at": 5, "sections_on": 6, "sections_at": 7, "symbolic_expressions_at": 8,
           "symbolic_expressions_at_offset": 9, "extent": 10}


def opt(x):
    return [] if x is None else [x]


_FALSY = {}


def _zero_len(self):
    return 0


def _false_bool(self):
    return False


class W:
    """The implementation side: real gtirb objects addressed by small numbers."""

    def __init__(self, g):
        self.g = g
        self.obj = {}          # num -> object
        self.kind = {}         # num -> kind name
        self.num = {}          # id(object) -> num
        self.exprs = {}        # expr num -> SymbolicExpression
        self.expr_num = {}
        self.names = {}        # name num -> str

    # ---- helpers
    def n(self, o):
        return self.num[id(o)]

    def name(self, k):
        if k not in self.names:
            self.names[k] = ["", "a", "main", "é", "shared", "x" * 40][k % 6] if k < 6 else "n%d" % k
        return self.names[k]

    def expr(self, k):
        if k not in self.exprs:
            sym = next((o for n, o in self.obj.items() if self.kind[n] == "Symbol"), None)
            if sym is None:
                sym = self.g.Symbol("exprsym")
            # (both expression classes take part: even numbers are sym-minus-sym expressions)
            e = self.g.SymAddrConst(k, sym) if k % 2 else self.g.SymAddrAddr(1, k, sym, sym)
            self.exprs[k] = e
            self.expr_num[id(e)] = k
        return self.exprs[k]

    def _hold_only_the_blocks(self):
        """LIFETIME, from below: the harness keeps only the code and data blocks (and whatever is not connected to any block's
        tree), forgets every other object of those trees -- intervals, sections, modules, IRs, their symbols and proxies, and its own
        expression objects --, collects garbage, and finds everything again by walking up from the blocks through the parent
        attributes and down again through the collections: a child keeps its ancestors alive, and they are the same objects."""
        import gc
        g = self.g
        blocks = [n for n, k in self.kind.items() if k in ("CodeBlock", "DataBlock") and n in self.obj]

        def up(o):
            chain = [o]
            while True:
                k = "IR" if isinstance(chain[-1], g.IR) else next((kk for kk, cls in (("Module", g.Module), ("Section", g.Section), ("ByteInterval", g.ByteInterval),
                                                                                          ("Symbol", g.Symbol), ("ProxyBlock", g.ProxyBlock)) if isinstance(chain[-1], cls)), "CodeBlock")
                if k == "IR":
                    return chain
                p = getattr(chain[-1], PARENT_ATTR[k])
                if p is None:
                    return chain
                chain.append(p)

        def down(o, out):
            if id(o) in out:
                return
            out[id(o)] = o
            if isinstance(o, g.IR):
                kids = list(o.modules)
            elif isinstance(o, g.Module):
                kids = list(o.sections) + list(o.symbols) + list(o.proxies)
            elif isinstance(o, g.Section):
                kids = list(o.byte_intervals)
            elif isinstance(o, g.ByteInterval):
                kids = list(o.blocks)
            else:
                kids = []
            for c in kids:
                down(c, out)

        def trees():
            out = {}
            for n in blocks:
                down(up(self.obj[n])[-1], out)
            return out
        inside = trees()
        forget = [n for n, o in self.obj.items() if id(o) in inside and self.kind[n] not in ("CodeBlock", "DataBlock")]
        if not forget:
            return [0]
        old = {n: (id(self.obj[n]), type(self.obj[n]), self.obj[n].uuid) for n in forget}
        stored = {(n, k): self.expr_num[id(e)] for n, o in self.obj.items() if self.kind[n] == "ByteInterval"
                  for k, e in o.symbolic_expressions.items() if id(e) in self.expr_num}
        for n in forget:
            del self.num[id(self.obj[n])]
            del self.obj[n]
        self.exprs, self.expr_num = {}, {}
        inside = o = None
        gc.collect()
        found = trees()
        lost = []
        for n in forget:
            oid, cls, uu = old[n]
            o = found.get(oid)
            if o is None or type(o) is not cls or o.uuid != uu:
                lost.append(n)
            else:
                self.obj[n] = o
                self.num[oid] = n
        for (n, k), num in stored.items():
            if n in self.obj and k in self.obj[n].symbolic_expressions:
                self.expr_num[id(self.obj[n].symbolic_expressions[k])] = num
        self.forms = getattr(self, "forms", {})
        self.forms["only-the-blocks-held"] = self.forms.get("only-the-blocks-held", 0) + 1
        if lost:
            # (put SOMETHING back under the lost numbers, so that the rest of the history can be executed and reported)
            for n in lost:
                self.obj[n] = getattr(g, self.kind[n])() if self.kind[n] in ("IR", "ProxyBlock") else (
                    g.Symbol("lost") if self.kind[n] == "Symbol" else getattr(g, self.kind[n])(name="lost") if self.kind[n] in ("Module", "Section") else g.ByteInterval())
                self.num[id(self.obj[n])] = n
            raise AssertionError("with only the blocks held by the caller, garbage collection lost %d of their ancestors / siblings (%s): a child does not keep them alive"
                                 % (len(lost), ", ".join(sorted({self.kind[n] for n in lost}))))
        return [0]

    def parent_of(self, o, kind):
        return getattr(o, PARENT_ATTR[kind])

    def payload_py(self, p):
        if p == []:
            return None
        if p[0] == 0:
            return p[1]
        return self.obj[p[1]]

    def q(self, a, b, st):
        return a if (st == 1 and b == a + 1 and (a % 2 == 0)) else range(a, b, st)

    # ---- execution of one item; returns the reply in the model's shape
    def run(self, it, limit=10.0):
        g = self.g
        if it and it[0] == 49:
            limit = 600.0          # copies of / garbage collections in a large process take their time; an interrupted one would lose the executor's own references
        try:
            with time_limit(limit):
                return self._run(it)
        except ImplTimeout:
            return [-1, 1000]
        except RecursionError:
            return [-1, 1001]
        except Exception as e:  # noqa: BLE001
            return [-1, CODE_OF_ERR.get(exc_name(g, e), 999)]

    def _form(self, objs, allow_set=False):
        """The iterable handed to a bulk operation: the API accepts any iterable, so lists, tuples, one-shot generators and
        iterators (and sets where multiplicity is irrelevant) take turns, deterministically per executor."""
        self._nform = getattr(self, "_nform", 0) + 1
        k = (self._nform * 7 + len(objs)) % (6 if allow_set else 5)
        self.forms = getattr(self, "forms", {})
        objs = list(objs)
        if objs and self._nform % 2 == 0:
            # the elements are exactly what ANOTHER owner's collection holds (in its order, for a module list): hand over that live
            # collection itself -- "move everything from there to here" -- which the operation empties while it walks it
            live = self._live_collection(objs)
            if live is not None:
                self.forms["live-collection"] = self.forms.get("live-collection", 0) + 1
                return live
        name = ["list", "gen", "tuple", "iter", "list", "set"][k]
        self.forms[name] = self.forms.get(name, 0) + 1
        objs = list(objs)
        return (objs if name == "list" else (x for x in objs) if name == "gen" else tuple(objs) if name == "tuple"
                else iter(objs) if name == "iter" else set(objs))

    def _live_collection(self, objs):
        ids = [id(x) for x in objs]
        if len(set(ids)) != len(ids):
            return None
        for n, o in self.obj.items():
            kind = self.kind[n]
            if kind == "IR":
                if [id(x) for x in o.modules] == ids:
                    return o.modules
                continue
            for f in FIELDS.get(kind, {}):
                coll = getattr(o, f, None)
                try:
                    if coll is not None and len(coll) == len(ids) and set(map(id, coll)) == set(ids):
                        return coll
                except Exception:  # noqa: BLE001
                    pass
        return None

    def _run(self, it):
        g, c = self.g, it[0]
        O = self.obj
        if c == 1:
            _, n, k, u, a, sz, off, nm, p = it
            kind = KINDS[k]
            uu = uuidlib.UUID(int=u)
            # every third node is an instance of a USER SUBCLASS of the API class -- one that, like many container-ish classes,
            # defines its truth value (__len__ / __bool__) and is falsy: a node is a node whatever `bool(node)` says
            def C(base):
                if n % 3 != 2:
                    return base
                key = (id(g), base.__name__)
                if key not in _FALSY:
                    cls = type("Falsy" + base.__name__, (base,), {"__len__": _zero_len} if len(_FALSY) % 2 else {"__bool__": _false_bool})
                    # (importable by name, so that instances can be pickled)
                    nm = cls.__name__ if cls.__name__ not in globals() else "%s_%d" % (cls.__name__, len(_FALSY))
                    cls.__name__ = cls.__qualname__ = nm
                    cls.__module__ = __name__
                    globals()[nm] = cls
                    _FALSY[key] = cls
                return _FALSY[key]
            if kind == "IR":
                o = C(g.IR)(uuid=uu)
            elif kind == "Module":
                o = C(g.Module)(name="m%d" % n, uuid=uu)
            elif kind == "Section":
                o = C(g.Section)(name="s%d" % n, uuid=uu)
            elif kind == "ByteInterval":
                o = C(g.ByteInterval)(address=(a[0] if a else None), size=sz, uuid=uu)
            elif kind == "CodeBlock":
                o = C(g.CodeBlock)(size=sz, offset=off, uuid=uu)
            elif kind == "DataBlock":
                o = C(g.DataBlock)(size=sz, offset=off, uuid=uu)
            elif kind == "ProxyBlock":
                o = C(g.ProxyBlock)(uuid=uu)
            else:
                o = C(g.Symbol)(self.name(nm), uuid=uu, payload=self.payload_py(p))
            self.adopt(n, kind, o)
            return [0]
        if c == 53:
            # an attribute assignment that was refused when the history was generated: attempted again, refused again
            try:
                self._run(it[1:])
            except Exception:  # noqa: BLE001
                return [0]
            return [-1, 997]
        if c == 51:
            # a child constructed WITH its parent: Module(ir=..), Section(module=..), ByteInterval(section=..), CodeBlock(byte_interval=..),
            # ProxyBlock(module=..), Symbol(module=..) -- another route to `new` + `child.parent = p`
            _, n, k, u, a, sz, off, nm, p, par = it
            kind = KINDS[k]
            uu = uuidlib.UUID(int=u)
            P = O[par]
            if kind == "Module":
                o = g.Module(name="m%d" % n, uuid=uu, ir=P)
            elif kind == "Section":
                o = g.Section(name="s%d" % n, uuid=uu, module=P)
            elif kind == "ByteInterval":
                o = g.ByteInterval(address=(a[0] if a else None), size=sz, uuid=uu, section=P)
            elif kind == "CodeBlock":
                o = g.CodeBlock(size=sz, offset=off, uuid=uu, byte_interval=P)
            elif kind == "DataBlock":
                o = g.DataBlock(size=sz, offset=off, uuid=uu, byte_interval=P)
            elif kind == "ProxyBlock":
                o = g.ProxyBlock(uuid=uu, module=P)
            else:
                o = g.Symbol(self.name(nm), uuid=uu, payload=self.payload_py(p), module=P)
            self.adopt(n, kind, o)
            return [0]
        if c == 50:
            # a parent constructed WITH its children: IR(modules=[..]), Module(sections=.., symbols=.., proxies=..),
            # Section(byte_intervals=[..]), ByteInterval(blocks=[..])
            _, n, k, u, kids = it
            kind = KINDS[k]
            uu = uuidlib.UUID(int=u)
            objs = [O[x] for x in kids]
            F = self._form
            if kind == "IR":
                o = g.IR(uuid=uu, modules=F(objs))
            elif kind == "Module":
                o = g.Module(name="m%d" % n, uuid=uu,
                             sections=F([x for x in objs if isinstance(x, g.Section)]), symbols=F([x for x in objs if isinstance(x, g.Symbol)]),
                             proxies=F([x for x in objs if isinstance(x, g.ProxyBlock)]))
            elif kind == "Section":
                o = g.Section(name="s%d" % n, uuid=uu, byte_intervals=F(objs))
            else:
                o = g.ByteInterval(size=8, uuid=uu, blocks=F(objs))
            self.adopt(n, kind, o)
            return [0]
        if c == 2:
            _, ch, p = it
            setattr(O[ch], PARENT_ATTR[self.kind[ch]], O[p[0]] if p else None)
            return [0]
        if c == 3:
            _, p, fk, m, args = it
            coll = self.coll(p, fk)
            meth = SETM[m]
            lists = [[O[x] for x in a] for a in args]
            if meth in ("add", "discard", "remove"):
                getattr(coll, meth)(lists[0][0])
            elif meth == "pop":
                coll.pop()         # the caller records the chosen element through pop_choice()
            elif meth == "clear":
                coll.clear()
            elif meth == "update":
                coll.update(*[self._form(l) for l in lists])
            elif meth == "ior":
                coll |= self._form(lists[0], allow_set=True)
            elif meth == "iand":
                coll &= self._form(lists[0], allow_set=True)
            elif meth == "isub":
                coll -= self._form(lists[0], allow_set=True)
            elif meth == "ixor":
                coll ^= self._form(lists[0], allow_set=len(lists[0]) == len(set(map(id, lists[0]))))
            if meth in ("ior", "iand", "isub", "ixor") and self._nform % 2:
                # `owner.field OP= x` written against the attribute also assigns the result back to it
                o, kind = self.obj[p], self.kind[p]
                for fname, kinds in FIELDS[kind].items():
                    if K[kinds[0]] in fk:
                        setattr(o, fname, coll)
                        if getattr(o, fname) is not coll:
                            raise AssertionError("in-place operator through the attribute rebound the collection")
            return [0]
        if 4 <= c <= 13:
            ir = O[it[1]]
            ml = ir.modules
            if c == 4:
                ml.append(O[it[2]])
            elif c == 5:
                ml.insert(it[2], O[it[3]])
            elif c == 6:
                if it[-1] == "iadd":
                    ir.modules += self._form([O[x] for x in it[2]])          # through the attribute: the result is assigned back
                    if ir.modules is not ml:
                        raise AssertionError("+= through the attribute rebound ir.modules")
                else:
                    ml.extend(self._form([O[x] for x in it[2]]))
            elif c == 7:
                ml.remove(O[it[2]])
            elif c == 8:
                ml.pop(it[2])
            elif c == 9:
                del ml[it[2]]
            elif c == 10:
                del ml[slice(it[2][0] if it[2] else None, it[3][0] if it[3] else None)]
            elif c == 11:
                ml[it[2]] = O[it[3]]
            elif c == 12:
                ml[slice(it[2][0] if it[2] else None, it[3][0] if it[3] else None)] = self._form([O[x] for x in it[4]])
            elif c == 13:
                ml.clear()
            return [0]
        if c == 49:
            # the WORLD IS REPLACED BY A COPY OF ITSELF: every object the executor knows (expressions included, sharing preserved) is
            # copied by copy.deepcopy (it[1] == 0) or a pickle round trip, the originals are dropped and the history continues on the
            # copies.  For the model this is no operation at all: a copy of a state is that state.
            import copy
            import pickle
            self.forms = getattr(self, "forms", {})
            if it[1] == 9:
                # LIFETIME instead of copying: the harness forgets every IR that has a module (the last reference from outside the
                # object graph), collects garbage, and finds the IR again through its first module -- a parent stays alive as long
                # as a child names it, and it is the same object
                import gc
                for n in [n for n, k in self.kind.items() if k == "IR" and n in self.obj and len(self.obj[n].modules)]:
                    first = self.obj[n].modules[0]
                    was = id(self.obj[n])
                    del self.num[was]
                    del self.obj[n]
                    gc.collect()
                    again = first.ir
                    if again is None or id(again) != was:
                        self.obj[n] = again if again is not None else self.g.IR()
                        self.num[id(self.obj[n])] = n
                        raise AssertionError("an IR reached again through its first module after the last outside reference was dropped is %s"
                                             % ("gone (module.ir is None)" if again is None else "another object"))
                    self.obj[n] = again
                    self.num[was] = n
                self.forms["irs-forgotten-and-found-again"] = self.forms.get("irs-forgotten-and-found-again", 0) + 1
                return [0]
            if it[1] == 8:
                return self._hold_only_the_blocks()
            how = "deepcopy" if it[1] == 0 else "pickle"
            # (expression objects the harness numbered without keeping them in `exprs` -- equal-but-distinct clones stored by a check
            # -- are found through the intervals that hold them)
            stored = [(e, self.expr_num[id(e)]) for o in self.obj.values() if isinstance(o, self.g.ByteInterval)
                      for e in o.symbolic_expressions.values() if id(e) in self.expr_num]
            bundle = (self.obj, self.exprs, stored)
            try:
                objs2, exprs2, stored2 = copy.deepcopy(bundle) if how == "deepcopy" else pickle.loads(pickle.dumps(bundle, protocol=it[1]))
            except Exception:  # noqa: BLE001
                self.forms["world-copy-unsupported:" + how] = self.forms.get("world-copy-unsupported:" + how, 0) + 1
                return [0]
            self.obj, self.exprs = objs2, exprs2
            self.num = {id(o): n for n, o in objs2.items()}
            self.expr_num = {id(e): k for k, e in exprs2.items()}
            self.expr_num.update({id(e): k for e, k in stored2})
            self.forms["world-continued-on-a-copy:" + how] = self.forms.get("world-continued-on-a-copy:" + how, 0) + 1
            return [0]
        if c == 33:
            del O[it[1]].modules[slice(it[2][0] if it[2] else None, it[3][0] if it[3] else None, it[4])]
            return [0]
        if c == 32:
            # an EXTENDED slice (step other than 1): ir.modules[a:b:c] = values
            O[it[1]].modules[slice(it[2][0] if it[2] else None, it[3][0] if it[3] else None, it[4])] = self._form([O[x] for x in it[5]])
            return [0]
        if c == 14:
            O[it[1]].address = it[2][0] if it[2] else None
            return [0]
        if c == 15:
            O[it[1]].size = it[2]
            return [0]
        if c == 16:
            O[it[1]].offset = it[2]
            return [0]
        if c == 29:
            O[it[1]].initialized_size = it[2]
            return [0]
        if c == 17:
            O[it[1]].name = self.name(it[2])
            return [0]
        if c == 18:
            p = it[2]
            s = O[it[1]]
            if p == []:
                # alternate between the two public spellings
                if it[1] % 2:
                    s.value = None
                else:
                    s.referent = None
            elif p[0] == 0:
                s.value = p[1]
            else:
                s.referent = O[p[1]]
            return [0]
        if 19 <= c <= 26:
            bi = O[it[1]]
            d = bi.symbolic_expressions
            if c == 19:
                d[it[2]] = self.expr(it[3])
            elif c == 20:
                del d[it[2]]
            elif c == 21:
                d.pop(it[2])
            elif c == 22:
                d.popitem()
            elif c == 23:
                d.setdefault(it[2], self.expr(it[3]))
            elif c == 24:
                d.update({k: self.expr(e) for k, e in it[2]})
            elif c == 25:
                d.clear()
            elif c == 26:
                want = {k: self.expr(e) for k, e in it[2]}
                # the value is exactly what an interval's mapping holds now (this interval's own, or another one's): hand over
                # that live mapping itself (`bi.symbolic_expressions = other.symbolic_expressions`, `x = x`)
                live = None
                if want:
                    for n2, o2 in self.obj.items():
                        if self.kind[n2] == "ByteInterval":
                            cur = o2.symbolic_expressions
                            if len(cur) == len(want) and all(k in want and want[k] is v for k, v in cur.items()):
                                live = cur
                                if o2 is bi:
                                    break
                self.forms = getattr(self, "forms", {})
                if live is not None:
                    nm = "live-mapping:" + ("own" if live is bi.symbolic_expressions else "another interval's")
                    self.forms[nm] = self.forms.get(nm, 0) + 1
                    bi.symbolic_expressions = live
                else:
                    bi.symbolic_expressions = want
            return [0]
        if c == 28:
            O[it[1]].modules.reverse()
            return [0]
        if c == 27:
            o = O[it[1]]
            if self.kind[it[1]] == "ByteInterval":
                list(o.byte_blocks_at_offset(0))
            else:
                o.address
            return [0]
        if c == 40:
            _, scope, m, kf, a, b, st = it
            o = O[scope]
            qq = self.q(a, b, st)
            pre = ["byte", "code", "data"][kf]
            if m in (0, 1, 2, 3):
                name = pre + "_" + ["blocks_on", "blocks_at", "blocks_on_offset", "blocks_at_offset"][m]
                return [0, sorted(self.n(x) for x in getattr(o, name)(qq))]
            if m in (4, 5, 6, 7):
                name = ["byte_intervals_on", "byte_intervals_at", "sections_on", "sections_at"][m - 4]
                return [0, sorted(self.n(x) for x in getattr(o, name)(qq))]
            if m in (8, 9):
                name = ["symbolic_expressions_at", "symbolic_expressions_at_offset"][m - 8]
                res = list(getattr(o, name)(qq))
                self.last_symx_order = [(self.n(t[0]), t[1]) for t in res]
                return [0, sorted([self.n(t[0]), t[1], self.expr_num[id(t[2])]] for t in res)]
            if m == 10:
                ad, sz = o.address, o.size
                return [0, [] if ad is None or sz is None else [ad, sz]]
        if c == 41:
            return [0, sorted(self.n(x) for x in O[it[1]].symbols_named(self.name(it[2])))]
        if c == 42:
            return [0, sorted(self.n(x) for x in O[it[1]].references)]
        if c == 43:
            r = O[it[1]].get_by_uuid(uuidlib.UUID(int=it[2]))
            return [0, [] if r is None else [self.num.get(id(r), -7)]]
        if c == 44:
            out = []
            for n in it[1]:
                o, kind = O[n], self.kind[n]
                p = None if kind == "IR" else self.parent_of(o, kind)
                out.append([n, opt(None if p is None else self.num.get(id(p), -7)), self.kids(n)])
            return [0, out]
        if c == 48:
            o, kind = O[it[1]], self.kind[it[1]]
            names = {"Section": ["byte_intervals", "byte_blocks", "code_blocks", "data_blocks"],
                     "Module": ["byte_intervals", "byte_blocks", "code_blocks", "data_blocks", "cfg_nodes"],
                     "IR": ["byte_intervals", "byte_blocks", "code_blocks", "data_blocks", "cfg_nodes", "sections", "symbols", "proxy_blocks"]}[kind]
            got = [self.num.get(id(x), -7) for x in getattr(o, names[it[2]])]
            return [0, sorted(got)]
        if c == 46:
            return [0, [[k, self.expr_num[id(e)]] for k, e in O[it[1]].symbolic_expressions.items()]]
        if c == 47:
            out = []
            for n in it[1]:
                o, kind = O[n], self.kind[n]
                ir = None if kind == "IR" else o.ir
                mod = None if kind in ("IR", "Module") else o.module
                sec = o.section if kind in ("ByteInterval", "CodeBlock", "DataBlock") else None
                out.append([n] + [opt(None if x is None else self.num.get(id(x), -7)) for x in (ir, mod, sec)])
            return [0, out]
        raise AssertionError("unknown item %r" % (it,))

    def adopt(self, n, kind, o):
        self.obj[n] = o
        self.kind[n] = kind
        self.num[id(o)] = n

    def coll(self, p, fk):
        o, kind = self.obj[p], self.kind[p]
        for fname, kinds in FIELDS[kind].items():
            if K[kinds[0]] in fk:
                return getattr(o, fname)
        raise AssertionError

    def kids(self, n):
        o, kind = self.obj[n], self.kind[n]
        if kind == "IR":
            return [self.num.get(id(x), -7) for x in o.modules]
        out = []
        for fname in FIELDS.get(kind, {}):
            out += [self.num.get(id(x), -7) for x in getattr(o, fname)]
        return sorted(out)


def canon_reply(it, rep):
    """make a model reply comparable with the implementation's (sort set-valued parts)"""
    if not isinstance(rep, list) or not rep or rep[0] != 0:
        return rep
    c = it[0]
    if c == 40:
        if it[2] == 10:
            return rep
        return [0, sorted(rep[1])]
    if c in (41, 42):
        return [0, sorted(rep[1])]
    if c == 44:
        return [0, [[n, p, (k if kind_is_ir else sorted(k))] for (n, p, k), kind_is_ir in zip(rep[1], it[2])]] if len(it) > 2 else rep
    return rep


# ------------------------------------------------------------------------------------------
# direct oracles on the real objects (independent of the model)

def reach(g, ir):
    """nodes reachable from ir through the public containment attributes"""
    out = [ir]
    for m in ir.modules:
        out.append(m)
        for p in m.proxies:
            out.append(p)
        for y in m.symbols:
            out.append(y)
        for s in m.sections:
            out.append(s)
            for bi in s.byte_intervals:
                out.append(bi)
                for b in bi.blocks:
                    out.append(b)
    return out


def twin_swaps(g, ir, cp, rng, report, cache=True):
    """`ir` and `cp` hold nodes with equal UUIDs (two loads of one file, an IR and its deep copy).  In each of the five owning sets of
    `ir`, a member is exchanged for its equal-UUID twin of `cp` by ONE in-place operator, `coll ^= {member, twin}` -- before and after
    the call the nodes attached to `ir` have pairwise distinct UUIDs -- with the two possible iteration orders of the argument (a dict
    keys view keeps its order, a set hashes), then the twin is detached through its parent attribute and the member put back.  After
    every step both IRs must answer get_by_uuid exactly for what they contain and the containment links must agree from both ends.
    report(problem) is called with a description of the first disagreement; returns the number of swaps made."""
    def exact(x, stage):
        if not cache:           # (C04 judges the containment links and the operations' outcomes only)
            return None
        r = reach(g, x)
        mine = {id(y) for y in r}
        for y in r:
            got = x.get_by_uuid(y.uuid)
            if got is not y:
                return "%s: get_by_uuid(uuid of an attached %s) gives %s" % (stage, type(y).__name__, "None" if got is None else
                                                                              ("a node outside this IR" if id(got) not in mine else "another node"))
        return None

    def sites(x):
        for m in x.modules:
            yield "module.sections", m.sections, "module"
            yield "module.proxies", m.proxies, "module"
            yield "module.symbols", m.symbols, "module"
            for sec in m.sections:
                yield "section.byte_intervals", sec.byte_intervals, "section"
                for bi in sec.byte_intervals:
                    yield "byte_interval.blocks", bi.blocks, "byte_interval"
    twins = {}
    for nm, coll, _ in sites(cp):
        for y in coll:
            twins[y.uuid] = y
    n = 0
    for nm, coll, back in list(sites(ir)):
        members = [y for y in coll if y.uuid in twins]
        if not members:
            continue
        own = rng.choice(members)
        twin = twins[own.uuid]
        if getattr(twin, back) is None:
            continue            # (already moved by an earlier swap of an enclosing node)
        owner = getattr(own, back)
        twin_home = getattr(twin, back)
        for order in ("twin-first", "member-first", "plain-set"):
            pair = [twin, own] if order == "twin-first" else [own, twin]
            arg = set(pair) if order == "plain-set" else dict.fromkeys(pair).keys()
            what = "%s ^= {member, its equal-UUID twin of the other IR} (%s)" % (nm, order)
            try:
                coll ^= arg
            except Exception as e:  # noqa: BLE001
                report("%s raised %s" % (what, type(e).__name__))
                return n
            n += 1
            bad = None
            if (twin not in coll) or (own in coll) or getattr(twin, back) is not owner or getattr(own, back) is not None:
                bad = "after %s: the set holds %s, twin.%s is the owner: %s, member.%s is None: %s" % (
                    what, "the twin" if twin in coll else ("the member" if own in coll else "neither"), back, getattr(twin, back) is owner, back, getattr(own, back) is None)
            bad = bad or exact(ir, "after " + what) or exact(cp, "after " + what + ", the other IR")
            if bad:
                report(bad)
                return n
            # and back: detach the twin through its parent attribute, put the member back through its own
            try:
                setattr(twin, back, None)
                setattr(own, back, owner)
            except Exception as e:  # noqa: BLE001
                report("after %s, detaching the twin / re-attaching the member through .%s raised %s" % (what, back, type(e).__name__))
                return n
            bad = exact(ir, "after %s and the move back" % what)
            if bad or (own not in coll) or (twin in coll):
                report(bad or "after %s and the move back the set does not hold the member again" % what)
                return n
            # (the twin goes home, so that the next site finds the copy complete)
            setattr(twin, back, twin_home)
    return n


def copy_world(w, how, protocol=None):
    """The whole world -- every object the executor knows, expressions included, sharing preserved -- copied by copy.deepcopy or
    by a pickle round trip; returns a W over the copies (same node numbers), or None when the library / the objects do not support
    that way of copying (e.g. locally defined classes cannot be pickled)."""
    import copy
    import pickle
    stored = [(e, w.expr_num[id(e)]) for o in w.obj.values() if isinstance(o, w.g.ByteInterval)
              for e in o.symbolic_expressions.values() if id(e) in w.expr_num]
    bundle = (w.obj, w.exprs, stored)
    try:
        if how == "deepcopy":
            objs2, exprs2, stored2 = copy.deepcopy(bundle)
        else:
            objs2, exprs2, stored2 = pickle.loads(pickle.dumps(bundle, protocol=protocol or pickle.HIGHEST_PROTOCOL))
    except Exception:  # noqa: BLE001
        return None
    w2 = W(w.g)
    w2.obj, w2.kind, w2.names = objs2, dict(w.kind), dict(w.names)
    w2.num = {id(o): n for n, o in objs2.items()}
    w2.exprs = exprs2
    w2.expr_num = {id(e): k for k, e in exprs2.items()}
    w2.expr_num.update({id(e): k for e, k in stored2})
    return w2


def oracle_cache(w, uuid_pool):
    """C03: get_by_uuid(u) is n  iff  n reachable from that IR and n.uuid == u.  Returns list of problems."""
    g = w.g
    bad = []
    for n, o in w.obj.items():
        if w.kind[n] != "IR":
            continue
        r = reach(g, o)
        by = {}
        for x in r:
            by.setdefault(x.uuid.int, []).append(x)
        for u in uuid_pool:
            got = o.get_by_uuid(uuidlib.UUID(int=u))
            want = by.get(u, [])
            if len(want) > 1:
                continue                      # premise violated (two attached nodes share a UUID)
            if (want and got is not want[0]) or (not want and got is not None):
                bad.append("ir n%d uuid %x: get_by_uuid gives %s, containment gives %s"
                           % (n, u, _nm(w, got), _nm(w, want[0] if want else None)))
    return bad


def _nm(w, o):
    return "None" if o is None else "n%s" % w.num.get(id(o), "?")


def oracle_forest(w):
    """C04: two-ended consistency, no duplicates, single parent, accessors, aggregate iterators."""
    g = w.g
    bad = []
    owners = {}
    for n, o in w.obj.items():
        kind = w.kind[n]
        if kind == "IR":
            mods = list(o.modules)
            if len(set(map(id, mods))) != len(mods):
                bad.append("ir n%d lists a module twice" % n)
            colls = [("modules", mods)]
        else:
            colls = []
            for f in FIELDS.get(kind, {}):
                try:
                    colls.append((f, list(getattr(o, f))))
                except Exception as e:  # noqa: BLE001  (the attribute no longer is a collection: a consistency violation, not a crash of the check)
                    bad.append("n%d.%s cannot be iterated (it is a %s): %s" % (n, f, type(getattr(o, f, None)).__name__, type(e).__name__))
        for f, members in colls:
            for c in members:
                cn = w.num.get(id(c))
                if cn is None:
                    bad.append("n%d.%s holds an unknown object" % (n, f))
                    continue
                owners.setdefault(cn, []).append((n, f))
                if w.parent_of(c, w.kind[cn]) is not o:
                    bad.append("n%d in n%d.%s but its parent attribute is %s" % (cn, n, f, _nm(w, w.parent_of(c, w.kind[cn]))))
    for cn, l in owners.items():
        if len(l) > 1:
            bad.append("n%d appears in %d collections: %s" % (cn, len(l), l))
    for n, o in w.obj.items():
        kind = w.kind[n]
        if kind == "IR":
            continue
        p = w.parent_of(o, kind)
        if p is not None:
            pn = w.num.get(id(p))
            if pn is None or (pn, FIELD_OF_CHILD[kind]) not in owners.get(n, []):
                bad.append("n%d names parent %s but is not in its %s" % (n, _nm(w, p), FIELD_OF_CHILD[kind]))
        # derived accessors
        chain = []
        x, k = o, kind
        while k != "IR" and x is not None:
            x = w.parent_of(x, k)
            k = PARENT_KIND[k]
            chain.append((k, x))
        want = {k: x for k, x in chain}
        if o.ir is not want.get("IR"):
            bad.append("n%d.ir is %s, the forest implies %s" % (n, _nm(w, o.ir), _nm(w, want.get("IR"))))
        if kind not in ("Module",) and o.module is not want.get("Module"):
            bad.append("n%d.module is %s, the forest implies %s" % (n, _nm(w, o.module), _nm(w, want.get("Module"))))
        if kind in ("ByteInterval", "CodeBlock", "DataBlock") and o.section is not want.get("Section"):
            bad.append("n%d.section is %s, the forest implies %s" % (n, _nm(w, o.section), _nm(w, want.get("Section"))))
    if any("cannot be iterated" in b for b in bad):
        return bad                      # the containment tree itself cannot be walked: nothing further can be compared
    # aggregate iterators
    for n, o in w.obj.items():
        kind = w.kind[n]
        if kind not in ("IR", "Module", "Section"):
            continue
        below = [x for x in (reach(g, o) if kind == "IR" else _below(o, kind))]
        want = {
            "byte_blocks": [x for x in below if isinstance(x, g.ByteBlock)],
            "code_blocks": [x for x in below if isinstance(x, g.CodeBlock)],
            "data_blocks": [x for x in below if isinstance(x, g.DataBlock)],
        }
        if kind in ("IR", "Module"):
            want["byte_intervals"] = [x for x in below if isinstance(x, g.ByteInterval)]
            want["cfg_nodes"] = [x for x in below if isinstance(x, (g.CodeBlock, g.ProxyBlock))]
        if kind == "IR":
            want["sections"] = [x for x in below if isinstance(x, g.Section)]
            want["symbols"] = [x for x in below if isinstance(x, g.Symbol)]
            want["proxy_blocks"] = [x for x in below if isinstance(x, g.ProxyBlock)]
        for attr, wl in want.items():
            got = list(getattr(o, attr))
            if sorted(map(id, got)) != sorted(map(id, wl)):
                bad.append("n%d.%s yields %s, the forest implies %s" % (n, attr, sorted(_nm(w, x) for x in got), sorted(_nm(w, x) for x in wl)))
    return bad


def _below(o, kind):
    out = []
    secs = list(o.sections) if kind == "Module" else [o]
    if kind == "Module":
        out += list(o.proxies) + list(o.symbols)
    for s in secs:
        if kind == "Module":
            out.append(s)
        for bi in s.byte_intervals:
            out.append(bi)
            out += list(bi.blocks)
    return out


def in_q(x, a, b, st):
    return a <= x < b and (x - a) % st == 0


# ------------------------------------------------------------------------------------------
# fresh-scan oracles for the lookups (C05, C06, C13, C10)

def _bis_below(w, n):
    o, kind = w.obj[n], w.kind[n]
    if kind == "ByteInterval":
        return [o]
    if kind == "Section":
        return list(o.byte_intervals)
    if kind == "Module":
        return [bi for s in o.sections for bi in s.byte_intervals]
    return [bi for m in _once(o.modules) for s in m.sections for bi in s.byte_intervals]


def _once(objs):
    """each object once, whatever the collection says (a module listed twice is still ONE member: 'each once' is judged against this)"""
    seen, out = set(), []
    for x in objs:
        if id(x) not in seen:
            seen.add(id(x))
            out.append(x)
    return out


def _secs_below(w, n):
    o, kind = w.obj[n], w.kind[n]
    if kind == "Module":
        return list(o.sections)
    return [s for m in _once(o.modules) for s in m.sections]


def scan_extent(sec):
    bis = list(sec.byte_intervals)
    if not bis or any(bi.address is None for bi in bis):
        return None
    lo = min(bi.address for bi in bis)
    hi = max(bi.address + bi.size for bi in bis)
    return (lo, hi - lo)


def oracle_query(w, it, rep):
    """judge one lookup result of the implementation against a fresh scan; returns list of problems"""
    g = w.g
    _, scope, m, kf, a, b, st = it
    if rep[0] != 0:
        return ["lookup raised (code %s)" % rep[1:]]
    kind = w.kind[scope]
    bad = []
    kindok = (lambda x: True) if kf == 0 else (lambda x: isinstance(x, g.CodeBlock)) if kf == 1 else (lambda x: isinstance(x, g.DataBlock))
    if m in (0, 1, 2, 3):
        got = rep[1]
        if len(set(got)) != len(got):
            bad.append("a block is reported twice: %s" % got)
        qual, inside = set(), set()
        for bi in _bis_below(w, scope):
            for blk in bi.blocks:
                if not kindok(blk):
                    continue
                if m in (2, 3):
                    lo, sz = blk.offset, blk.size
                    ok = (sz > 0 and max(a, lo) < min(b, lo + sz)) if m == 2 else in_q(lo, a, b, st)
                    if ok:
                        qual.add(w.n(blk)); inside.add(w.n(blk))
                    continue
                if bi.address is None:
                    continue
                lo, sz = bi.address + blk.offset, blk.size
                if m == 0:
                    ok = sz > 0 and max(a, lo) < min(b, lo + sz)
                    ins = ok and max(a, lo, bi.address) < min(b, lo + sz, bi.address + bi.size)
                else:
                    ok = in_q(lo, a, b, st)
                    ins = ok and bi.address <= lo < bi.address + bi.size
                if ok:
                    qual.add(w.n(blk))
                if ins or (ok and kind == "ByteInterval"):
                    inside.add(w.n(blk))
        gs = set(got)
        if gs - qual:
            bad.append("reports blocks that do not qualify: %s" % sorted(gs - qual))
        if inside - gs:
            bad.append("misses qualifying blocks: %s" % sorted(inside - gs))
    elif m in (4, 5):
        got = rep[1]
        want = []
        for bi in _bis_below(w, scope):
            if bi.address is None:
                continue
            ok = (bi.size > 0 and max(a, bi.address) < min(b, bi.address + bi.size)) if m == 4 else in_q(bi.address, a, b, st)
            if ok:
                want.append(w.n(bi))
        if sorted(got) != sorted(want):
            bad.append("byte intervals %s, a fresh scan gives %s" % (sorted(got), sorted(want)))
    elif m in (6, 7):
        got = rep[1]
        want = []
        for s in _secs_below(w, scope):
            e = scan_extent(s)
            if e is None:
                continue
            ok = (max(a, e[0]) < min(b, e[0] + e[1])) if m == 6 else in_q(e[0], a, b, st)
            if ok:
                want.append(w.n(s))
        if sorted(got) != sorted(want):
            bad.append("sections %s, a fresh scan gives %s" % (sorted(got), sorted(want)))
    elif m in (8, 9):
        got = [tuple(t) for t in rep[1]]
        if len(set(got)) != len(got):
            bad.append("an expression is reported twice")
        # increasing offsets within each interval, in yielded order
        seen = {}
        for (bn, k) in getattr(w, "last_symx_order", []):
            if bn in seen and seen[bn] >= k:
                bad.append("offsets of interval n%d are not yielded in increasing order" % bn)
            seen[bn] = k
        qual, inside = set(), set()
        for bi in _bis_below(w, scope):
            for k, e in bi.symbolic_expressions.items():
                t = (w.n(bi), k, w.expr_num[id(e)])
                if m == 9:
                    if in_q(k, a, b, st):
                        qual.add(t); inside.add(t)
                    continue
                if bi.address is None:
                    continue
                if in_q(bi.address + k, a, b, st):
                    qual.add(t)
                    if kind == "ByteInterval" or 0 <= k < bi.size:
                        inside.add(t)
        gs = set(got)
        if gs - qual:
            bad.append("reports expressions that do not qualify: %s" % sorted(gs - qual))
        if inside - gs:
            bad.append("misses qualifying expressions: %s" % sorted(inside - gs))
    elif m == 10:
        e = scan_extent(w.obj[scope])
        if rep[1] != ([] if e is None else list(e)):
            bad.append("section extent %s, a fresh scan gives %s" % (rep[1], e))
    return bad


def oracle_symbols(w, it, rep):
    g = w.g
    if rep[0] != 0:
        return ["lookup raised"]
    if it[0] == 41:
        m = w.obj[it[1]]
        want = sorted(w.n(s) for s in m.symbols if s.name == w.name(it[2]))
    else:
        b = w.obj[it[1]]
        mod = b.module
        want = sorted(w.n(s) for s in mod.symbols if s.referent is b) if mod is not None else []
    if rep[1] != want:
        return ["%s gives %s, a fresh scan gives %s" % ("symbols_named" if it[0] == 41 else "references", rep[1], want)]
    return []


def d4_probe(g, shape):
    """the recorded ListWrapper defect (DESIGN.md section 6, D4): returns a W holding the state after the call"""
    w = W(g)
    ir = g.IR()
    w.adopt(1, "IR", ir)
    ms = []
    for i in range(3):
        m = g.Module(name=str(i), ir=ir)
        w.adopt(2 + i, "Module", m)
        ms.append(m)
    try:
        if shape == "setitem-same-list":
            ir.modules[2] = ms[0]
        elif shape == "setslice-same-list":
            ir.modules[2:3] = [ms[0]]
        else:
            # "setslice-repeated-value": the assigned list names a module twice (a module that is not in the list at all)
            n = g.Module(name="n")
            w.adopt(5, "Module", n)
            ms.append(n)
            ir.modules[0:1] = [n, n]
    except Exception:  # noqa: BLE001
        pass
    return w, [m.uuid.int for m in ms]
