"""Re-execute a stored replay (`harness/check.py Cxx --replay <file>`): the case recorded in the replay file is run again on the
working-tree implementation, on the extracted model and through the direct oracle, and the three outcomes are printed side by side.
Returns 1 when the property still fails on that input (or model and implementation still disagree), 0 otherwise."""
import io
import json

import gtirb_from_repo
from common import ERR_CODES, exc_name, model_batch


def _load(path):
    d = json.load(open(path))
    findings = [d["primary"]] + d.get("others", [])
    return d, findings


def replay_file(path):
    d, findings = _load(path)
    g = gtirb_from_repo.load()
    print("property %s, tier %s, seed %s; rerun the whole check with: %s" % (d["property"], d["tier"], d["seed"], d.get("rerun")))
    still = 0
    for n, f in enumerate(findings[:6]):
        r = f.get("replay") or {}
        print("\n[%d] %s  %s\n    %s" % (n, f["kind"], f["sig"], f["what"][:400]))
        try:
            still += _one(g, d["property"], f, r)
        except Exception as e:  # noqa: BLE001
            print("    replay of this finding failed: %s: %s" % (type(e).__name__, e))
    print("\n%s" % ("STILL FAILING on the current tree" if still else "not reproduced on the current tree (fixed, or the finding is a broken proof obligation: rerun the check)"))
    return 1 if still else 0


def _one(g, pid, f, r):
    import content
    import world
    if "items" in r and isinstance(r["items"], list):
        # an operation history over the object graph / CFG
        items = r["items"]
        if pid == "C11":
            rep = model_batch([[30, items]])[0]
            print("    model replies (last 3):", rep[-3:] if isinstance(rep, list) else rep)
            print("    (the CFG history is re-executed by rerunning the check with the same seed)")
            return 0
        w = world.W(g)
        impl = [w.run(it) for it in items]
        rep = model_batch([[20, items]])[0]
        bad_f, bad_c = world.oracle_forest(w), []
        uu = [it[3] for it in items if it[0] in (1, 51)]
        bad_c = world.oracle_cache(w, uu)
        last = items[-1]
        print("    history of %d items, last: %s" % (len(items), last))
        print("    implementation reply:", impl[-1])
        print("    model reply         :", rep[-1] if isinstance(rep, list) else rep)
        if last[0] == 40:
            print("    fresh-scan oracle   :", world.oracle_query(w, last, impl[-1]) or "agrees with the implementation")
        elif last[0] in (41, 42):
            print("    scan oracle         :", world.oracle_symbols(w, last, impl[-1]) or "agrees with the implementation")
        print("    forest oracle       :", bad_f[:3] or "consistent")
        print("    uuid-table oracle   :", bad_c[:3] or "consistent")
        diff = False
        if isinstance(rep, list):
            import worldgen

            class H:
                pass
            h = H()
            h.w = w
            for i, (it, im, mo) in enumerate(zip(items, impl, rep)):
                if worldgen.canon_model_reply(h, it, mo) != im:
                    print("    first model/implementation difference at item %d %s: implementation %s, model %s" % (i, it, im, mo))
                    diff = True
                    break
        oracle_bad = bool(bad_f or bad_c) or (last[0] == 40 and bool(world.oracle_query(w, last, impl[-1])))
        return 1 if (diff or oracle_bad) else 0
    if "plan" in r and isinstance(r["plan"], dict) and "free" in r["plan"]:
        import twinleg
        bad = twinleg.compare(g, r["plan"])
        print("    twin-cache history of %d operations on two loads of one file:" % len(r["plan"]["ops"]), bad[0] if bad else "implementation and model agree")
        return 1 if bad else 0
    if "file" in r and isinstance(r["file"], str):
        bs = bytes.fromhex(r["file"])
        try:
            ir = g.IR.load_protobuf_file(io.BytesIO(bs))
        except Exception as e:  # noqa: BLE001
            print("    load(%d bytes) raises %s: %s" % (len(bs), exc_name(g, e), str(e)[:120]))
            outcome = ("err", exc_name(g, e))
        else:
            import protocheck
            probs = protocheck.safe_coherence(g, ir)
            print("    load(%d bytes) returns an IR; coherence oracle: %s" % (len(bs), probs[:3] or "coherent"))
            if r.get("second_load"):
                ir3 = g.IR.load_protobuf_file(io.BytesIO(bs))
                mine = {id(n) for n in content.reach(ir3)}
                for cont in [ir3] + list(ir3.modules):
                    for k, ad in cont.aux_data.items():
                        try:
                            foreign = [n for n in protocheck.walk_nodes(g, ad.data) if id(n) not in mine]
                        except Exception as e:  # noqa: BLE001
                            foreign = []
                        if foreign:
                            probs.append("second load: AuxData table %r holds %d node(s) that are not attached to the second IR" % (k, len(foreign)))
                probs += ["second load: " + x for x in content.identity_check(g, ir3)]
                print("    second load of the same bytes: %s" % (probs[:3] or "every reference is the second IR's own object"))
            outcome = ("ok", probs)
            if r.get("must_reject_with"):
                print("    the property prescribes rejection with %s" % r["must_reject_with"])
                probs.append("accepted")
        try:
            p = gtirb_from_repo.msg("IR")()
            p.ParseFromString(bs[8:])
            rep = model_batch([[41, list(bs[:8]), content.msg_to_sx(p)]])[0]
            print("    model reader        :", "accepts" if rep[0] == 0 else "rejects with %s" % ERR_CODES.get(rep[1], rep[1]))
            model_ok = rep[0] == 0
        except Exception as e:  # noqa: BLE001
            print("    (not a parseable message: %s)" % type(e).__name__)
            model_ok = None
        bad = (outcome[0] == "ok" and bool(outcome[1])) or (model_ok is not None and model_ok != (outcome[0] == "ok"))
        if f["sig"].startswith(("accepted", "fault-accepted")) and outcome[0] == "ok":
            bad = True
        return 1 if bad else 0
    if "type_name" in r and ("value_sx" in r or "bytes" in r):
        tn = r["type_name"]
        print("    type name %r" % tn)
        if "bytes" in r and isinstance(r["bytes"], str):
            bs = bytes.fromhex(r["bytes"])
            try:
                v = g.AuxData.serializer.decode(bs, tn)
                print("    implementation decodes %s to %r" % (r["bytes"][:80], v))
            except Exception as e:  # noqa: BLE001
                print("    implementation decode raises %s" % exc_name(g, e))
            rep = model_batch([[4, [ord(c) for c in tn], list(bs), []]])[0]
            print("    model decode        :", repr(rep)[:300])
        if "value_sx" in r:
            rep = model_batch([[2, [ord(c) for c in tn], r["value_sx"]]])[0]
            print("    model encoding of the recorded value:", bytes(rep[1]).hex() if isinstance(rep, list) and rep and rep[0] == 0 else rep)
            print("    recorded implementation / oracle results:", {k: v for k, v in r.items() if k in ("impl", "format_oracle", "model", "decoded", "expected")})
        return 1
    if "request" in r:
        rep = model_batch([r["request"]])[0]
        print("    model replies to the recorded request (last 3):", rep[-3:] if isinstance(rep, list) else rep)
        print("    recorded problems:", r.get("problems"))
        return 1
    if "theorem_file" in r:
        print("    a proof obligation failed; coqc said:\n" + (r.get("coqc_log") or "")[-1500:])
        return 1
    print("    recorded data:", json.dumps(r)[:1500])
    return 1
