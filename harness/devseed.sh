#!/bin/sh
# harness/devseed.sh <seeded-id> [checks...]: apply a seeded change to the scratch worktree /tmp/seedwt (never to /repo) and run the
# named checks (default: the property the change breaks) against it in development mode (no rebuild, no proof step).
id=$1; shift
prop=$(echo $id | cut -d- -f1)
checks=${*:-$prop}
WT=/tmp/seedwt
[ -d $WT ] || git -C /repo worktree add --detach $WT HEAD >/dev/null 2>&1
git -C $WT checkout -q -- . && git -C $WT apply /verif/seeded/$id/patch.diff || { echo "$id: patch does not apply"; exit 2; }
cd /verif
for p in $checks; do
  out=$(VERIF_DEV_NOPROPS=1 VERIF_REPO=$WT VERIF_EVIDENCE_SUFFIX=.dev timeout 1800 harness/check.py $p --no-build 2>&1)
  if echo "$out" | grep -q "^VIOLATION"; then echo "$id $p CAUGHT $(echo "$out" | grep -m1 '^  \[' | cut -c1-150)"; else echo "$id $p quiet"; fi
done
git -C $WT checkout -q -- .
rm -f evidence/*.dev.json
