"""Import the *working tree* gtirb package from /repo/python without any build step.

/repo/python/gtirb lacks the CMake/protoc generated files (version.py and
proto/*_pb2.py) and there is no protoc in the sandbox, so a meta-path finder
synthesises them in memory:
  gtirb.version         from /repo/version.txt
  gtirb.proto.X_pb2     from /repo/proto/X.proto via protoc_lite (private DescriptorPool)

Usage:  import gtirb_from_repo; gtirb = gtirb_from_repo.load()
Never `import gtirb` before calling load().
"""
import importlib.abc
import importlib.machinery
import os
import sys
import types

REPO = os.environ.get("VERIF_REPO", "/repo")

_state = {}


def read_version():
    vals = {}
    with open(os.path.join(REPO, "version.txt")) as f:
        for line in f:
            parts = line.split()
            if len(parts) == 2:
                vals[parts[0]] = int(parts[1])
    return vals


def schema():
    """Parse all /repo/proto/*.proto; returns (parsed_files, file descriptor protos)."""
    if "schema" in _state:
        return _state["schema"]
    import protoc_lite
    pdir = os.path.join(REPO, "proto")
    parsed = {}
    for fn in sorted(os.listdir(pdir)):
        if fn.endswith(".proto"):
            with open(os.path.join(pdir, fn)) as f:
                parsed[fn] = protoc_lite.parse_proto(f.read(), fn)
    fdps = protoc_lite.build_file_descriptors(parsed)
    _state["schema"] = (parsed, fdps)
    return _state["schema"]


def pool():
    if "pool" in _state:
        return _state["pool"]
    from google.protobuf import descriptor_pool
    parsed, fdps = schema()
    p = descriptor_pool.DescriptorPool()
    for fdp in fdps:
        p.Add(fdp)
    _state["pool"] = p
    return p


def pb2_module(name):
    """Build the module object gtirb.proto.<X>_pb2."""
    from google.protobuf import message_factory
    from google.protobuf.internal import enum_type_wrapper
    base = name[: -len("_pb2")]
    parsed, _ = schema()
    fname = base + ".proto"
    if fname not in parsed:
        raise ImportError("no %s in %s/proto" % (fname, REPO))
    fd = pool().FindFileByName(fname)
    mod = types.ModuleType("gtirb.proto." + name)
    mod.DESCRIPTOR = fd
    for mname, md in fd.message_types_by_name.items():
        setattr(mod, mname, message_factory.GetMessageClass(md))
    for ename, ed in fd.enum_types_by_name.items():
        setattr(mod, ename, enum_type_wrapper.EnumTypeWrapper(ed))
        for v in ed.values:
            setattr(mod, v.name, v.number)
    return mod


class _Finder(importlib.abc.MetaPathFinder, importlib.abc.Loader):
    def find_spec(self, fullname, path, target=None):
        if fullname == "gtirb.version" or (
            fullname.startswith("gtirb.proto.") and fullname.endswith("_pb2")
        ):
            return importlib.machinery.ModuleSpec(fullname, self)
        return None

    def create_module(self, spec):
        if spec.name == "gtirb.version":
            v = read_version()
            mod = types.ModuleType(spec.name)
            mod.API_VERSION = "%d.%d.%d" % (v["VERSION_MAJOR"], v["VERSION_MINOR"], v["VERSION_PATCH"])
            mod.PROTOBUF_VERSION = v["VERSION_PROTOBUF"]
            return mod
        return pb2_module(spec.name.rsplit(".", 1)[1])

    def exec_module(self, module):
        pass


def load():
    if "gtirb" in _state:
        return _state["gtirb"]
    if "gtirb" in sys.modules:
        raise RuntimeError("gtirb was imported before gtirb_from_repo.load()")
    sys.path.insert(0, os.path.join(REPO, "python"))
    sys.meta_path.insert(0, _Finder())
    import gtirb
    assert os.path.realpath(gtirb.__file__).startswith(os.path.realpath(REPO)), gtirb.__file__
    _state["gtirb"] = gtirb
    return gtirb


def msg(name):
    """Schema-built message class by short name (independent of gtirb's imports)."""
    from google.protobuf import message_factory
    return message_factory.GetMessageClass(pool().FindMessageTypeByName("gtirb.proto." + name))


if __name__ == "__main__":
    g = load()
    print(g.__file__, g.version.API_VERSION, g.version.PROTOBUF_VERSION)
    import io, uuid
    ir = g.IR()
    m = g.Module(name="m", ir=ir)
    s = g.Section(name=".text", module=m)
    bi = g.ByteInterval(address=0, size=4, contents=b"abcd", section=s)
    cb = g.CodeBlock(size=2, offset=0, byte_interval=bi)
    m.aux_data["x"] = g.AuxData({cb: 1}, "mapping<UUID,uint64_t>")
    buf = io.BytesIO(); ir.save_protobuf_file(buf); buf.seek(0)
    ir2 = g.IR.load_protobuf_file(buf)
    assert ir.deep_eq(ir2)
    (m2,) = ir2.modules
    print(m2.aux_data["x"].data)
    IRm = msg("IR")
    x = IRm(); x.ParseFromString(buf.getvalue()[8:]); print(len(x.modules), "module(s) parsed with schema classes")
