#!/venv/bin/python
"""Run ALL quick checks against every seeded change (one at a time, applied to /repo and undone) and write seeded/MATRIX.md:
which checks raise the alarm for which change.  harness/seedmatrix.py [id ...]"""
import json
import os
import subprocess
import sys

VERIF = os.path.dirname(os.path.dirname(os.path.abspath(__file__)))
ids = sys.argv[1:] or sorted(d for d in os.listdir(os.path.join(VERIF, "seeded")) if os.path.exists(os.path.join(VERIF, "seeded", d, "meta.json")))
rows = []
for sid in ids:
    mp = os.path.join(VERIF, "seeded", sid, "meta.json")
    meta = json.load(open(mp))
    if meta.get("status", "").startswith("obsolete"):
        rows.append((sid, meta, None))
        continue
    subprocess.run([os.path.join(VERIF, "harness", "seedtest.py"), sid, "--checks", "all"], stdout=subprocess.DEVNULL, stderr=subprocess.DEVNULL, timeout=7200)
    meta = json.load(open(mp))
    last = meta["verif_runs"][-1]["checks"]
    rows.append((sid, meta, last))
    print(sid, sorted(c for c, v in last.items() if v["exit"] != 0), flush=True)
# the table always lists EVERY seeded change, from the latest run of each in which all checks were run
rows = []
for sid in sorted(d for d in os.listdir(os.path.join(VERIF, "seeded")) if os.path.exists(os.path.join(VERIF, "seeded", d, "meta.json"))):
    meta = json.load(open(os.path.join(VERIF, "seeded", sid, "meta.json")))
    if meta.get("status", "").startswith("obsolete"):
        rows.append((sid, meta, None))
        continue
    full = [r for r in meta.get("verif_runs", []) if len(r.get("checks", {})) >= 15]
    if full:
        rows.append((sid, meta, full[-1]["checks"]))
with open(os.path.join(VERIF, "seeded", "MATRIX.md"), "w") as f:
    f.write("# Which quick checks raise the alarm for which seeded change (seed 1; every check run against every change)\n\n")
    f.write("| change | property | kind | checks that exit 1 | own check |\n|---|---|---|---|---|\n")
    for sid, meta, last in rows:
        if last is None:
            f.write("| %s | %s | %s | (obsolete) | – |\n" % (sid, meta["property"], meta.get("kind", "breaking")))
            continue
        hit = sorted(c for c, v in last.items() if v["exit"] != 0)
        own = "yes" if meta["property"] in hit else "NO"
        if meta.get("kind") == "harmless":
            own = "quiet" if not hit else "ALARM"
        f.write("| %s | %s | %s | %s | %s |\n" % (sid, meta["property"], meta.get("kind", "breaking"), ", ".join(hit) or "none", own))
print("written seeded/MATRIX.md")
