#!/bin/sh
# harness/coverage.sh : which statements and branches of /repo/python/gtirb do the quick checks EXECUTE?
# (a generator-gap detector: code no stream reaches cannot be compared with the model; the report is reviewed by hand and gaps
# that belong to a property become new streams -- see DESIGN.md "Coverage of the implementation by the correspondence".)
# Writes /verif/coverage/REPORT.txt.  Needs coverage.py (present in /venv).  Not part of any registered check.
cd /verif
REPO=${VERIF_REPO:-/repo}
T=$(mktemp -d)
for p in C01 C02 C03 C04 C05 C06 C07 C08 C09 C10 C11 C12 C13 C14 C15 C16 C17 C18 C19; do echo $p; done | \
  xargs -P 8 -I{} sh -c "PYTHONHASHSEED=0 VERIF_REPO=$REPO VERIF_EVIDENCE_SUFFIX=.cov /venv/bin/python -m coverage run --branch --include='$REPO/python/gtirb/*' --data-file=$T/.cov.{} harness/check.py {} --no-build >/dev/null 2>&1"
/venv/bin/python -m coverage combine --data-file=$T/.coverage $T/.cov.C* >/dev/null 2>&1
mkdir -p coverage
{ echo "statement/branch coverage of $REPO/python/gtirb by the 19 quick checks (seed ${VERIF_SEED:-1}), $(date -u +%F)"; \
  /venv/bin/python -m coverage report --data-file=$T/.coverage --show-missing; } > coverage/REPORT.txt
rm -rf $T evidence/*.cov.json replays/*.cov.json
tail -22 coverage/REPORT.txt
