"""History generator / runner for the object-graph checks.  A history is generated while it
is executed on the real objects (the generator looks at the current membership to draw
arguments from members / non-members / nodes owned elsewhere); the same items, with the
implementation's unspecified choices filled in, are then replayed on the extracted model."""
import world
from world import FIELDS, K, KINDS, PARENT_ATTR, PARENT_KIND, SETM, W, opt

DEFAULT_POOL = {"IR": 2, "Module": 3, "Section": 3, "ByteInterval": 4, "CodeBlock": 3, "DataBlock": 3, "ProxyBlock": 2, "Symbol": 4}

ADDRS = [None, 0, 0, 4, 8, 10, 10, 16, 16, 100, (1 << 64) - 16, (1 << 64) - 8]        # (the last one: blocks at offsets 8 and 12 lie at and beyond 2**64)
SIZES = [0, 0, 1, 2, 4, 8, 16]
OFFS = [0, 0, 1, 2, 4, 7, 8, 12]


class Hist:
    def __init__(self, g, rng, cfg):
        self.g, self.rng, self.cfg = g, rng, cfg
        self.w = W(g)
        self.items = []        # model items
        self.replies = []      # implementation replies (already canonical)
        self.by_kind = {k: [] for k in KINDS}
        self.uuids = []
        self.problems = []     # (sig, text, index)
        self.next_num = 1
        self.stopped = False

    # ---- plumbing
    def emit(self, it, model_it=None, judge=True):
        rep = self.w.run(it)
        self.items.append(model_it if model_it is not None else it)
        self.replies.append(rep)
        return rep

    def maybe_copy(self):
        """now and then the history continues on a COPY of the whole world (item 49: deep copy, or a pickle round trip with protocol
        2, 4 or 5); whatever the copy lost or kept by mistake shows in everything observed afterwards"""
        if self.items and self.rng.random() < self.cfg.get("copy_rate", 0.02):
            self.emit([49, self.rng.choice([0, 0, 2, 4, 5, 9, 8, 8])])          # (9: the IRs are forgotten and found again through a child; 8: only the blocks are held)

    def fresh_uuid(self):
        u = self.rng.getrandbits(128)
        self.uuids.append(u)
        return u

    def new(self, kind, **kw):
        n = self.next_num
        self.next_num += 1
        rng = self.rng
        a = kw.get("addr", rng.choice(ADDRS) if kind == "ByteInterval" else None)
        sz = kw.get("size", rng.choice(SIZES) if kind in ("ByteInterval", "CodeBlock", "DataBlock") else 0)
        off = rng.choice(OFFS) if kind in ("CodeBlock", "DataBlock") else 0
        nm = rng.randrange(6) if kind == "Symbol" else 0
        pay = []
        if kind == "Symbol":
            r = rng.random()
            blocks = self.by_kind["CodeBlock"] + self.by_kind["DataBlock"] + self.by_kind["ProxyBlock"]
            if r < 0.4 and blocks:
                pay = [1, rng.choice(blocks)]
            elif r < 0.7:
                pay = [0, rng.choice([0, 0, 1, 4096, (1 << 64) - 1])]
        it = [1, n, K[kind], self.fresh_uuid(), opt(a), sz, off, nm, pay]
        self.emit(it)
        self.by_kind[kind].append(n)
        return n

    def op_new_with_parent(self):
        """a node constructed WITH its parent in the middle of a history (Section(module=m), CodeBlock(byte_interval=bi, ..), Symbol(..,
        module=m), Module(ir=ir), ..): for the model `new` followed by the attach through the parent attribute -- the same state
        reached along another route"""
        rng = self.rng
        if getattr(self, "ctor_kids", 0) >= self.cfg.get("ctor_kids", 4):
            return False
        kind = rng.choice(["Module", "Section", "ByteInterval", "CodeBlock", "DataBlock", "ProxyBlock", "Symbol", "Symbol"])
        ps = self.by_kind[PARENT_KIND[kind]]
        if not ps or not self.by_kind[kind]:
            return False
        self.ctor_kids = getattr(self, "ctor_kids", 0) + 1
        par = rng.choice(ps)
        n = self.next_num
        self.next_num += 1
        a = rng.choice(ADDRS) if kind == "ByteInterval" else None
        sz = rng.choice(SIZES) if kind in ("ByteInterval", "CodeBlock", "DataBlock") else 0
        off = rng.choice(OFFS) if kind in ("CodeBlock", "DataBlock") else 0
        nm = rng.randrange(6) if kind == "Symbol" else 0
        pay = []
        if kind == "Symbol":
            blocks = self.by_kind["CodeBlock"] + self.by_kind["DataBlock"] + self.by_kind["ProxyBlock"]
            r = rng.random()
            pay = [1, rng.choice(blocks)] if (r < 0.5 and blocks) else ([0, rng.choice([0, 1, 4096])] if r < 0.75 else [])
        it = [1, n, K[kind], self.fresh_uuid(), opt(a), sz, off, nm, pay]
        self.emit([51] + it[1:] + [par])
        if n in self.w.obj:
            self.by_kind[kind].append(n)
        return True

    def op_new_with_children(self):
        """construct a new parent with children passed to the constructor (free nodes or nodes owned elsewhere): the model sees
        `new` followed by the bulk attach the constructor performs (modules.extend / set.update)"""
        rng = self.rng
        if getattr(self, "ctor_parents", 0) >= 3:
            return
        kind = rng.choice(["IR", "Module", "Section", "ByteInterval"])
        child_kinds = {"IR": ["Module"], "Module": ["Section", "Symbol", "ProxyBlock"], "Section": ["ByteInterval"],
                       "ByteInterval": ["CodeBlock", "DataBlock"]}[kind]
        pool = [x for k in child_kinds for x in self.by_kind[k]]
        if not pool:
            return
        kids = [rng.choice(pool) for _ in range(rng.choice([1, 2, 3]))]
        if rng.random() < 0.6:
            kids = list(dict.fromkeys(kids))          # otherwise the argument may list a child twice, as any iterable may
        elif len(set(kids)) < len(kids):
            self.count("ctor_children_with_repeats") if hasattr(self, "count") else None
        self.ctor_parents = getattr(self, "ctor_parents", 0) + 1
        n = self.next_num
        self.next_num += 1
        u = self.fresh_uuid()
        rep = self.w.run([50, n, K[kind], u, kids])
        self.items.append([1, n, K[kind], u, [], 8 if kind == "ByteInterval" else 0, 0, 0, []])
        self.replies.append([0])
        if kind == "IR":
            self.items.append([6, n, kids])
            self.replies.append(rep)
        elif kind == "Module":
            # the constructor attaches proxies, then sections, then symbols
            groups = [[x for x in kids if self.w.kind[x] == kk] for kk in ("ProxyBlock", "Section", "Symbol")]
            fks = [[K["ProxyBlock"]], [K["Section"]], [K["Symbol"]]]
            first = True
            for grp, fk in zip(groups, fks):
                if grp:
                    self.items.append([3, n, fk, 5, [grp]])
                    self.replies.append(rep if first else [0])
                    first = False
        else:
            fk = [K[k] for k in child_kinds]
            self.items.append([3, n, fk, 5, [kids]])
            self.replies.append(rep)
        if n in self.w.obj:
            self.by_kind[kind].append(n)
        else:
            # the constructor raised: there is no such object (the model created it -- the replies differ and are reported);
            # the history ends here, later operations would only speak about a node that does not exist
            self.dead = True
            self.ctor_error = rep

    def all_nodes(self):
        return [n for k in KINDS for n in self.by_kind[k]]

    def members(self, p, fkinds):
        return [x for x in self.w.kids(p) if self.w.kind.get(x) in fkinds]

    # ---- random ops
    def pick_child(self, kinds, owner=None, bias=None):
        """a node of one of `kinds`: member of owner / free / owned elsewhere"""
        cands = [n for k in kinds for n in self.by_kind[k]]
        if not cands:
            return None
        return self.rng.choice(cands)

    def op_setparent(self):
        self.maybe_copy()
        rng = self.rng
        if rng.random() < self.cfg.get("ctor_kid_rate", 0.06) and self.op_new_with_parent():
            return
        kind = rng.choice([k for k in KINDS if k != "IR" and self.by_kind[k]])
        c = rng.choice(self.by_kind[kind])
        ps = self.by_kind[PARENT_KIND[kind]]
        p = rng.choice(ps + [None]) if ps else None
        self.emit([2, c, opt(p)])

    def op_set(self):
        self.maybe_copy()
        rng = self.rng
        okind = rng.choice([k for k in FIELDS if self.by_kind[k]])
        p = rng.choice(self.by_kind[okind])
        fname = rng.choice(list(FIELDS[okind]))
        fkinds = FIELDS[okind][fname]
        fk = [K[k] for k in fkinds]
        m = rng.choice(self.cfg.get("setm", SETM))
        pool = [n for k in fkinds for n in self.by_kind[k]]
        if not pool:
            return
        mem = self.members(p, fkinds)

        def some(k):
            return [rng.choice(pool) for _ in range(k)]
        if m in ("add", "discard", "remove"):
            # remove of a missing element (KeyError) is part of the malformed stream
            x = rng.choice(mem) if (mem and rng.random() < (0.7 if m != "add" else 0.2)) else rng.choice(pool)
            self.emit([3, p, fk, SETM.index(m), [[x]]])
        elif m == "pop":
            before = set(mem)
            it = [3, p, fk, 3, []]
            rep = self.w.run(it)
            after = set(self.members(p, fkinds))
            gone = sorted(before - after)
            self.items.append([3, p, fk, 3, [gone[:1]]] if gone else [3, p, fk, 3, []])
            self.replies.append(rep)
        elif m == "clear":
            self.emit([3, p, fk, 4, []])
        elif m == "update":
            lists = [some(rng.choice([0, 1, 2, 3])) for _ in range(rng.choice([0, 1, 1, 2, 3]))]
            whole = self.whole_collection_elsewhere(p, okind, fkinds)
            if whole and rng.random() < 0.3:
                lists = [whole]                      # everything another owner holds (world.W hands over its live collection)
            self.emit([3, p, fk, 5, lists])
        else:
            arg = list(dict.fromkeys(some(rng.choice([0, 1, 2, 4])) + (rng.sample(mem, min(len(mem), rng.choice([0, 1, 2]))))))
            whole = self.whole_collection_elsewhere(p, okind, fkinds)
            if whole and rng.random() < 0.3:
                arg = whole
            self.emit([3, p, fk, SETM.index(m), [arg]])

    def whole_collection_elsewhere(self, p, okind, fkinds):
        """all members of the same field of another owner of the same kind (None when there is none with members)"""
        cands = []
        for q in self.by_kind[okind]:
            if q != p:
                mem = self.members(q, fkinds)
                if mem:
                    cands.append(mem)
        return self.rng.choice(cands) if cands else None

    def op_mods(self):
        self.maybe_copy()
        rng = self.rng
        if not self.by_kind["IR"] or not self.by_kind["Module"]:
            return
        ir = rng.choice(self.by_kind["IR"])
        mods = self.by_kind["Module"]
        cur = self.w.kids(ir)
        n = len(cur)
        meth = rng.choice(self.cfg.get("modm", ["append", "insert", "extend", "iadd", "remove", "pop", "delitem", "delslice", "setitem",
                                                "setslice", "setext", "delext", "clear", "reverse"]))
        idx = rng.choice([0, -1, 1, n - 1, n, -n, -n - 1, n + 2, 2]) if rng.random() < 0.5 else (rng.randrange(n) if n else 0)
        if rng.random() < 0.06:
            idx = rng.choice([1 << 63, (1 << 63) - 1, -(1 << 63), -(1 << 63) - 1, (1 << 64) - 1])      # beyond the machine word: OverflowError from insert / pop, before anything moves
        ob = lambda: opt(rng.choice([None, 0, 1, -1, n, n + 1, 2]))  # noqa: E731
        if meth == "append":
            self.emit([4, ir, rng.choice(mods)])
        elif meth == "insert":
            self.emit([5, ir, idx, rng.choice(mods)])
        elif meth in ("extend", "iadd"):
            # repeats and modules already listed are legal: each mention moves the module to the end
            vs = [rng.choice(cur) if (cur and rng.random() < 0.25) else rng.choice(mods) for _ in range(rng.choice([0, 1, 2, 3, 4]))]
            if rng.random() < 0.3:
                # everything another IR lists -- or this IR itself (l.extend(l)) -- in list order: world.W hands over the live list
                src = rng.choice(self.by_kind["IR"])
                if self.w.kids(src):
                    vs = list(self.w.kids(src))
            it = [6, ir, vs]
            rep = self.w.run(it + ["iadd"] if meth == "iadd" else it)
            self.items.append(it)
            self.replies.append(rep)
        elif meth == "remove":
            v = rng.choice(cur) if cur and rng.random() < 0.7 else rng.choice(mods)
            self.emit([7, ir, v])
        elif meth == "pop":
            self.emit([8, ir, idx if rng.random() < 0.7 else -1])
        elif meth == "delitem":
            self.emit([9, ir, idx])
        elif meth == "delslice":
            self.emit([10, ir, ob(), ob()])
        elif meth == "delext":
            self.emit([33, ir, ob(), ob(), rng.choice([2, -1, -2, 3, -3, -1, 0, 1])])          # del modules[a:b:c], forwards and backwards
        elif meth == "setitem":
            v = rng.choice(mods)
            k = idx
            # (v may sit elsewhere in this very list: it is moved to position k -- the former finding D4, now part of every stream)
            if cur and rng.random() < 0.25:
                v = rng.choice(cur)
            self.emit([11, ir, k, v])
        elif meth == "setslice":
            a, b = ob(), ob()
            vs = [rng.choice(mods) for _ in range(rng.choice([0, 1, 2, 3]))]
            if rng.random() < 0.6:
                vs = list(dict.fromkeys(vs))        # (otherwise a module may be named twice: it is kept where it was assigned last)
            if cur and rng.random() < 0.25:
                vs.insert(rng.randrange(len(vs) + 1), rng.choice(cur))      # one that the list holds already, inside or outside the slice
            if rng.random() < 0.3:
                others = [q for q in self.by_kind["IR"] if q != ir and self.w.kids(q)]
                if others:
                    vs = list(self.w.kids(rng.choice(others)))
            self.emit([12, ir, a, b, vs])
        elif meth == "setext":
            # an extended slice: the right-hand side has the size of the slice (mostly), members of the list, modules of elsewhere,
            # repeated values; also a wrong size and step 0 (ValueError, nothing touched)
            a, b = ob(), ob()
            st = rng.choice([2, -1, -2, 3, -3, 0, 2, -1])
            try:
                npos = len(range(*slice(a[0] if a else None, b[0] if b else None, st).indices(n)))
            except ValueError:
                npos = 0
            k = npos if rng.random() < 0.8 else rng.choice([0, 1, npos + 1])
            r = rng.random()
            if r < 0.3 and len(cur) >= k:
                vs = rng.sample(cur, k)                      # a rearrangement of members
            elif r < 0.6:
                vs = [rng.choice(mods) for _ in range(k)]    # anything, repetitions included
            else:
                vs = list(dict.fromkeys(rng.choice(mods) for _ in range(3 * k)))[:k]
                vs += [rng.choice(mods) for _ in range(k - len(vs))]
            self.emit([32, ir, a, b, st, vs])
        elif meth == "clear":
            self.emit([13, ir])
        elif meth == "reverse":
            self.emit([28, ir])

    def op_attr(self):
        self.maybe_copy()
        rng = self.rng
        r = rng.random()
        if r < 0.3 and self.by_kind["ByteInterval"]:
            bi = rng.choice(self.by_kind["ByteInterval"])
            q = rng.random()
            if q < 0.55:
                self.emit([14, bi, opt(rng.choice(ADDRS))])
            elif q < 0.85:
                self.emit([15, bi, rng.choice(SIZES + [32])])
            else:
                # initialized_size: beyond the current size the interval grows (an implicit size assignment)
                o = self.w.obj[bi]
                # (an interval adopted from a loaded file may declare a size near 2^64: no attempt to store that many bytes)
                v = rng.choice([0, 1, o.size, o.size + 1, o.size + 8, 40] if o.size < (1 << 16) else [0, 1, 40, 64])
                self.emit([29, bi, v])
        elif r < 0.65 and (self.by_kind["CodeBlock"] or self.by_kind["DataBlock"]):
            b = rng.choice(self.by_kind["CodeBlock"] + self.by_kind["DataBlock"])
            if rng.random() < self.cfg.get("huge_rate", 0.04):
                # a magnitude beyond the 64-bit fields of the file format: a Python int like any other for the object graph and its
                # indexes.  An implementation that REFUSES the value (an exception) must leave everything as it was: the model is
                # not told about a refused assignment, and the lookups that follow are judged as usual
                it = [rng.choice([15, 16]), b, rng.choice([1 << 64, (1 << 64) + 5, 1 << 70])]
                rep = self.w.run(it)
                if rep[0] == 0:
                    self.items.append(it)
                    self.replies.append(rep)
                    self.huge_taken = getattr(self, "huge_taken", 0) + 1
                else:
                    self.huge_refused = getattr(self, "huge_refused", 0) + 1
                    self.items.append([53] + it)          # (replayed as "the assignment is attempted and refused again")
                    self.replies.append([0])
            elif rng.random() < 0.5:
                self.emit([15, b, rng.choice(SIZES)])
            else:
                self.emit([16, b, rng.choice(OFFS)])
        elif self.by_kind["Symbol"]:
            s = rng.choice(self.by_kind["Symbol"])
            if rng.random() < 0.5:
                self.emit([17, s, rng.randrange(6)])
            else:
                blocks = self.by_kind["CodeBlock"] + self.by_kind["DataBlock"] + self.by_kind["ProxyBlock"]
                q = rng.random()
                pay = [1, rng.choice(blocks)] if (q < 0.45 and blocks) else ([0, rng.choice([0, 1, 77])] if q < 0.75 else [])
                self.emit([18, s, pay])

    def op_symx(self):
        self.maybe_copy()
        rng = self.rng
        if not self.by_kind["ByteInterval"]:
            return
        bi = rng.choice(self.by_kind["ByteInterval"])
        keys = [k for k, _ in self.w.obj[bi].symbolic_expressions.items()]
        k = rng.choice(keys) if keys and rng.random() < 0.6 else rng.choice(OFFS + [20, 3])
        e = rng.randrange(1, 9)
        m = rng.choice(["set", "set", "set", "del", "pop", "popitem", "setdefault", "update", "clear", "assign"])
        kvs = [[rng.choice(OFFS + [20, 3]), rng.randrange(1, 9)] for _ in range(rng.choice([0, 1, 2, 3]))]
        kvs = [list(x) for x in dict((a, b) for a, b in kvs).items()]
        if m == "set":
            self.emit([19, bi, k, e])
        elif m == "del":
            self.emit([20, bi, k])
        elif m == "pop":
            self.emit([21, bi, k])
        elif m == "popitem":
            self.emit([22, bi])
        elif m == "setdefault":
            self.emit([23, bi, k, e])
        elif m == "update":
            self.emit([24, bi, kvs])
        elif m == "clear":
            self.emit([25, bi])
        else:
            if rng.random() < 0.35:
                # the whole content of an interval's mapping as it is now (this interval's own, or another one's): the executor
                # hands over the live mapping
                src = bi if rng.random() < 0.5 else rng.choice(self.by_kind["ByteInterval"])
                cur = [[k, self.w.expr_num[id(e)]] for k, e in self.w.obj[src].symbolic_expressions.items() if id(e) in self.w.expr_num]
                if cur and len(cur) == len(self.w.obj[src].symbolic_expressions):
                    kvs = cur
            self.emit([26, bi, kvs])

    def boundary_points(self, offsets=False):
        """addresses (or offsets) at which something begins or ends in the current structure"""
        pts = []
        for bn in self.by_kind["ByteInterval"]:
            bi = self.w.obj[bn]
            base = 0 if offsets else bi.address
            if base is None:
                continue
            if not offsets:
                pts += [base, base + bi.size]
            for b in bi.blocks:
                pts += [base + b.offset, base + b.offset + b.size]
            for k in bi.symbolic_expressions:
                pts.append(base + k)
        return pts

    def rand_q(self, offsets=False):
        rng = self.rng
        pts = [0, 1, 3, 4, 5, 8, 9, 10, 11, 12, 16, 17, 18, 24, 100, 104, (1 << 64) - 16, (1 << 64) - 8]
        if rng.random() < 0.75:
            pts = self.boundary_points(offsets) or pts
        a = rng.choice(pts) + rng.choice([0, 0, -1, 1])
        r = rng.random()
        if r < 0.35:
            return (a, a + 1, 1)
        b = a + rng.choice([0, 1, 2, 4, 8, 16, 120, -3])
        return (a, b, rng.choice([1, 1, 1, 2, 3]))

    def op_query(self, methods=None, dry=False):
        """one lookup; returns (item, reply) -- with `dry` the item only (it is neither executed nor recorded)"""
        rng = self.rng
        methods = methods or self.cfg.get("queries", list(world.QUERY_M))
        mname = rng.choice(methods)
        m = world.QUERY_M[mname]
        if m in (2, 3, 9):
            scopes = self.by_kind["ByteInterval"]
        elif m in (0, 1, 8):
            scopes = self.by_kind["ByteInterval"] + self.by_kind["Section"] + self.by_kind["Module"] + self.by_kind["IR"]
        elif m in (4, 5):
            scopes = self.by_kind["Section"] + self.by_kind["Module"] + self.by_kind["IR"]
        elif m in (6, 7):
            scopes = self.by_kind["Module"] + self.by_kind["IR"]
        else:
            scopes = self.by_kind["Section"]
        if not scopes:
            return None
        a, b, st = self.rand_q(offsets=m in (2, 3, 9))
        kf = rng.choice([0, 0, 1, 2]) if m in (0, 1, 2, 3) else 0
        it = [40, rng.choice(scopes), m, kf, a, b, st]
        if dry:
            return it, None
        rep = self.emit(it)
        return it, rep

    def observe_forest(self):
        ns = self.all_nodes()
        rep = self.w.run([44, ns])
        self.items.append([44, ns])
        self.replies.append(rep)
        rep2 = self.w.run([47, ns])
        self.items.append([47, ns])
        self.replies.append(rep2)

    def observe_aggregates(self):
        """every aggregate iterator of every section / module / IR (sorted; the model's list is sorted by the comparer)"""
        for kind, n in (("Section", 4), ("Module", 5), ("IR", 8)):
            for sc in self.by_kind[kind]:
                for a in range(n):
                    self.emit([48, sc, a])

    def observe_cache(self):
        for ir in self.by_kind["IR"]:
            for u in self.uuids + [1, (1 << 128) - 1]:
                self.emit([43, ir, u])

    def setup_pool(self, pool=None):
        pool = pool or self.cfg.get("pool", DEFAULT_POOL)
        for kind in KINDS:
            for _ in range(pool.get(kind, 0)):
                self.new(kind)

    def build_some_structure(self, p=0.7):
        """attach most nodes somewhere so that histories start from a populated forest"""
        rng = self.rng
        for kind in ["Module", "Section", "Symbol", "ProxyBlock", "ByteInterval", "CodeBlock", "DataBlock"]:
            for c in self.by_kind[kind]:
                ps = self.by_kind[PARENT_KIND[kind]]
                if ps and rng.random() < p:
                    self.emit([2, c, [rng.choice(ps)]])


def adopt_loaded(h, ir):
    """Continue a history FROM A LOADED IR: the objects the loader built are adopted under fresh node numbers, and the model is
    brought to the corresponding state by guarded operations only (new nodes, then attach through the parent attributes, module
    list appends, one whole-map assignment per interval) -- so the model state is `reachable_k` by construction and every World
    theorem speaks about it.  Nothing is executed on the implementation here: its state is whatever the loader left (UUID table,
    lazy indexes, symbol indexes included), and the observations that follow compare the two."""
    g, w = h.g, h.w
    name_num = {w.name(k): k for k in range(6)}

    def num():
        n = h.next_num
        h.next_num += 1
        return n

    def model_only(it):
        h.items.append(it)
        h.replies.append([0])

    def new(kind, o, addr=None, size=0, off=0, nm=0, pay=None):
        n = num()
        w.adopt(n, kind, o)
        h.by_kind[kind].append(n)
        h.uuids.append(o.uuid.int)
        model_only([1, n, K[kind], o.uuid.int, opt(addr), size, off, nm, pay or []])
        return n
    irn = new("IR", ir)
    attach, later_syms, symx = [], [], []
    for m in ir.modules:
        mn = new("Module", m)
        attach.append(("mod", irn, mn))
        for px in m.proxies:
            attach.append(("par", mn, new("ProxyBlock", px)))
        for sec in m.sections:
            sn = new("Section", sec)
            attach.append(("par", mn, sn))
            for bi in sec.byte_intervals:
                bn = new("ByteInterval", bi, addr=bi.address, size=bi.size)
                attach.append(("par", sn, bn))
                for b in bi.blocks:
                    kind = "CodeBlock" if isinstance(b, g.CodeBlock) else "DataBlock"
                    attach.append(("par", bn, new(kind, b, size=b.size, off=b.offset)))
                if len(bi.symbolic_expressions):
                    symx.append((bn, bi))
        for y in m.symbols:
            later_syms.append((mn, y))
    for mn, y in later_syms:                       # symbols last: a referent must exist before the symbol naming it
        if y.name not in name_num:
            k = 100 + len(name_num)
            name_num[y.name] = k
            w.names[k] = y.name
        if y.referent is not None:
            pay = [1, w.num.get(id(y.referent), -7)]
        elif y.value is not None:
            pay = [0, y.value]
        else:
            pay = []
        attach.append(("par", mn, new("Symbol", y, nm=name_num[y.name], pay=pay)))
    for kind, p, c in attach:
        model_only([4, p, c] if kind == "mod" else [2, c, [p]])
    for bn, bi in symx:
        kvs = []
        for k, e in bi.symbolic_expressions.items():
            ek = 1000 + len(w.exprs)
            w.exprs[ek] = e
            w.expr_num[id(e)] = ek
            kvs.append([k, ek])
        model_only([26, bn, kvs])
    return irn


def _bound(o, dflt, n):
    if not o:
        return dflt
    i = o[0]
    return max(0, i + n) if i < 0 else min(i, n)


def canon_model_reply(h, it, rep):
    """sort the set-valued parts of a model reply the way the implementation side reports them"""
    if isinstance(rep, tuple) or not isinstance(rep, list) or not rep or rep[0] != 0:
        return rep
    c = it[0]
    if c == 40 and it[2] != 10:
        return [0, sorted(rep[1])]
    if c == 48:
        return [0, sorted(rep[1])]
    if c in (41, 42):
        return [0, sorted(rep[1])]
    if c == 44:
        out = []
        for (n, p, kids) in rep[1]:
            out.append([n, p, kids if h.w.kind[n] == "IR" else sorted(kids)])
        return [0, out]
    return rep


def compare(ctx, hists, sig_prefix, stream):
    """replay all histories on the model and report the first differing item of each"""
    from common import model_batch
    reps = model_batch([[20, h.items] for h in hists])
    ndiff = 0
    for h in hists:
        for nm, n in getattr(h.w, "forms", {}).items():
            ctx.count("bulk_argument_form:" + nm, n)
        # the items the glue decodes (WorldRun.v) and the magnitudes beyond the file format, as they occur in the histories
        for it in h.items:
            if it[0] == 33:
                ctx.count("history_item:del-extended-slice(step %s)" % ("0" if it[4] == 0 else "+" if it[4] > 0 else "-"))
            elif it[0] == 51:
                ctx.count("history_item:constructed-with-parent:" + KINDS[it[2]])
            elif it[0] == 53:
                ctx.count("history_item:assignment-refused-by-the-implementation")
            elif it[0] in (15, 16) and it[2] >= (1 << 64):
                ctx.count("history_item:size-or-offset-of-2^64-and-beyond-taken")
    for h, rep in zip(hists, reps):
        if isinstance(rep, tuple):
            ctx.add("corr", sig_prefix + ":model-died", "the model driver failed on a history", {"items": h.items[:60], "stream": stream})
            continue
        for i, (it, im, mo) in enumerate(zip(h.items, h.replies, rep)):
            mo = canon_model_reply(h, it, mo)
            if mo != im:
                ndiff += 1
                ctx.add("corr", sig_prefix + ":item%d" % it[0],
                        "history item %d %s: implementation %s, model %s" % (i, _short(it), _short(im), _short(mo)),
                        {"items": h.items[: i + 1], "impl": im, "model": mo, "index": i, "stream": stream})
                break
    return ndiff


def _short(x):
    s = repr(x)
    return s if len(s) < 160 else s[:160] + "..."
