#!/usr/bin/env python3
"""Regenerate /verif/MANIFEST.json from the table below (kept in one place so it stays consistent)."""
import json
import os

VERIF = os.path.dirname(os.path.dirname(os.path.abspath(__file__)))
COMMON_NOTE = ("Trusted: Coq 8.16.1 kernel (+vm_compute, no native_compute); axioms as printed by Print Assumptions in the evidence "
               "(target: none); extraction with ExtrOcamlBasic only + ocaml/driver.ml; translators protoc_lite.py/genfacts.py; the Python "
               "harness and CPython; third-party libraries and CPython built-ins are modelled by their abstract behaviour (DESIGN.md section 4). "
               "The model is hand-written; it is tied to /repo on every run by (a) regenerated fact files gen/Schema.v, gen/PyFacts.v "
               "re-checked by coqc and (b) differential execution of the extracted model against the working-tree implementation.")

CHECKS = {
    "C15": dict(
        text="Theorems over Model/TypeName.v (a transcription of Serialization._parse_type): accepted language = grammar language, tree = "
             "grammar tree, every other string gives TypeNameError, for all lengths and depths; the same at the entry points that take a name (encode, decode, the lazy decode of a "
             "loaded table: C15_entry_points_reject). Correspondence: every route on which the API parses a name, incl. AuxData.data of loaded tables; exhaustive over a 5-letter "
             "alphabet up to length 7 (quick) / 9 (thorough) plus random grammar strings and mutations, against the working tree; "
             "independent recursive-descent oracle.",
        design="5 C15", technique="Coq proof (induction on tokens/trees) + exhaustive-small-scope differential correspondence",
        note="Known finding (recorded): names NESTED about 990 levels or deeper raise RecursionError (one frame per level); wide names (1200, 5000 parameters) are in the stream since the fix of the sibling recursion. The model's fuel (number of tokens + 1) never runs out (parse_total)."),
    "C07": dict(
        text="Theorem decode_encode: for every type tree and every value in the domain wt (all widths and bounds, all Unicode scalar "
             "strings, nested containers, every variant alternative, UUID/Offset leaves consistent with the node lookup), decode (encode v "
             "++ rest) = (v, rest); encode_total; UTF-8 layer proved bijective; float32: for every double binary32 can hold the codec returns "
             "its binary32 rounding (round-to-nearest-even, subnormals, NaN quieting), otherwise OverflowError; rounding is a projection. "
             "Correspondence + direct round-trip oracle on random "
             "types/values incl. sentinel-embedding for exact consumption and identity of resolved nodes.",
        design="5 C07", technique="Coq proof (nested induction over type trees) + differential correspondence of extracted codec",
        note="str.encode/struct.pack are CPython's: the UTF-8 and binary32 rounding models are compared with them bit for bit on every case. "
             "Set elements/mapping keys of unhashable types cannot exist in Python and are outside the domain."),
    "C08": dict(
        text="The Coq encoder is the format written from AuxData.md/AuxData.hpp; 15 clause-by-clause characterisation theorems; "
             "codec_table_conforms proves the table introspected from the working tree (regenerated each run) equals the format's. "
             "Correspondence: implementation bytes = Coq bytes = independent Python encoder bytes for every case; non-canonical legal "
             "encodings decode identically; thorough adds the repository's Java codec.",
        design="5 C08", technique="Coq proof of format characterisation + regenerated table obligation + byte-for-byte differential",
        note="C++ and Lisp implementations cannot be built here; the Coq format model and the Java codec stand in."),
    "C14": dict(
        text="Theorems over Model/AuxTable.v for all op sequences and any number of generations: untouched tables verbatim (any bytes, "
             "any type name), touched tables re-encoded from the current value under the current name, retyped-unread tables decoded "
             "under the old and encoded under the new name, unknown-involving tables keep their bytes after a read. Correspondence "
             "through real save/load of files built directly from the descriptors, IR and module level.",
        design="5 C14", technique="Coq proof over the table state machine + differential correspondence through real save/load",
        note="protobuf wire encoding of the AuxData message is the runtime's."),
}


WORLD_NOTE = ("Model/World.v is a hand transcription of the ownership code (ListWrapper/SetWrapper subclasses, parent setters, UUID table, symbol indexes, "
              "LazyIntervalTree, lookup helpers); theorems quantify over every state reachable by any history of operations inside the executable typing guard "
              "WorldGuard.op_okb (the static types of the API + pairwise distinct UUIDs). intervaltree / sortedcontainers are modelled by their abstract behaviour. "
              "The correspondence histories continue now and then on a deep copy / pickle round trip of every object (harness item 49, a no-op for the model: a copy of a state is that state). ")
PROTO_NOTE = ("Model/Proto.v transcribes every _to_protobuf/_decode_protobuf pair at message level with the staged decode order and the kind checks of the per-IR UUID table; "
              "the protobuf wire codec (Parse(Serialize(m)) = m, range checks, presence) is the runtime's and is trusted; enum tables and schema are regenerated from /repo on every run. ")

CHECKS["C03"] = dict(
    text="Theorems (Props/C03.v, 20) for every reachable state: get_by_uuid ir u = Some n <-> n reachable from ir through containment and uuid n = u; None otherwise; no leakage between IRs; "
         "the table has one entry per UUID; UUID-table deletions never hit a missing key (the only KeyErrors are the built-in ones); also along schedules with lookups interleaved; route independence (C03_route_independent: any two histories that arrive at the same nodes with the same attributes give every IR the same answer to every UUID, whatever the routes). "
         "Correspondence: random attach/detach/move histories over two IRs on the working tree and the extracted model, get_by_uuid for every pool UUID on every IR after every step; "
         "direct oracle = reachability through public containment attributes; final states saved and loaded twice. Equal UUIDs in DIFFERENT IRs (the premise as the property states it: distinct among the nodes attached to one IR) are covered by a second model, Model/TwinCache.v (per-IR tables; add / discard / ^= of the owning sets on flattened subtrees): C03_per_ir_distinct_uuids_suffice (every history whose states keep per-IR distinctness keeps every table exact and never hits a missing key), C03_ixor_two_pass_exact, C03_ixor_interleaved_refuted (the inherited ^= loses the newcomer when it carries the UUIDs of a member that leaves: defect D20), C03_ixor_interleaved_right_when_uuids_globally_distinct, C03_twin_no_leak, C03_list_assignment_with_twins (leavers first, then enterers: `ir.modules[i] = twin` is exact); request 52 replays histories over two loads of one file (members exchanged for their twins by ^= in both iteration orders, adds, discards) on model and implementation.",
    design="5 C03", technique="Coq proof (invariant CacheInv by induction over operation histories) + differential correspondence + reachability oracle",
    note=WORLD_NOTE + "The former known finding D4 (assigning into ir.modules a module already elsewhere in the same list, or named twice) was repaired upstream (fix 9a22f6d) and is inside model and streams. UUIDs are globally distinct in the model; equal UUIDs in different IRs (two loads, deep copies; a member exchanged for its twin by one ^=) are covered by the correspondence streams only.")
CHECKS["C04"] = dict(
    text="Theorems (Props/C04.v, 24) for every reachable state: c in kids p <-> parent c = p; no duplicates; single parent; kinds layered; a move removes the node from its previous owner "
         "(set add, parent attribute for all six relations, module-list insert/append); accessors are walks of the back-pointers and reach = {n | ir_of n = ir}; frame: nodes not named keep "
         "their entry. Correspondence: histories over all entry points from members / non-members / nodes owned elsewhere; after every step parents, collections, accessors, aggregate "
         "iterators; direct oracle = forest consistency by set comparison; default-argument sharing probes.",
    design="5 C04", technique="Coq proof (invariant Forest by induction over operation histories, effect lemmas per operation) + differential correspondence + forest oracle",
    note=WORLD_NOTE + "Aggregate iterators and constructor-argument copying are checked by the harness oracle (the model has no shared mutable defaults to get wrong). Same-list / repeated-value assignment (former finding D4) as for C03.")
CHECKS["C05"] = dict(
    text="Theorems (Props/C05.v, 24) for every reachable state and every query (and C05_route_independent: any two histories arriving at the same structure give the four interval-scope lookups the same blocks): the four interval-scope lookups return exactly the blocks satisfying the on/at criterion, each once; nothing without "
         "an address; code/data filters exact; section/module/IR scope: exact composition through byte_intervals_on plus the envelope (sound, complete inside the interval's extent, no duplicates). "
         "Correspondence: edit histories with bursts, boundary queries +-1, steps 1-3, zero-sized and overlapping blocks; exact comparison with the model; direct oracle = fresh scan (envelope above interval scope).",
    design="5 C05", technique="Coq proof (Sync invariant of the lazy trees + exactness of the tree search) + differential correspondence + fresh-scan oracle",
    note=WORLD_NOTE)
CHECKS["C06"] = dict(
    text="Theorems (Props/C06.v, 18) for every reachable state: byte_intervals_on/at exact at section, module, IR scope; Section.address/size = (lowest address, highest end - lowest address), None unless "
         "non-empty and all addressed; sections_on/at exact over the derived extents. Correspondence and fresh-scan oracle as C05 with interval-level edits weighted up (address to/from None, bursts).",
    design="5 C06", technique="Coq proof (Sync invariant + extent characterisation) + differential correspondence + fresh-scan oracle",
    note=WORLD_NOTE)
CHECKS["C10"] = dict(
    text="Theorems (Props/C10.v, 8) for every reachable state: symbols_named m s = exactly the symbols of m named s, each once (incl. the empty name); references b = exactly the symbols of b's current "
         "module whose referent is b, empty without a module; route independence (C10_route_independent: two histories -- any two -- arriving at the same nodes, attributes and collection members answer both lookups with the same symbols, each once, although the indexes themselves, lists in insertion order, differ: C10_route_independent_example). Correspondence: renames, payload switches block/proxy/int incl. 0/None, symbol and block moves; direct oracle = comprehension over module.symbols.",
    design="5 C10", technique="Coq proof (index invariant SymIx + FreshIx by induction over histories) + differential correspondence + scan oracle",
    note=WORLD_NOTE)
CHECKS["C12"] = dict(
    text="Theorems (Props/C12.v, 10): for any two schedules (operations with arbitrary lookups interleaved) with the same operations, the final structures coincide and every lookup gives the same answer "
         "(same set, no duplicates; equal lists/values where order is determined); lookups only ever change the tree component; SyncAll holds in every reachable state. "
         "Correspondence: one history under several lookup placements incl. bursts around the rebuild threshold: answers identical across placements and equal to the model's and to a fresh scan.",
    design="5 C12", technique="Coq proof (schedule independence: strip-congruence of every step + exactness of lookups) + differential correspondence across schedules",
    note=WORLD_NOTE)
CHECKS["C13"] = dict(
    text="Theorems (Props/C13.v, 15) for every reachable state: the expression map iterates by strictly ascending offset; symbolic_expressions_at(_offset) on an interval = exactly one triple per stored "
         "expression whose address/offset is in the query, ascending, nothing without an address; section/module/IR scope: sound, complete inside the extent, no duplicates. "
         "Correspondence: mapping-op histories with address changes and moves; yielded order observed; fresh-scan oracle.",
    design="5 C13", technique="Coq proof (sortedness invariant + exactness of the range scan) + differential correspondence + fresh-scan oracle",
    note=WORLD_NOTE)
CHECKS["C16"] = dict(
    text="Theorems (Props/C16.v, 58) for reachable states: each of the ten set methods yields the Python set result (KeyError exactly when the built-in raises); every module-list method yields the list "
         "result -- a module that the list already holds is moved to where the built-in puts it, one that another IR holds leaves that IR -- (ValueError/IndexError exactly when the built-in raises); the expression map refines dict with iteration by offset; moved-not-duplicated, also for item / slice assignment of a module the list already holds or one named twice (C16_same_list_assignment_moves: kept at the last position assigned, the others keep their order); "
         "a failed operation leaves the state (and the invariant) unchanged; the read-only sequence interface (index with bounds, count, in, [i], [a:b:c], reversed) of the module list is "
         "Python's (Model/SeqOps.v: first position inside the clamped bounds, IndexError exactly outside [-len, len), slice positions s, s+c, ... as slice.indices gives them); the non-mutating set operators and comparisons inherited from collections.abc.Set (Model/SetAlg.v) are the mathematical ones on duplicate-free member lists. Correspondence + lock-step shadows: every call also made on built-in list/set/dict, incl. mixins, operators with plain sets on either "
         "side, explicit-step slices, foreign-kind and non-node arguments, out-of-range indices.",
    design="5 C16", technique="Coq proof (refinement of built-in semantics by effect lemmas) + differential correspondence + built-in shadow oracle",
    note=WORLD_NOTE + "Non-mutating operators return plain sets since the upstream fix 12e88c6; their values are modelled by Model/SetAlg.v (the Set mixins), the result TYPE is judged by the shadow oracle only. Same-list item/slice assignment (the former finding D4, repaired by fix 9a22f6d) is modelled by ml_assign / assign_slice and stated as C16_same_list_assignment_moves; extended-slice assignment (l[a:b:c] = vs, c other than 1) is the operation OModSetExt (assign_ext on the positions slice.indices gives; C16_modlist_setslice_extended: ValueError exactly for step 0 and for a size mismatch, with nothing touched; otherwise no duplicate, ownership consistent, and the built-in list's result -- read back by l[a:b:c] -- exactly when the values are distinct and none stays at an unassigned position). Deletion of an extended slice (del l[a:b:c], any step) is Model/DelExt.v -- the positions of slice.indices / range deleted from the highest down, each through the guarded single deletion, so every intermediate state is a reachable one -- and C16_modlist_delslice_extended (+ _members, _list, _step_zero, _step_one, _reverse_all, _example): the list afterwards is the built-in's (the elements at unselected positions, in their order), exactly the selected modules are detached, ValueError for step 0, step 1 coincides with the ordinary slice deletion. World histories also construct nodes WITH their parent (item 51 = new + attach, decoded by the glue) and attempt magnitudes of 2^64 and beyond for block sizes / offsets (taken, or refused with nothing changed: item 53).")
CHECKS["C11"] = dict(
    text="Theorems (Props/C11.v, 22) over Model/Cfg.v (cfg.py as coded: _edge_key, guarded add, keyed discard, the MutableSet mixins transcribed from CPython): every state reachable by any "
         "sequence of operations is a duplicate-free set of (source, target, label) triples; each operation is exactly the mathematical set operation and fails exactly when the built-in set would; "
         "membership/len/iteration agree with the set; add-present and discard-absent are identities; parallel edges differing in label coexist; out_edges/in_edges and CfgNode.outgoing/incoming_edges are "
         "exactly the edges with that source/target. Correspondence: random histories on the working tree and the extracted model with a shadow-set oracle, all adjacency views after every step.",
    design="5 C11", technique="Coq proof (set refinement, invariant over all histories) + differential correspondence + shadow-set oracle",
    note="networkx.MultiDiGraph is modelled by its abstract content (keyed edge list; new keys only need to be unused); iteration order is not modelled (pop takes the implementation's choice as witness).")
CHECKS["C19"] = dict(
    text="Theorems (Props/C19.v, 14) over Model/ByteStore.v: initialized_size = stored byte count; the constructor rejects init > size and establishes the invariant; initialized_size pads with zeros or truncates "
         "and grows the size when beyond it; any size assignment leaves at most that many stored bytes; stored bytes <= size after ANY sequence of size / initialized_size assignments (any non-negative values), byte "
         "edits and in-size contents assignments, and the store always reloads to itself; block address/contents/contains_* characterised. Correspondence: constructor arguments and assignment histories on the working "
         "tree and the extracted model, every observation compared; direct oracle = the property's sentences; real save/load.",
    design="5 C19", technique="Coq proof (invariant by induction over assignment histories) + differential correspondence + direct oracle",
    note="Domain: non-negative sizes/offsets; a direct assignment of `contents` longer than the size is outside the property (the model still follows it, so a later size assignment is checked to truncate). "
         "bytearray semantics and the protobuf runtime are CPython's/protobuf's.")
CHECKS["C01"] = dict(
    text="Theorems (Props/C01.v, 8): wf c -> from_proto (to_proto c) = Ok c for ALL contents (any size, every boundary value, None vs 0, label None vs all-false), through the file header, re-save identical, "
         "deep_eq both ways; the recorded finding as C01_entry_point_in_later_module_refuted. Correspondence: random self-contained IRs built through the API (boundary catalogue) saved and loaded: content equality on "
         "public attributes, deep_eq both ways, AuxData values with node identity, re-save equality; the model's load(save(content)) must agree.",
    design="5 C01", technique="Coq proof (round trip through the staged reader, invariant of the UUID table) + differential correspondence + content oracle",
    note=PROTO_NOTE + "Premise wf = the property's premise with entry points / referents / expression symbols resolvable in decode order and version = PROTOBUF_VERSION. Known finding D7: an entry point in a LATER module saves but does not load.")
CHECKS["C02"] = dict(
    text="Theorems (Props/C02.v, 24): header layout; per-message writer characterisation (has_address <-> address is not None, payload one-ofs, entry_point empty iff None, label present iff not None, vertices = all code "
         "blocks and proxies, 16-byte UUIDs); reader: whoever wrote an accepted message, to_proto (loaded content) = the message up to set normalisation; obligations over the REGENERATED tables: every schema enum constant "
         "has a Python member and vice versa (7 enums), versions agree, every schema field of every message is modelled (a field added to the schema breaks the obligation). Correspondence: W and R streams separately "
         "against classes built from /repo/proto, plus direct Python statements of the field correspondence.",
    design="5 C02", technique="Coq proof (field characterisation + finite-table obligations over regenerated schema/enum facts) + two separate differential streams",
    note=PROTO_NOTE)
CHECKS["C09"] = dict(
    text="Theorems (Props/C09.v, 13) at UUID level: in an accepted message each UUID denotes one node, every reference names a node of the loaded IR of an admissible kind (per reference kind), dangling / ill-typed "
         "references give DeserializationError, wrong lengths ValueError, a UUID defined twice is rejected. Identity (`is`) of referents, entry points, CFG endpoints, expression symbols and AuxData UUID/Offset entries "
         "is OBSERVED on the implementation for every loaded file of both streams; every reference site made dangling / ill-typed / nil / wrong length one at a time.",
    design="5 C09", technique="Coq proof of typed, closed resolution at UUID level + fault enumeration over every reference site + identity observation",
    note=PROTO_NOTE + "PARTIAL: object identity is a fact about CPython allocation that a UUID-keyed model cannot express; that half of the property is exploration (observation on every generated file), not proof.")
CHECKS["C17"] = dict(
    text="Theorems (Props/C17.v, 27): whatever message the reader accepts is coherent (unique UUIDs, typed closed references, bytes <= size, valid enums) and can be saved and reloaded to itself; the reader's only "
         "outcomes are Ok or ValueError / DeserializationError / TypeError (structural recursion: total); rejection class per fault; header gate; saved files accepted. Fault enumeration on the implementation: every "
         "structural fault at every site (incl. one UUID on two or three nodes, a node with an ancestor's UUID), every header variation, every truncation / bit flips / substitutions of valid files, each outcome judged by the coherence oracle.",
    design="5 C17", technique="Coq proof (accept => coherent, total reader, rejection classes) + fault enumeration with coherence oracle",
    note=PROTO_NOTE + "PARTIAL at wire level: arbitrary BYTES are the protobuf parser's domain (outside the model; fault enumeration only); 'never hangs' is a 20 s alarm per input.")
CHECKS["C18"] = dict(
    text="Theorems (Props/C18.v, 26): deq_ok a -> deq_ok b -> (ir_deq a b = true <-> norm a = norm b) where norm is the content with every set-valued child list in canonical order and AuxData values erased; "
         "reflexive, symmetric, order-insensitive, any difference of a compared field gives false, AuxData values ignored; per-level iff lemmas; the two extra clauses of deq_ok shown necessary by refutations. "
         "Correspondence: save/load copies, one perturbation from a 74-kind catalogue, neutral changes (AuxData values, module order, insertion orders incl. parallel edges) against ir_deq both ways and the content oracle.",
    design="5 C18", technique="Coq proof (deep_eq iff equality of normal forms) + differential correspondence over a full perturbation catalogue",
    note=PROTO_NOTE + "Domain deq_ok: UUIDs distinct within an IR, references resolvable, AuxData keys distinct (dict keys), data blocks carry no decode mode; implied by wf + aux_keys_ok.")

NOT_YET = {}


def main():
    props = [json.loads(l)["id"] for l in open(os.path.join(VERIF, "properties.jsonl"))]
    checks = []
    for pid in props:
        if pid not in CHECKS:
            continue
        c = CHECKS[pid]
        checks.append({
            "property_id": pid,
            "quick_cmd": "harness/check.py %s --tier quick" % pid,
            "thorough_cmd": "harness/check.py %s --tier thorough" % pid,
            "evidence_file": "/verif/evidence/%s.json" % pid,
            "replay_cmd_template": "harness/check.py %s --replay {path}" % pid,
            "engine": "coq-model+extracted-driver",
            "level_claimed": {"category": c.get("category", "proof"), "text": c["text"], "design_ref": "DESIGN.md section " + c["design"]},
            "level_note": c["note"] + " " + COMMON_NOTE,
            "technique": c["technique"],
        })
    na = [{"property_id": p, "reason": NOT_YET.get(p, "check under construction in this round: model and correspondence not yet committed; see DESIGN.md section 5")}
          for p in props if p not in CHECKS]
    man = {
        "version": 1,
        "setup_cmd": "harness/setup.sh",
        "hooks": {"guard": "GTIRB_VERIF", "enable": "no source hooks are needed: every observation uses the public API; checks export GTIRB_VERIF=1 for uniformity",
                  "baseline_off_cmd": "cd /repo && /venv/bin/python -m pytest -ra -q -p no:cacheprovider --timeout=900 --continue-on-collection-errors",
                  "source_commits": [], "add_only": True},
        "engines": [{"name": "coq-model+extracted-driver", "path": "/verif/coq, /verif/ocaml, /verif/harness",
                     "serves_properties": [c["property_id"] for c in checks],
                     "kind_free_text": "Gallina models + theorems (coqc), extracted to OCaml and run differentially against the working-tree Python"}],
        "checks": checks,
        "not_applicable": na,
        "notes": "fix: commits in /repo and known findings are listed in /verif/KNOWN_FINDINGS.txt; see DESIGN.md section 6.",
    }
    with open(os.path.join(VERIF, "MANIFEST.json"), "w") as f:
        json.dump(man, f, indent=1)
    print("MANIFEST.json: %d checks, %d not_applicable" % (len(checks), len(na)))


if __name__ == "__main__":
    main()
