#!/usr/bin/env python3
"""Regenerate /verif/MANIFEST.json from the table below (kept in one place so it stays consistent)."""
import json
import os

VERIF = os.path.dirname(os.path.dirname(os.path.abspath(__file__)))
COMMON_NOTE = ("Trusted: Coq 8.16.1 kernel (+vm_compute, no native_compute); axioms as printed by Print Assumptions in the evidence "
               "(target: none); extraction with ExtrOcamlBasic only + ocaml/driver.ml; translators protoc_lite.py/genfacts.py; the Python "
               "harness and CPython; third-party libraries and CPython built-ins are modelled by their abstract behaviour (DESIGN.md section 4). "
               "The model is hand-written; it is tied to /repo on every run by (a) regenerated fact files gen/Schema.v, gen/PyFacts.v "
               "re-checked by coqc and (b) differential execution of the extracted model against the working-tree implementation.")

CHECKS = {
    "C15": dict(
        text="Theorems over Model/TypeName.v (a transcription of Serialization._parse_type): accepted language = grammar language, tree = "
             "grammar tree, every other string gives TypeNameError, for all lengths and depths. Correspondence: exhaustive over a 5-letter "
             "alphabet up to length 7 (quick) / 9 (thorough) plus random grammar strings and mutations, against the working tree; "
             "independent recursive-descent oracle.",
        design="5 C15", technique="Coq proof (induction on tokens/trees) + exhaustive-small-scope differential correspondence",
        note="CPython's recursion limit (deep/wide names -> RecursionError) is outside the model; generated names stay below 300 levels."),
    "C07": dict(
        text="Theorem decode_encode: for every type tree and every value in the domain wt (all widths and bounds, all Unicode scalar "
             "strings, nested containers, every variant alternative, UUID/Offset leaves consistent with the node lookup), decode (encode v "
             "++ rest) = (v, rest); encode_total; UTF-8 layer proved bijective. Correspondence + direct round-trip oracle on random "
             "types/values incl. sentinel-embedding for exact consumption and identity of resolved nodes.",
        design="5 C07", technique="Coq proof (nested induction over type trees) + differential correspondence of extracted codec",
        note="Partial where CPython converts: float32 rounding is modelled (Float32.v) and compared bit for bit on every case but the "
             "theorem covers binary32-representable inputs; str.encode/struct are CPython's. Set elements/mapping keys of unhashable "
             "types cannot exist in Python and are outside the domain."),
    "C08": dict(
        text="The Coq encoder is the format written from AuxData.md/AuxData.hpp; 15 clause-by-clause characterisation theorems; "
             "codec_table_conforms proves the table introspected from the working tree (regenerated each run) equals the format's. "
             "Correspondence: implementation bytes = Coq bytes = independent Python encoder bytes for every case; non-canonical legal "
             "encodings decode identically; thorough adds the repository's Java codec.",
        design="5 C08", technique="Coq proof of format characterisation + regenerated table obligation + byte-for-byte differential",
        note="C++ and Lisp implementations cannot be built here; the Coq format model and the Java codec stand in."),
    "C14": dict(
        text="Theorems over Model/AuxTable.v for all op sequences and any number of generations: untouched tables verbatim (any bytes, "
             "any type name), touched tables re-encoded from the current value under the current name, retyped-unread tables decoded "
             "under the old and encoded under the new name, unknown-involving tables keep their bytes after a read. Correspondence "
             "through real save/load of files built directly from the descriptors, IR and module level.",
        design="5 C14", technique="Coq proof over the table state machine + differential correspondence through real save/load",
        note="protobuf wire encoding of the AuxData message is the runtime's."),
}

NOT_YET = {}


def main():
    props = [json.loads(l)["id"] for l in open(os.path.join(VERIF, "properties.jsonl"))]
    checks = []
    for pid in props:
        if pid not in CHECKS:
            continue
        c = CHECKS[pid]
        checks.append({
            "property_id": pid,
            "quick_cmd": "harness/check.py %s --tier quick" % pid,
            "thorough_cmd": "harness/check.py %s --tier thorough" % pid,
            "evidence_file": "/verif/evidence/%s.json" % pid,
            "replay_cmd_template": "harness/check.py %s --replay {path}" % pid,
            "engine": "coq-model+extracted-driver",
            "level_claimed": {"category": c.get("category", "proof"), "text": c["text"], "design_ref": "DESIGN.md section " + c["design"]},
            "level_note": c["note"] + " " + COMMON_NOTE,
            "technique": c["technique"],
        })
    na = [{"property_id": p, "reason": NOT_YET.get(p, "check under construction in this round: model and correspondence not yet committed; see DESIGN.md section 5")}
          for p in props if p not in CHECKS]
    man = {
        "version": 1,
        "setup_cmd": "harness/setup.sh",
        "hooks": {"guard": "GTIRB_VERIF", "enable": "no source hooks are needed: every observation uses the public API; checks export GTIRB_VERIF=1 for uniformity",
                  "baseline_off_cmd": "cd /repo && /venv/bin/python -m pytest -ra -q -p no:cacheprovider --timeout=900 --continue-on-collection-errors",
                  "source_commits": [], "add_only": True},
        "engines": [{"name": "coq-model+extracted-driver", "path": "/verif/coq, /verif/ocaml, /verif/harness",
                     "serves_properties": [c["property_id"] for c in checks],
                     "kind_free_text": "Gallina models + theorems (coqc), extracted to OCaml and run differentially against the working-tree Python"}],
        "checks": checks,
        "not_applicable": na,
        "notes": "fix: commits in /repo and known findings are listed in /verif/KNOWN_FINDINGS.txt; see DESIGN.md section 6.",
    }
    with open(os.path.join(VERIF, "MANIFEST.json"), "w") as f:
        json.dump(man, f, indent=1)
    print("MANIFEST.json: %d checks, %d not_applicable" % (len(checks), len(na)))


if __name__ == "__main__":
    main()
