#!/usr/bin/env python3
"""Regenerate /verif/MANIFEST.json from the table below (kept in one place so it stays consistent)."""
import json
import os

VERIF = os.path.dirname(os.path.dirname(os.path.abspath(__file__)))
COMMON_NOTE = ("Trusted: Coq 8.16.1 kernel (+vm_compute, no native_compute); axioms as printed by Print Assumptions in the evidence "
               "(target: none); extraction with ExtrOcamlBasic only + ocaml/driver.ml; translators protoc_lite.py/genfacts.py; the Python "
               "harness and CPython; third-party libraries and CPython built-ins are modelled by their abstract behaviour (DESIGN.md section 4). "
               "The model is hand-written; it is tied to /repo on every run by (a) regenerated fact files gen/Schema.v, gen/PyFacts.v "
               "re-checked by coqc and (b) differential execution of the extracted model against the working-tree implementation.")

CHECKS = {
    "C15": dict(
        text="Theorems over Model/TypeName.v (a transcription of Serialization._parse_type): accepted language = grammar language, tree = "
             "grammar tree, every other string gives TypeNameError, for all lengths and depths. Correspondence: exhaustive over a 5-letter "
             "alphabet up to length 7 (quick) / 9 (thorough) plus random grammar strings and mutations, against the working tree; "
             "independent recursive-descent oracle.",
        design="5 C15", technique="Coq proof (induction on tokens/trees) + exhaustive-small-scope differential correspondence",
        note="CPython's recursion limit (deep/wide names -> RecursionError) is outside the model; generated names stay below 300 levels."),
    "C07": dict(
        text="Theorem decode_encode: for every type tree and every value in the domain wt (all widths and bounds, all Unicode scalar "
             "strings, nested containers, every variant alternative, UUID/Offset leaves consistent with the node lookup), decode (encode v "
             "++ rest) = (v, rest); encode_total; UTF-8 layer proved bijective. Correspondence + direct round-trip oracle on random "
             "types/values incl. sentinel-embedding for exact consumption and identity of resolved nodes.",
        design="5 C07", technique="Coq proof (nested induction over type trees) + differential correspondence of extracted codec",
        note="Partial where CPython converts: float32 rounding is modelled (Float32.v) and compared bit for bit on every case but the "
             "theorem covers binary32-representable inputs; str.encode/struct are CPython's. Set elements/mapping keys of unhashable "
             "types cannot exist in Python and are outside the domain."),
    "C08": dict(
        text="The Coq encoder is the format written from AuxData.md/AuxData.hpp; 15 clause-by-clause characterisation theorems; "
             "codec_table_conforms proves the table introspected from the working tree (regenerated each run) equals the format's. "
             "Correspondence: implementation bytes = Coq bytes = independent Python encoder bytes for every case; non-canonical legal "
             "encodings decode identically; thorough adds the repository's Java codec.",
        design="5 C08", technique="Coq proof of format characterisation + regenerated table obligation + byte-for-byte differential",
        note="C++ and Lisp implementations cannot be built here; the Coq format model and the Java codec stand in."),
    "C14": dict(
        text="Theorems over Model/AuxTable.v for all op sequences and any number of generations: untouched tables verbatim (any bytes, "
             "any type name), touched tables re-encoded from the current value under the current name, retyped-unread tables decoded "
             "under the old and encoded under the new name, unknown-involving tables keep their bytes after a read. Correspondence "
             "through real save/load of files built directly from the descriptors, IR and module level.",
        design="5 C14", technique="Coq proof over the table state machine + differential correspondence through real save/load",
        note="protobuf wire encoding of the AuxData message is the runtime's."),
}


WORLD_NOTE = ("The World model (coq/Model/World.v) is a hand transcription of the ownership code; its invariants are stated in coq/Proofs/InvDefs.v. ")
_INTERIM = "INTERIM LEVEL: the invariant proofs for the World model are being written; until Props/%s.v holds the full theorems this check decides the property by differential execution of the extracted Coq model against the working tree plus a direct fresh-scan oracle, which is exploration, not proof."
for _pid, _what, _sec in [
    ("C03", "get_by_uuid versus reachability through the public containment attributes after every operation of random attach/detach/move histories over two IRs, and on IRs loaded twice from saved files", "5 C03"),
    ("C04", "two-ended consistency, single parent, no duplicates, derived accessors and aggregate iterators after every operation of random histories over all entry points; default-argument sharing probes", "5 C03/C04"),
    ("C05", "all block lookups at all four scopes against a fresh scan (exact at interval scope, envelope above) after random edit histories, boundary queries +-1", "5 C05"),
    ("C06", "byte_intervals_on/at, sections_on/at and Section.address/size against a fresh scan after random edit histories", "5 C06"),
    ("C10", "symbols_named and references against a comprehension over module.symbols after renames, payload switches and moves", "5 C10"),
    ("C12", "one edit history replayed under different lookup schedules (none, every step, random, bursts around the rebuild threshold): final answers identical and equal to the model's", "5 C12"),
    ("C13", "symbolic_expressions_at(_offset) at all scopes against a fresh scan, yielded order checked, after mapping-op histories", "5 C13"),
    ("C16", "every method of the MutableSequence/MutableSet/MutableMapping interfaces in lock-step with built-in list/set/dict shadows, arguments from members, non-members and nodes owned elsewhere", "5 C16"),
]:
    CHECKS[_pid] = dict(category="exploration", text="Correspondence of the extracted Coq World model with the working tree and direct oracle: " + _what + ".",
                        design=_sec, technique="differential execution of extracted Coq model + direct oracle (Coq invariant proofs in progress)",
                        note=WORLD_NOTE + _INTERIM % _pid)

CHECKS["C11"] = dict(
    text="Theorems over Model/Cfg.v (cfg.py as coded: _edge_key, guarded add, keyed discard, the MutableSet mixins transcribed from CPython): every state reachable by any "
         "sequence of operations is a duplicate-free set of (source, target, label) triples; each operation is exactly the mathematical set operation and fails exactly when "
         "the built-in set would; membership/len/iteration agree with the set; add-present and discard-absent are identities; parallel edges differing in label coexist; "
         "out_edges/in_edges and CfgNode.outgoing/incoming_edges are exactly the edges with that source/target. Correspondence: random histories on the working tree and the "
         "extracted model with a shadow-set oracle, all adjacency views after every step.",
    design="5 C11", technique="Coq proof (set refinement, invariant over all histories) + differential correspondence + shadow-set oracle",
    note="networkx.MultiDiGraph is modelled by its abstract content (keyed edge list; new keys only need to be unused); iteration order is not modelled (pop takes the implementation's choice as witness). ")
CHECKS["C19"] = dict(
    text="Theorems over Model/ByteStore.v (constructor check, size/initialized_size setters as coded, block views): initialized_size = stored byte count; the constructor "
         "rejects init > size and establishes the invariant; initialized_size pads with zeros or truncates; shrinking size truncates; stored bytes <= size after ANY sequence of "
         "assignments (induction over histories) and the store always reloads to itself; block address/contents/contains_* characterised. Correspondence: the same constructor "
         "arguments and assignment histories on the working tree and the extracted model, every observation compared; direct oracle = the property's sentences; real save/load.",
    design="5 C19", technique="Coq proof (invariant by induction over assignment histories) + differential correspondence + direct oracle",
    note="Domain: non-negative sizes/offsets, initialized_size assignments within the declared size (the property's 'such assignments'); direct assignment of a longer `contents` is outside the property. "
         "bytearray semantics and the protobuf runtime are CPython's/protobuf's.")

PROTO_NOTE = ("Model/Proto.v transcribes every _to_protobuf/_decode_protobuf pair at message level with the staged decode order and the kind checks of the per-IR UUID table; "
              "the protobuf wire codec is the runtime's (trusted). ")
for _pid, _txt, _sec in [
    ("C01", "RT stream: random self-contained IRs built through the public API (boundary catalogue) saved and loaded: content equality on public attributes, deep_eq both ways, AuxData type names and decoded values with node identity, re-save equality; load(save(content)) on the extracted Coq model must agree.", "5 C01"),
    ("C02", "W stream: bytes written by save parsed with classes built from /repo/proto and compared field by field with to_proto(content) of the Coq model and with a direct Python statement of the schema correspondence; R stream: messages built directly from the descriptors (one per declared enum constant + random closed messages) loaded and compared with from_proto(message) and with the direct statement.", "5 C02"),
    ("C09", "Identity (`is`) of referents, entry points, CFG endpoints, expression symbols and AuxData UUID/Offset entries against get_by_uuid/containment on loaded files from both streams; every reference site of valid messages made dangling / ill-typed / wrong length one at a time: DeserializationError (ValueError for bad lengths), as the Coq reader model decides.", "5 C09"),
    ("C17", "Fault enumeration: every single structural fault class at every site of valid messages (outcome class against the property's table and the Coq reader model; coherence oracle on anything load returns), every header variation, every truncation / bit flips / substitutions of valid files, acceptance of every saved file.", "5 C17"),
    ("C18", "Pairs (save/load copy, one perturbation from a 74-kind catalogue covering every compared field of every class, neutral changes) judged by content equality and compared with ir_deq of Model/DeepEq.v in both directions and with its specification norm a = norm b; node-level reflexivity/symmetry/other-kind calls.", "5 C18"),
]:
    CHECKS[_pid] = dict(category="exploration" if _pid not in ("C17",) else "fault_enumeration", text=_txt, design=_sec,
                        technique="differential execution of extracted Coq model + direct oracle (Coq proofs in progress)",
                        note=PROTO_NOTE + _INTERIM % _pid)

NOT_YET = {}


def main():
    props = [json.loads(l)["id"] for l in open(os.path.join(VERIF, "properties.jsonl"))]
    checks = []
    for pid in props:
        if pid not in CHECKS:
            continue
        c = CHECKS[pid]
        checks.append({
            "property_id": pid,
            "quick_cmd": "harness/check.py %s --tier quick" % pid,
            "thorough_cmd": "harness/check.py %s --tier thorough" % pid,
            "evidence_file": "/verif/evidence/%s.json" % pid,
            "replay_cmd_template": "harness/check.py %s --replay {path}" % pid,
            "engine": "coq-model+extracted-driver",
            "level_claimed": {"category": c.get("category", "proof"), "text": c["text"], "design_ref": "DESIGN.md section " + c["design"]},
            "level_note": c["note"] + " " + COMMON_NOTE,
            "technique": c["technique"],
        })
    na = [{"property_id": p, "reason": NOT_YET.get(p, "check under construction in this round: model and correspondence not yet committed; see DESIGN.md section 5")}
          for p in props if p not in CHECKS]
    man = {
        "version": 1,
        "setup_cmd": "harness/setup.sh",
        "hooks": {"guard": "GTIRB_VERIF", "enable": "no source hooks are needed: every observation uses the public API; checks export GTIRB_VERIF=1 for uniformity",
                  "baseline_off_cmd": "cd /repo && /venv/bin/python -m pytest -ra -q -p no:cacheprovider --timeout=900 --continue-on-collection-errors",
                  "source_commits": [], "add_only": True},
        "engines": [{"name": "coq-model+extracted-driver", "path": "/verif/coq, /verif/ocaml, /verif/harness",
                     "serves_properties": [c["property_id"] for c in checks],
                     "kind_free_text": "Gallina models + theorems (coqc), extracted to OCaml and run differentially against the working-tree Python"}],
        "checks": checks,
        "not_applicable": na,
        "notes": "fix: commits in /repo and known findings are listed in /verif/KNOWN_FINDINGS.txt; see DESIGN.md section 6.",
    }
    with open(os.path.join(VERIF, "MANIFEST.json"), "w") as f:
        json.dump(man, f, indent=1)
    print("MANIFEST.json: %d checks, %d not_applicable" % (len(checks), len(na)))


if __name__ == "__main__":
    main()
