"""Shared streams of the save/load properties (C01, C02, C09, C17): writer stream W, reader stream R, round trip RT."""
import io
import os

import auxval
import content
import gtirb_from_repo
import irgen
from common import ERR_CODES, exc_name, model_batch, time_limit, ImplTimeout

CODE_OF_ERR = {v: k for k, v in ERR_CODES.items()}


def schema_enums():
    """schema enum name (without package) -> declared numbers, from the descriptors built from /repo/proto"""
    out = {}
    pool = gtirb_from_repo.pool()
    for fname in ("CFG", "CodeBlock", "Module", "Section", "SymbolicExpression"):
        fd = pool.FindFileByName(fname + ".proto")
        for name, ed in fd.enum_types_by_name.items():
            out[name] = [v.number for v in ed.values]
    return out


def save_bytes(ir):
    buf = io.BytesIO()
    ir.save_protobuf_file(buf)
    return buf.getvalue()


def load_bytes(g, bs, limit=20.0):
    with time_limit(limit):
        return g.IR.load_protobuf_file(io.BytesIO(bs))


def parse_body(bs):
    p = gtirb_from_repo.msg("IR")()
    p.ParseFromString(bs[8:])
    return p


def is_d7(g, ir):
    """entry point naming a code block of a LATER module (recorded finding D7)"""
    mods = list(ir.modules)
    pos = {id(m): i for i, m in enumerate(mods)}
    for i, m in enumerate(mods):
        e = m.entry_point
        if e is not None and e.module is not None and pos.get(id(e.module), -1) > i:
            return True
    return False


# ------------------------------------------------------------------------------------------
class Batch:
    """collect model requests together with the continuation that judges the reply"""

    def __init__(self):
        self.reqs, self.conts = [], []

    def ask(self, req, cont):
        self.reqs.append(req)
        self.conts.append(cont)

    def run(self):
        reps = model_batch(self.reqs)
        for rep, cont in zip(reps, self.conts):
            cont(rep)


def writer_stream(ctx, g, batch, ir, auxinfo, tag):
    """W: bytes written by save, parsed with the schema-built classes, must equal header ++ to_proto(content) field by field"""
    try:
        bs = save_bytes(ir)
    except Exception as e:  # noqa: BLE001
        import traceback, sys
        if os.environ.get("VERIF_DEBUG_TB"):
            traceback.print_exc(file=sys.stderr)
        ctx.add("oracle", "writer:save-raised", "save of a self-contained IR raised %s: %s" % (exc_name(g, e), str(e)[:100]), {"tag": tag, "where": traceback.format_exc()[-600:]})
        return None
    c = content.content_of(g, ir)
    msg = content.canon_msg(content.msg_to_sx(parse_body(bs)))
    # direct oracle on AuxData bytes: the independent encoder of the documented format
    want_aux = {}
    for cont, key, t, v in auxinfo:
        env = irgen.AuxEnv(g, ir, ctx.rng)
        if t[0] == "__raw__":
            want_aux[(content.U(cont), key)] = (t[1], list(bytes(v)))
            continue
        want_aux[(content.U(cont), key)] = (auxval.type_str(t), auxval.oracle_encode(t, v, env))
    p = parse_body(bs)
    for holder, mp in [(content.U(ir), p.aux_data)] + [(int.from_bytes(m.uuid, "big"), m.aux_data) for m in p.modules]:
        for k, a in mp.items():
            w = want_aux.get((holder, k))
            if w is None:
                ctx.add("oracle", "writer:aux-extra", "AuxData table %r written but not present in the IR" % k, {"tag": tag})
            elif (a.type_name, list(a.data)) != (w[0], w[1]):
                ctx.add("oracle", "writer:aux-bytes", "AuxData table %r: written %s %s, the format prescribes %s %s" % (k, a.type_name, a.data.hex(), w[0], bytes(w[1]).hex()),
                        {"tag": tag, "file": bs.hex()})
        ctx.count("aux_tables_checked", len(mp))
    nwritten = len(p.aux_data) + sum(len(m.aux_data) for m in p.modules)
    if nwritten != len(want_aux):
        ctx.add("oracle", "writer:aux-missing", "%d AuxData tables written, the IR holds %d" % (nwritten, len(want_aux)), {"tag": tag})
    # vertex list names every CFG node of the IR (direct oracle)
    want_v = sorted(list(n.uuid.bytes) for n in ir.cfg_nodes)
    if sorted(list(v) for v in p.cfg.vertices) != want_v:
        ctx.add("oracle", "writer:vertices", "cfg.vertices does not name exactly the CFG nodes of the IR", {"tag": tag, "file": bs.hex()})

    # direct oracle: every field equals the corresponding attribute (Python statement of the schema correspondence)
    want_d = content.canon_msg(content.expected_msg(c), strip_aux_data=True)
    got_d = content.canon_msg(content.msg_to_sx(parse_body(bs)), strip_aux_data=True)
    if want_d != got_d:
        ctx.add("oracle", "writer-field:" + first_diff_path(want_d, got_d),
                "a written field differs from the attribute it must carry, at %s" % first_diff_path(want_d, got_d),
                {"tag": tag, "file": bs.hex(), "diff": first_diff(want_d, got_d), "content": c})
    if bs[:8] != b"GTIRB\0\0" + bytes([g.version.PROTOBUF_VERSION]):
        ctx.add("oracle", "writer:header", "file starts with %s" % bs[:8].hex(), {"tag": tag, "file": bs[:16].hex()})

    def judge(rep):
        if isinstance(rep, tuple) or rep[0] != 0:
            ctx.add("corr", "writer:model-failed", "model failed on the writer request: %r" % (rep,), {"tag": tag, "content": c})
            return
        _, hdr, pm, wf = rep
        if list(bs[:8]) != hdr:
            ctx.add("oracle", "writer:header", "file starts with %s, expected %s" % (bs[:8].hex(), bytes(hdr).hex()), {"tag": tag, "file": bs[:16].hex()})
        want = content.canon_msg(pm, strip_aux_data=True)
        got = content.canon_msg(content.msg_to_sx(parse_body(bs)), strip_aux_data=True)
        if want != got:
            ctx.add("corr", "writer:" + first_diff_path(want, got), "written message differs from to_proto(content) at %s" % first_diff_path(want, got),
                    {"tag": tag, "file": bs.hex(), "diff": first_diff(want, got)})
        ctx.count("writer_cases")
        ctx.count("wf_true" if wf else "wf_false")
    batch.ask([40, c], judge)
    return bs


MSG_FIELDS = {0: "uuid", 1: "modules", 2: "aux_data", 3: "version", 4: "cfg.vertices", 5: "cfg.edges"}
MOD_FIELDS = ["uuid", "binary_path", "preferred_addr", "rebase_delta", "file_format", "isa", "name", "symbols", "proxies", "sections", "aux_data", "entry_point", "byte_order"]


def first_diff(a, b, path=()):
    if type(a) is not type(b):
        return {"path": list(path), "model": repr(a)[:200], "impl": repr(b)[:200]}
    if isinstance(a, list):
        if len(a) != len(b):
            return {"path": list(path), "model_len": len(a), "impl_len": len(b), "model": repr(a)[:300], "impl": repr(b)[:300]}
        for i, (x, y) in enumerate(zip(a, b)):
            d = first_diff(x, y, path + (i,))
            if d:
                return d
        return None
    return None if a == b else {"path": list(path), "model": repr(a)[:200], "impl": repr(b)[:200]}


def first_diff_path(a, b):
    d = first_diff(a, b)
    if not d:
        return "none"
    p = d["path"]
    if not p:
        return "top"
    s = MSG_FIELDS.get(p[0], str(p[0]))
    if p[0] == 1 and len(p) >= 3:
        s += "." + (MOD_FIELDS[p[2]] if p[2] < len(MOD_FIELDS) else str(p[2]))
        if len(p) > 3:
            s += "." + ".".join(str(x) for x in p[4::2][:3])
    return s


def aux_values_check(ctx, g, ir2, auxinfo, ir, tag):
    """decoded AuxData of the loaded IR equals the original value; node references resolve to the LOADED nodes (identity)"""
    env2 = irgen.AuxEnv(g, ir2, ctx.rng)
    by_uuid = {n.uuid: n for n in content.reach(ir2)}
    env1 = irgen.AuxEnv(g, ir, ctx.rng)
    for cont, key, t, v in auxinfo:
        c2 = by_uuid.get(cont.uuid)
        if c2 is None or key not in c2.aux_data:
            ctx.add("oracle", "roundtrip:aux-lost", "AuxData table %r is missing after load" % key, {"tag": tag})
            continue
        a2 = c2.aux_data[key]
        if t[0] == "__raw__":
            try:
                got = a2.data
            except Exception as e:  # noqa: BLE001
                ctx.add("oracle", "roundtrip:aux-decode", "AuxData table %r (type %s) fails to decode after load: %s" % (key, t[1], exc_name(g, e)), {"tag": tag})
                continue
            if a2.type_name != t[1] or not isinstance(got, g.serialization.UnknownData) or bytes(got) != bytes(v):
                ctx.add("oracle", "roundtrip:aux-value", "AuxData table %r of the codec-less type %s does not come back as the same blob after load" % (key, t[1]),
                        {"tag": tag, "type": t[1], "want": bytes(v).hex(), "have": bytes(got).hex() if isinstance(got, (bytes, bytearray)) else repr(got)[:200]})
            ctx.count("aux_values_checked")
            continue
        if a2.type_name != auxval.type_str(t):
            ctx.add("oracle", "roundtrip:aux-type", "AuxData table %r has type %r after load, was %r" % (key, a2.type_name, auxval.type_str(t)), {"tag": tag})
            continue
        try:
            got = a2.data
        except Exception as e:  # noqa: BLE001
            ctx.add("oracle", "roundtrip:aux-decode", "AuxData table %r fails to decode after load: %s" % (key, exc_name(g, e)), {"tag": tag})
            continue
        want = strip_nums(auxval.canon(auxval.to_sx(v, env1)))
        have = strip_nums(auxval.canon(auxval.to_sx(got, env2)))
        # nodes attached to the original IR must come back as nodes (of the loaded IR); everything else as plain UUIDs
        want = retag_attached(want, {n.uuid.int for n in content.reach(ir)})
        if want != have:
            def untag(sx):
                if isinstance(sx, list):
                    if len(sx) == 2 and sx[0] in (4, 5) and isinstance(sx[1], int):
                        return [4, sx[1]]
                    return [untag(x) for x in sx]
                return sx
            if auxval.canon(untag(want)) == auxval.canon(untag(have)):
                # the same value except for WHICH entries are node objects and which plain UUIDs: reference resolution (C09)
                ctx.add("oracle", "roundtrip:aux-identity", "AuxData table %r: after load the UUID entries naming attached nodes are not exactly the ones that come "
                        "back as node objects" % key, {"tag": tag, "type": auxval.type_str(t), "want": repr(want)[:300], "have": repr(have)[:300]})
            else:
                ctx.add("oracle", "roundtrip:aux-value", "AuxData table %r decodes to a different value after load" % key,
                        {"tag": tag, "type": auxval.type_str(t), "want": repr(want)[:300], "have": repr(have)[:300]})
        for n in walk_nodes(g, got):
            if by_uuid.get(n.uuid) is not n:
                ctx.add("oracle", "roundtrip:aux-identity", "AuxData table %r: a UUID entry decodes to a node that is not the attached object" % key, {"tag": tag})
        ctx.count("aux_values_checked")


def strip_nums(sx):
    """node leaves [5, num, uuid] -> [5, uuid] (node numbers differ between the two IRs)"""
    if isinstance(sx, list):
        if len(sx) == 3 and sx[0] == 5 and isinstance(sx[1], int):
            return [5, sx[2]]
        return [strip_nums(x) for x in sx]
    return sx


def retag_attached(sx, attached):
    """in the ORIGINAL value: a node (attached or not) or plain UUID naming an attached node comes back as node; others as UUID"""
    if isinstance(sx, list):
        if len(sx) == 2 and sx[0] in (4, 5) and isinstance(sx[1], int):
            return [5, sx[1]] if sx[1] in attached else [4, sx[1]]
        return [retag_attached(x, attached) for x in sx]
    return sx


def walk_nodes(g, v):
    if isinstance(v, g.Node):
        yield v
    elif isinstance(v, g.Offset):
        yield from walk_nodes(g, v.element_id)
    elif isinstance(v, dict):
        for k, x in v.items():
            yield from walk_nodes(g, k)
            yield from walk_nodes(g, x)
    elif isinstance(v, (list, tuple, set, frozenset)):
        for x in v:
            yield from walk_nodes(g, x)
    elif isinstance(v, g.serialization.Variant):
        yield from walk_nodes(g, v.val)


def walk_plain_uuids(g, v):
    import uuid as _u
    if isinstance(v, _u.UUID):
        yield v
    elif isinstance(v, g.Offset):
        yield from walk_plain_uuids(g, v.element_id)
    elif isinstance(v, dict):
        for k, x in v.items():
            yield from walk_plain_uuids(g, k)
            yield from walk_plain_uuids(g, x)
    elif isinstance(v, (list, tuple, set, frozenset)):
        for x in v:
            yield from walk_plain_uuids(g, x)
    elif isinstance(v, g.serialization.Variant):
        yield from walk_plain_uuids(g, v.val)


def tables_outlive_their_ir(ctx, g, auxinfo, ir, bs, tag):
    """LIFETIME: the caller keeps only the tables of a loaded file (`tables = load(f).aux_data`), the IR variable is dropped and
    garbage is collected before the first read.  A table names its nodes whenever it is read: entries naming attached nodes are node
    objects (whatever keeps them alive is the library's business), never plain UUIDs."""
    import gc
    fresh = load_bytes(g, bs)
    held = {c.uuid: c.aux_data for c in [fresh] + list(fresh.modules)}
    attached = {n.uuid for n in content.reach(fresh)}
    del fresh
    gc.collect()
    for cont, key, t, v in auxinfo:
        if t[0] == "__raw__" or cont.uuid not in held or key not in held[cont.uuid]:
            continue
        try:
            got = held[cont.uuid][key].data
        except Exception:  # noqa: BLE001
            continue
        ctx.count("tables_read_after_their_ir_was_dropped")
        lost = [u for u in walk_plain_uuids(g, got) if u in attached]
        if lost:
            ctx.add("oracle", "roundtrip:aux-identity", "AuxData table %r, read after the loaded IR was dropped by the caller and garbage collected (the tables were kept): "
                    "%d entries naming attached nodes come back as plain UUIDs" % (key, len(lost)), {"tag": tag, "file": bs.hex(), "table": key})
            return


def roundtrip_stream(ctx, g, batch, ir, auxinfo, bs, tag):
    """RT: load(save(ir)) has the same content, deep_eq both ways, re-save gives the same content"""
    d7 = is_d7(g, ir)
    if auxinfo and ctx.rng.random() < 0.5:
        # the same table bytes decoded first OUTSIDE any IR (every UUID is then a plain UUID): a later load must not remember that
        try:
            p0 = parse_body(bs)
            for cont in [p0] + list(p0.modules):
                for k in cont.aux_data:
                    try:
                        g.AuxData.serializer.decode(bytes(cont.aux_data[k].data), cont.aux_data[k].type_name)
                    except Exception:  # noqa: BLE001
                        pass
            ctx.count("standalone_decode_before_load")
        except Exception:  # noqa: BLE001
            pass
    try:
        ir2 = load_bytes(g, bs)
    except Exception as e:  # noqa: BLE001
        sig = "entry-point-later-module" if d7 else "roundtrip:load-raised"
        ctx.add("oracle", sig, "load rejects a file written by save from a self-contained IR: %s: %s" % (exc_name(g, e), str(e)[:120]),
                {"tag": tag, "file": bs.hex()})
        return None
    c1 = content.canon_content(content.content_of(g, ir))
    c2 = content.canon_content(content.content_of(g, ir2))
    if c1 != c2:
        ctx.add("oracle", "roundtrip:content", "loaded IR differs from the original at %s" % (first_diff(c1, c2) or {}).get("path"),
                {"tag": tag, "file": bs.hex(), "diff": first_diff(c1, c2)})
    try:
        ab, ba = ir.deep_eq(ir2), ir2.deep_eq(ir)
    except Exception as e:  # noqa: BLE001
        ab = ba = "raised " + exc_name(g, e)
    if ab is not True or ba is not True:
        ctx.add("oracle", "roundtrip:deep_eq", "original.deep_eq(loaded)=%s loaded.deep_eq(original)=%s" % (ab, ba), {"tag": tag, "file": bs.hex()})
    aux_values_check(ctx, g, ir2, auxinfo, ir, tag)
    for prob in content.identity_check(g, ir2):
        ctx.add("oracle", "roundtrip:identity", prob, {"tag": tag, "file": bs.hex()})
    for prob in content.coherence(g, ir2):
        ctx.add("oracle", "roundtrip:coherence", prob, {"tag": tag, "file": bs.hex()})
    if auxinfo:
        # the same file loaded once more in this process: every reference and every AuxData UUID/Offset entry of the SECOND IR must
        # be that IR's own attached object (nothing remembered from the first load)
        try:
            ir3 = load_bytes(g, bs)
            n0 = len(ctx.findings)
            aux_values_check(ctx, g, ir3, auxinfo, ir, tag + ":second-load")
            for prob in content.identity_check(g, ir3):
                ctx.add("oracle", "roundtrip:identity", "second load of the same file: " + prob, {"tag": tag, "file": bs.hex()})
            for prob in content.shared_between(ir2, ir3):
                ctx.add("oracle", "roundtrip:coherence", "two loads of the same file: " + prob, {"tag": tag, "file": bs.hex()})
            for f in ctx.findings[n0:]:
                f.what = "on a second load of the same file in one process: " + f.what
                if isinstance(f.replay, dict):
                    f.replay.setdefault("file", bs.hex())
                    f.replay["second_load"] = True
            ctx.count("second_loads")
        except Exception as e:  # noqa: BLE001
            ctx.add("oracle", "roundtrip:load-raised", "a second load of the same file raises %s" % exc_name(g, e), {"tag": tag, "file": bs.hex()})
    if auxinfo:
        try:
            tables_outlive_their_ir(ctx, g, auxinfo, ir, bs, tag)
        except Exception as e:  # noqa: BLE001
            ctx.add("oracle", "roundtrip:load-raised", "loading the file once more raises %s" % exc_name(g, e), {"tag": tag, "file": bs.hex()})
    if auxinfo:
        # a COPY of a freshly loaded IR -- copy.deepcopy or a pickle round trip -- made before any table was read: a loaded IR like any
        # other (its tables decode against ITS nodes, its references are its own objects, it saves to the same message)
        import copy
        import pickle
        for how in ("deepcopy", "pickle"):
            try:
                fresh = load_bytes(g, bs)
                ir4 = copy.deepcopy(fresh) if how == "deepcopy" else pickle.loads(pickle.dumps(fresh))
            except Exception:  # noqa: BLE001
                ir4 = None
                ctx.count("copy_of_loaded_ir_unsupported:" + how)
            if ir4 is not None:
                n0 = len(ctx.findings)
                aux_values_check(ctx, g, ir4, auxinfo, ir, tag + ":copied-before-read")
                for prob in content.identity_check(g, ir4):
                    ctx.add("oracle", "roundtrip:identity", prob, {"tag": tag, "file": bs.hex()})
                for prob in content.shared_between(fresh, ir4):
                    ctx.add("oracle", "roundtrip:coherence", "a loaded IR and its copy: " + prob, {"tag": tag, "file": bs.hex()})
                try:
                    if content.canon_msg(content.msg_to_sx(parse_body(save_bytes(ir4)))) != content.canon_msg(content.msg_to_sx(parse_body(bs))):
                        ctx.add("oracle", "roundtrip:resave", "saving the copy gives a different message", {"tag": tag, "file": bs.hex()})
                except Exception as e:  # noqa: BLE001
                    ctx.add("oracle", "roundtrip:resave-raised", "saving the copy raised %s" % exc_name(g, e), {"tag": tag, "file": bs.hex()})
                for f in ctx.findings[n0:]:
                    f.what = "on a %s of the loaded IR taken before any table was read: %s" % ("deep copy" if how == "deepcopy" else "pickle round trip", f.what)
                    if isinstance(f.replay, dict):
                        f.replay.setdefault("file", bs.hex())
                        f.replay["copied_before_read"] = how
                ctx.count("copies_of_loaded_irs:" + how)
    try:
        bs2 = save_bytes(ir2)
        m1 = content.canon_msg(content.msg_to_sx(parse_body(bs)))
        m2 = content.canon_msg(content.msg_to_sx(parse_body(bs2)))
        if m1 != m2 or bs[:8] != bs2[:8]:
            ctx.add("oracle", "roundtrip:resave", "saving the loaded IR gives a different message at %s" % first_diff_path(m1, m2),
                    {"tag": tag, "file": bs.hex(), "diff": first_diff(m1, m2)})
    except Exception as e:  # noqa: BLE001
        ctx.add("oracle", "roundtrip:resave-raised", "saving the loaded IR raised %s" % exc_name(g, e), {"tag": tag, "file": bs.hex()})
    cc = content.content_of(g, ir)

    def judge(rep):
        if isinstance(rep, tuple):
            ctx.add("corr", "roundtrip:model-died", "model failed", {"tag": tag})
            return
        if rep[0] != 0:
            wf = rep[2] if len(rep) > 2 else None
            if d7:
                return          # the model reader rejects the D7 shape exactly as the implementation does
            ctx.add("corr", "roundtrip:model-rejects", "model load(save(c)) = error %s (wf=%s) while the implementation accepts" % (rep[1], wf),
                    {"tag": tag, "content": cc})
            return
        want = content.canon_content(rep[1])
        if want != c2:
            ctx.add("corr", "roundtrip:model-content", "model round trip differs from the implementation's at %s" % (first_diff(want, c2) or {}).get("path"),
                    {"tag": tag, "diff": first_diff(want, c2)})
        ctx.count("roundtrip_cases")
    batch.ask([42, cc], judge)
    return ir2


def reader_stream(ctx, g, batch, msg_sx, tag, hdr=None, expect_coherent=True):
    """R: a message built directly from the descriptors -> load -> content must equal from_proto(message)"""
    hdr = list(b"GTIRB\0\0") + [g.version.PROTOBUF_VERSION] if hdr is None else hdr
    try:
        p = content.sx_to_msg(msg_sx)
        body = p.SerializeToString()
    except Exception as e:  # noqa: BLE001
        ctx.count("reader_unbuildable_message:" + type(e).__name__)
        return None
    bs = bytes(hdr) + body
    outcome = None
    ir2 = None
    try:
        ir2 = load_bytes(g, bs)
        try:
            outcome = [0, content.canon_content(content.content_of(g, ir2))]
        except Exception as e:  # noqa: BLE001
            # load returned something whose public attributes cannot even be read: ill-typed / partially linked
            probs = safe_coherence(g, ir2)
            ctx.add("oracle", "reader:incoherent", "load returned an IR that is not coherent: %s (reading its attributes raised %s)" % ("; ".join(probs[:2]), exc_name(g, e)),
                    {"tag": tag, "file": bs.hex()})
            return [0, "unreadable"], None, bs
    except ImplTimeout:
        ctx.add("oracle", "reader:hang", "load did not return within the time limit", {"tag": tag, "file": bs.hex()})
        return None
    except RecursionError:
        outcome = [-1, "RecursionError"]
    except Exception as e:  # noqa: BLE001
        outcome = [-1, exc_name(g, e)]
    if ir2 is not None:
        probs = safe_coherence(g, ir2)
        for prob in probs[:3]:
            ctx.add("oracle", "reader:incoherent", "load returned an IR that is not coherent: " + prob, {"tag": tag, "file": bs.hex()})
        if not probs:
            try:
                save_bytes(ir2)
            except Exception as e:  # noqa: BLE001
                ctx.add("oracle", "reader:cannot-resave", "an IR returned by load cannot be saved: %s" % exc_name(g, e), {"tag": tag, "file": bs.hex()})
    ctx.count("reader_outcome:" + ("ok" if outcome[0] == 0 else outcome[1]))
    if expect_coherent and outcome[0] == 0:
        want_c = content.canon_content(content.expected_content(msg_sx))
        if want_c != outcome[1]:
            ctx.add("oracle", "reader-field:%s" % (first_diff(want_c, outcome[1]) or {}).get("path"),
                    "an attribute of the loaded IR differs from the message field it must equal, at %s" % (first_diff(want_c, outcome[1]) or {}).get("path"),
                    {"tag": tag, "file": bs.hex(), "diff": first_diff(want_c, outcome[1])})

    def judge(rep):
        if isinstance(rep, tuple):
            ctx.add("corr", "reader:model-died", "model failed", {"tag": tag})
            return
        if rep[0] == 0:
            mo = [0, content.canon_content(rep[1])]
        else:
            mo = [-1, ERR_CODES.get(rep[1], str(rep[1]))]
        if mo[0] == -1 and mo[1] == "Impossible":
            ctx.count("reader_outside_model(same-kind duplicate uuid)")
            return
        if mo != outcome:
            what = "outcome" if (mo[0] != outcome[0] or mo[0] == -1) else "content at %s" % (first_diff(mo[1], outcome[1]) or {}).get("path")
            ctx.add("corr", "reader:" + ("outcome" if what == "outcome" else "content"),
                    "reader differs from from_proto(message) in %s: implementation %s, model %s" % (what, short(outcome), short(mo)),
                    {"tag": tag, "file": bs.hex(), "impl": short(outcome, 600), "model": short(mo, 600)})
    batch.ask([41, hdr, msg_sx], judge)
    return outcome, ir2, bs


def safe_coherence(g, ir):
    try:
        return content.coherence(g, ir) + content.identity_check(g, ir)
    except Exception as e:  # noqa: BLE001
        return ["the coherence scan itself raised %s: %s" % (exc_name(g, e), str(e)[:100])]


def short(x, n=200):
    s = repr(x)
    return s if len(s) <= n else s[:n] + "..."
