#!/bin/bash
# Build the whole framework from files on disk only (offline): generated facts, Coq project (full .vo build),
# extraction, OCaml driver; then the no-Admitted/no-Axiom gate.
set -e
cd "$(dirname "$0")/.."
export PYTHONHASHSEED=0 PYTHONDONTWRITEBYTECODE=1
rm -f ocaml/.stamp
( cd coq && rm -f Makefile Makefile.conf .Makefile.d )
/venv/bin/python - <<'PY'
import sys
sys.path.insert(0, "harness")
import common
info = common.build()
print("build:", info)
bad = common.grep_gate()
if bad:
    print("FORBIDDEN VERNACULAR:\n" + "\n".join(bad))
    sys.exit(1)
print("grep gate: clean")
PY
