"""Random self-contained IRs built through the public API in random construction orders (C01, C02 writer stream, C09, C17, C18),
and random schema-valid, referentially closed messages built directly as sx (C02 reader stream, C09, C17)."""
import uuid as uuidlib

import auxval
from content import ub

U64 = (1 << 64) - 1
I64MIN, I64MAX = -(1 << 63), (1 << 63) - 1
NAMES = ["", "a", ".text", "main", "é", "名前", "x" * 70, "with space", "\x00nul", "<t>", "😀"]


def bnd_u64(rng):
    return rng.choice([0, 0, 1, 2, 255, 4096, 1 << 32, (1 << 63), U64 - 1, U64, rng.getrandbits(64)])


def bnd_i64(rng):
    return rng.choice([0, 0, 1, -1, I64MIN, I64MAX, I64MIN + 1, rng.randint(I64MIN, I64MAX), 12, -40])


def fresh_uuid(rng):
    return uuidlib.UUID(int=rng.choice([rng.getrandbits(128), rng.getrandbits(128), rng.getrandbits(8) << 120, rng.getrandbits(127) | 1]))


class Cov:
    """boundary classes hit (written to the evidence)"""

    def __init__(self, ctx):
        self.ctx = ctx

    def hit(self, k):
        self.ctx.count("boundary:" + k)


def enum_members(cls):
    return list(cls)


_SUBCLASSES = {}


def user_class(g, rng, cov, base):
    """the API class, or -- one time in four -- a user-defined subclass of it (class MyCodeBlock(gtirb.CodeBlock): pass): a node of a
    subclass is a node of that kind wherever the base class is accepted, written and compared"""
    if rng.random() < 0.75:
        return base
    cov.hit("user-subclass:" + base.__name__)
    key = (id(g), base.__name__)
    if key not in _SUBCLASSES:
        # (every other one defines its truth value and is falsy: a node is a node whatever bool(node) says)
        _SUBCLASSES[key] = type("My" + base.__name__, (base,), {} if len(_SUBCLASSES) % 2 else {"__len__": lambda self: 0})
    return _SUBCLASSES[key]


def label_class(g, rng, cov):
    """gtirb.Edge.Label, or -- one time in four -- a user subclass of it whose instances test false (it defines __bool__ and nothing
    else: equality and hash stay the tuple's): a label is a label whatever bool(label) says"""
    if rng.random() < 0.75:
        return g.Edge.Label
    cov.hit("user-subclass:falsy-EdgeLabel")
    key = (id(g), "EdgeLabel")
    if key not in _SUBCLASSES:
        _SUBCLASSES[key] = type("MyEdgeLabel", (g.Edge.Label,), {"__bool__": lambda self: False})
    return _SUBCLASSES[key]


def gen_ir(g, rng, cov, n_modules=None, entry_later=False, with_aux=True):
    """returns (ir, auxinfo) ; auxinfo: list of (container, key, type tree, value)"""
    uuids = set()

    def C(base):
        return user_class(g, rng, cov, base)

    def uu():
        while True:
            u = fresh_uuid(rng)
            if u not in uuids:
                uuids.add(u)
                return u
    ir = g.IR(uuid=uu())
    nm = n_modules if n_modules is not None else rng.choice([0, 1, 1, 2, 3])
    mods, all_code, all_blocks, all_cfg = [], [], [], []
    auxinfo = []
    for mi in range(nm):
        kw = dict(name=rng.choice(NAMES), uuid=uu())
        if rng.random() < 0.7:
            kw.update(binary_path=rng.choice(NAMES), isa=rng.choice(enum_members(g.Module.ISA)), file_format=rng.choice(enum_members(g.Module.FileFormat)),
                      byte_order=rng.choice(enum_members(g.Module.ByteOrder)), preferred_addr=bnd_u64(rng), rebase_delta=bnd_i64(rng))
            cov.hit("module-scalars-nondefault")
        else:
            cov.hit("module-scalars-default")
        order_ir_first = rng.random() < 0.5
        if order_ir_first:
            kw["ir"] = ir
        m = C(g.Module)(**kw)
        # proxies
        proxies = []
        for _ in range(rng.choice([0, 0, 1, 2])):
            if rng.random() < 0.5:
                p = C(g.ProxyBlock)(uuid=uu(), module=m)
            else:
                p = C(g.ProxyBlock)(uuid=uu())
                m.proxies.add(p)
            proxies.append(p)
        code, data = [], []
        for _ in range(rng.choice([0, 1, 1, 2, 3])):
            flags = set(rng.sample(enum_members(g.Section.Flag), rng.choice([0, 1, 2, 7])))
            s = C(g.Section)(name=rng.choice(NAMES), flags=flags, uuid=uu())
            if rng.random() < 0.5:
                s.module = m
            else:
                m.sections.add(s)
            for _ in range(rng.choice([0, 1, 1, 2])):
                nbytes = rng.choice([0, 0, 1, 4, 9])
                contents = bytes(rng.randrange(256) for _ in range(nbytes))
                addr = rng.choice([None, None, 0, 0, 4096, U64, bnd_u64(rng)])
                cov.hit("address-" + ("none" if addr is None else ("zero" if addr == 0 else ("max" if addr == U64 else "other"))))
                size = rng.choice([nbytes, nbytes, nbytes + 5, U64, nbytes + 1])
                cov.hit("size-" + ("eq-bytes" if size == nbytes else ("max" if size == U64 else "gt-bytes")))
                try:
                    bi = C(g.ByteInterval)(address=addr, size=size, contents=contents, uuid=uu())
                except Exception:  # noqa: BLE001  (the constructor refusing a declared size is not what the users of this generator judge:
                    cov.hit("ctor-refused-size")     # go on with a size it accepts, so that the IR is still built, saved and compared)
                    size = nbytes + 1
                    bi = C(g.ByteInterval)(address=addr, size=size, contents=contents, uuid=uu())
                blocks = []
                for _ in range(rng.choice([0, 1, 2, 3])):
                    off, sz = rng.choice([0, 0, 1, 4, U64, bnd_u64(rng)]), rng.choice([0, 1, 4, U64, 16])
                    if rng.random() < 0.55:
                        b = C(g.CodeBlock)(size=sz, offset=off, decode_mode=rng.choice(enum_members(g.CodeBlock.DecodeMode)), uuid=uu())
                        code.append(b)
                    else:
                        b = C(g.DataBlock)(size=sz, offset=off, uuid=uu())
                        data.append(b)
                    blocks.append(b)
                    if off == U64 or sz == U64:
                        cov.hit("block-offset-or-size-max")
                    if sz == 0:
                        cov.hit("block-size-zero")
                r = rng.random()
                if r < 0.33:
                    for b in blocks:
                        b.byte_interval = bi
                elif r < 0.66:
                    bi.blocks.update(blocks)
                else:
                    for b in blocks:
                        bi.blocks.add(b)
                if rng.random() < 0.5:
                    bi.section = s
                else:
                    s.byte_intervals.add(bi)
        all_code += code
        all_blocks += code + data + proxies
        all_cfg += code + proxies
        # symbols: referent inside this module (or an earlier one), value incl. 0, none
        syms = []
        own_blocks = code + data + proxies
        for _ in range(rng.choice([0, 1, 2, 4])):
            r = rng.random()
            if r < 0.4 and own_blocks:
                pay = rng.choice(own_blocks)
                cov.hit("payload-referent")
            elif r < 0.7:
                pay = rng.choice([0, 0, 1, U64, bnd_u64(rng)])
                cov.hit("payload-value-zero" if pay == 0 else "payload-value")
            else:
                pay = None
                cov.hit("payload-none")
            y = C(g.Symbol)(rng.choice(NAMES), uuid=uu(), payload=pay, at_end=rng.random() < 0.3)
            if rng.random() < 0.5:
                y.module = m
            else:
                m.symbols.add(y)
            syms.append(y)
        # symbolic expressions naming symbols of this module
        if syms:
            A = enum_members(g.SymbolicExpression.Attribute)
            for s in m.sections:
                for bi in s.byte_intervals:
                    for _ in range(rng.choice([0, 0, 1, 2, 3])):
                        attrs = set(rng.sample(A, rng.choice([0, 0, 1, 3])))
                        if rng.random() < 0.3:
                            attrs.add(rng.choice([27, 999, 5000, 123456]))      # numbers the enum does not define
                            cov.hit("attribute-unknown-number")
                        if rng.random() < 0.4 and getattr(cov, "_last_attrs", None):
                            attrs = set(cov._last_attrs)            # an equal attribute set on another expression (never the same object)
                        if attrs and rng.random() < 0.25:
                            # a KNOWN attribute given by its number (the constructor's argument type allows the protobuf value)
                            a0 = next(iter(attrs))
                            if not isinstance(a0, int):
                                attrs.discard(a0)
                                attrs.add(a0.value)
                                cov.hit("attribute-known-by-number")
                        if attrs and rng.random() < 0.15:
                            # ... or in BOTH forms at once: one attribute, whichever way the set is walked
                            a0 = next((a for a in attrs if not isinstance(a, int)), None)
                            if a0 is not None:
                                attrs.add(a0.value)
                                cov.hit("attribute-in-both-forms")
                        if attrs:
                            cov.hit("attribute-known")
                            cov._last_attrs = set(attrs)
                        if rng.random() < 0.6:
                            e = C(g.SymAddrConst)(bnd_i64(rng), rng.choice(syms), attrs)
                        else:
                            e = C(g.SymAddrAddr)(bnd_i64(rng), bnd_i64(rng), rng.choice(syms), rng.choice(syms), attrs)
                        bi.symbolic_expressions[rng.choice([0, 1, 2, 8, U64, bnd_u64(rng)])] = e
                        if rng.random() < 0.35:
                            # ... and in the same interval an expression with the SAME operands (class, offset, symbols) that differs
                            # in its attributes only -- one of the two has none: equal operands are no reason to confuse the two
                            other_attrs = set() if attrs else set(rng.sample(A, rng.choice([1, 2])))
                            if isinstance(e, g.SymAddrConst):
                                e2 = type(e)(e.offset, e.symbol, other_attrs)
                            else:
                                e2 = type(e)(e.scale, e.offset, e.symbol1, e.symbol2, other_attrs)
                            free_keys = [k for k in (3, 4, 5, 6, 7, 9, 16, 24, 40) if k not in bi.symbolic_expressions]
                            if free_keys:
                                bi.symbolic_expressions[rng.choice(free_keys)] = e2
                                cov.hit("expressions-same-operands-different-attributes")
        # entry point: own module or an earlier one (a later one is the recorded finding D7, only on request)
        if all_code and rng.random() < 0.6:
            m.entry_point = rng.choice(code) if (code and rng.random() < 0.8) else rng.choice(all_code)
            cov.hit("entry-own" if m.entry_point in code else "entry-earlier-module")
        if not order_ir_first:
            if rng.random() < 0.5:
                m.ir = ir
            else:
                ir.modules.append(m)
        mods.append(m)
    # nodes that were built in one place and MOVED to another before the IR is saved (inside their module, so that the IR stays
    # self-contained): through the new owner's collection (add / update / |=) or through the parent attribute
    for m in mods:
        secs = list(m.sections)
        if len(secs) >= 2 and rng.random() < 0.5:
            src = rng.choice([x for x in secs if len(x.byte_intervals)] or [None])
            if src is not None:
                dst = rng.choice([x for x in secs if x is not src])
                bi = rng.choice(list(src.byte_intervals))
                how = rng.choice(["add", "update", "ior", "attr"])
                if how == "add":
                    dst.byte_intervals.add(bi)
                elif how == "update":
                    dst.byte_intervals.update(x for x in [bi])
                elif how == "ior":
                    dst.byte_intervals |= {bi}
                else:
                    bi.section = dst
                cov.hit("moved-interval:" + how)
        bis = [b for x in m.sections for b in x.byte_intervals]
        if len(bis) >= 2 and rng.random() < 0.5:
            src = rng.choice([b for b in bis if len(b.blocks)] or [None])
            if src is not None:
                dst = rng.choice([b for b in bis if b is not src])
                blk = rng.choice(list(src.blocks))
                how = rng.choice(["add", "update", "attr"])
                if how == "add":
                    dst.blocks.add(blk)
                elif how == "update":
                    dst.blocks.update([blk])
                else:
                    blk.byte_interval = dst
                cov.hit("moved-block:" + how)
    if entry_later and len(mods) >= 2:
        later = [b for b in mods[-1].code_blocks]
        if later:
            mods[0].entry_point = later[0]
    # CFG
    T = enum_members(g.Edge.Type)
    if all_cfg:
        for _ in range(rng.choice([0, 1, 3, 6])):
            r = rng.random()
            if r < 0.3:
                lab = None
                cov.hit("label-none")
            elif r < 0.5:
                lab = label_class(g, rng, cov)(rng.choice(T), False, False)
                cov.hit("label-all-false")
            else:
                lab = label_class(g, rng, cov)(rng.choice(T), rng.random() < 0.5, rng.random() < 0.5)
            ir.cfg.add(g.Edge(rng.choice(all_cfg), rng.choice(all_cfg), lab))
        # parallel edges: same endpoints, different labels (incl. None next to a label)
        for e in list(ir.cfg):
            if rng.random() < 0.35:
                lab2 = rng.choice([None, g.Edge.Label(rng.choice(T), rng.random() < 0.5, rng.random() < 0.5), g.Edge.Label(rng.choice(T), False, False)])
                if lab2 != e.label:
                    ir.cfg.add(g.Edge(e.source, e.target, lab2))
                    cov.hit("parallel-edges")
    # the same states reached through the OTHER entry points: what the constructors were given is now partly replaced by attribute
    # assignment and in-place edits of the mutable parts (flag sets, attribute sets, stored bytes), with values at the edge of each
    # domain (the zero-valued enum member, the empty string, 0, an emptied set)
    for m in mods:
        if rng.random() < 0.4:
            m.name = rng.choice(NAMES)
            m.isa = rng.choice([g.Module.ISA(0)] + enum_members(g.Module.ISA))
            m.file_format = rng.choice([g.Module.FileFormat(0)] + enum_members(g.Module.FileFormat))
            m.byte_order = rng.choice([g.Module.ByteOrder(0)] + enum_members(g.Module.ByteOrder))
            m.preferred_addr, m.rebase_delta, m.binary_path = bnd_u64(rng), bnd_i64(rng), rng.choice(NAMES)
            cov.hit("edited-after-construction:module")
        for s in m.sections:
            r = rng.random()
            F = enum_members(g.Section.Flag)
            if r < 0.2:
                s.flags.add(rng.choice([g.Section.Flag(0)] + F))
                cov.hit("edited-after-construction:flags.add")
            elif r < 0.3:
                s.flags |= set(rng.sample(F, 2)) | {g.Section.Flag(0)}
                cov.hit("edited-after-construction:flags|=")
            elif r < 0.4:
                s.flags = set(rng.sample(F, rng.choice([0, 1, 3])))
                cov.hit("edited-after-construction:flags=")
            elif r < 0.45:
                s.flags.clear()
                cov.hit("edited-after-construction:flags.clear")
            if rng.random() < 0.2:
                s.name = rng.choice(NAMES)
            for bi in s.byte_intervals:
                if rng.random() < 0.25:
                    bi.address = rng.choice([None, 0, 4096, U64])
                    cov.hit("edited-after-construction:address")
                if len(bi.contents) and rng.random() < 0.3:
                    bi.contents[rng.randrange(len(bi.contents))] = rng.choice([0, 255, 0x7f])
                    cov.hit("edited-after-construction:byte")
                for b in bi.blocks:
                    if rng.random() < 0.2:
                        b.size, b.offset = rng.choice([0, 1, 4, U64]), rng.choice([0, 1, 4, U64])
                        if isinstance(b, g.CodeBlock):
                            b.decode_mode = rng.choice([g.CodeBlock.DecodeMode(0)] + enum_members(g.CodeBlock.DecodeMode))
                        cov.hit("edited-after-construction:block")
                for e in bi.symbolic_expressions.values():
                    r = rng.random()
                    if r < 0.15:
                        e.attributes.add(rng.choice(enum_members(g.SymbolicExpression.Attribute) + [424242]))
                        cov.hit("edited-after-construction:attributes.add")
                    elif r < 0.22:
                        e.attributes.clear()
                    elif r < 0.3:
                        e.offset = bnd_i64(rng)
        own = [b for s in m.sections for bi in s.byte_intervals for b in bi.blocks] + list(m.proxies)
        for y in m.symbols:
            r = rng.random()
            if r < 0.12:
                y.value = rng.choice([0, 1, U64])
                cov.hit("edited-after-construction:symbol.value")
            elif r < 0.24 and own:
                y.referent = rng.choice(own)
                cov.hit("edited-after-construction:symbol.referent")
            elif r < 0.3:
                y.name, y.at_end = rng.choice(NAMES), rng.random() < 0.5
    # AuxData at IR and module level
    if with_aux:
        env = AuxEnv(g, ir, rng)
        for cont in [ir] + mods:
            for _ in range(rng.choice([0, 0, 1, 2])):
                single = rng.random() < 0.35
                try:
                    if single:
                        # sets and mappings too ("any nesting": containers, Offsets, variants as elements and keys), each holding at
                        # most one element, so that the bytes of the table do not depend on an iteration order
                        t = no_float32(auxval.rand_type(rng, 3, rich=True))
                        if rng.random() < 0.4:
                            t = (rng.choice(["set", "mapping"]), [rng.choice([("Offset", []), ("tuple", [("Offset", []), ("string", [])]), ("sequence", [("UUID", [])])])]
                                 + ([("uint8_t", [])] if False else []))
                            if t[0] == "mapping":
                                t = ("mapping", [t[1][0], ("uint8_t", [])])
                        v = auxval.rand_value(rng, t, env, size=3, single=True)
                        cov.hit("aux-single-element-sets-and-mappings")
                    else:
                        t = rand_ordered_type(rng, 3)
                        v = auxval.rand_value(rng, t, env, size=3)
                    auxval.oracle_encode(t, v, env)
                except Exception:  # noqa: BLE001
                    continue
                key = rng.choice(["k", "table", "é", "", "functionBlocks", "x" * 20]) + str(rng.randrange(3))
                if rng.random() < 0.2:
                    # a table whose type involves a name this API has no codec for: the value is the raw blob, carried verbatim
                    tn, raw = rng.choice([
                        ("foo", bytes(rng.randrange(256) for _ in range(rng.choice([0, 3, 9])))),
                        ("sequence<foo>", (2).to_bytes(8, "little") + bytes(rng.randrange(256) for _ in range(5))),
                        ("mapping<string,foo<bar>>", (1).to_bytes(8, "little") + (2).to_bytes(8, "little") + b"k1" + b"\x11\x22\x33"),
                        ("tuple<uint8_t,string,foo>", b"\x07" + (1).to_bytes(8, "little") + b"s" + b"\xde\xad"),
                    ])
                    t, v = ("__raw__", tn), g.serialization.UnknownData(raw)
                    cont.aux_data[key] = g.AuxData(v, tn)
                    auxinfo = [a for a in auxinfo if not (a[0] is cont and a[1] == key)]
                    auxinfo.append((cont, key, t, v))
                    cov.hit("aux-unknown-type")
                    continue
                cont.aux_data[key] = g.AuxData(v, auxval.type_str(t))
                auxinfo = [a for a in auxinfo if not (a[0] is cont and a[1] == key)]
                auxinfo.append((cont, key, t, v))
    return ir, auxinfo


def rand_ordered_type(rng, depth):
    """types whose encoding does not depend on set/dict iteration order (sets and mappings of at most one element are produced by
    rand_value with size<=1 there); used where whole files are compared"""
    t = auxval.rand_type(rng, depth)

    def strip(t):
        nm, subs = t
        if nm in ("set", "mapping"):
            return ("sequence", [("tuple", [strip(s) for s in subs])] if nm == "mapping" else [strip(subs[0])])
        if nm == "float":
            return ("double", [])          # float32 rounding is C07's business; whole files carry doubles
        return (nm, [strip(s) for s in subs])
    return strip(t)


def no_float32(t):
    nm, subs = t
    return ("double", []) if nm == "float" else (nm, [no_float32(x) for x in subs])


class AuxEnv:
    """nodes that UUID/Offset leaves may name: nodes of this IR, a detached node, random UUIDs"""

    def __init__(self, g, ir, rng):
        import content
        self.g = g
        self.ir = ir
        self.attached = content.reach(ir)
        self.detached = [g.CodeBlock(size=2), g.Symbol("free")]
        self.num = {}
        for n in self.attached + self.detached:
            self.num[id(n)] = len(self.num) + 1
        self.getter = [[n.uuid.int, self.num[id(n)]] for n in self.attached]

    def node_num(self, n):
        return self.num.get(id(n), 0)

    def rand_uuidish(self, rng):
        r = rng.random()
        if r < 0.5:
            return rng.choice(self.attached)
        if r < 0.6:
            return rng.choice(self.attached).uuid
        if r < 0.7:
            return uuidlib.UUID(int=rng.choice([0, (1 << 128) - 1, 1 << 127]))
        return uuidlib.UUID(int=rng.getrandbits(128))


# ------------------------------------------------------------------------------------------
# messages built directly (sx shape of Model/ProtoRun.v pir_of_sx), schema-valid and referentially closed in stage order

def gen_message(rng, enums, cov, version=4):
    """enums: dict schema enum name -> list of numbers the schema declares"""
    used = set()

    def uu():
        while True:
            u = rng.getrandbits(128) if rng.random() < 0.9 else rng.choice([0, 1, (1 << 128) - 1])
            if u not in used:
                used.add(u)
                return u

    def zs(s):
        return [ord(c) for c in s]
    mods = []
    codes, blocks, cfgn, syms_all = [], [], [], []
    for mi in range(rng.choice([0, 1, 1, 2, 3])):
        mu = uu()
        prox = [uu() for _ in range(rng.choice([0, 0, 1, 2]))]
        blocks += prox
        cfgn += prox
        secs = []
        mcodes = []
        for _ in range(rng.choice([0, 1, 1, 2])):
            bis = []
            for _ in range(rng.choice([0, 1, 1, 2])):
                n = rng.choice([0, 0, 2, 5])
                contents = [rng.randrange(256) for _ in range(n)]
                bl = []
                for _ in range(rng.choice([0, 1, 2, 3])):
                    bu = uu()
                    if 0 not in used and rng.random() < 0.08:
                        bu = 0
                        used.add(0)
                    if rng.random() < 0.55:
                        bl.append([bnd_u64(rng), [0, ub(bu), bnd_u64(rng), rng.choice(enums["DecodeMode"])]])
                        mcodes.append(bu)
                        cfgn.append(bu)
                    else:
                        bl.append([bnd_u64(rng), [1, ub(bu), bnd_u64(rng)]])
                    blocks.append(bu)
                has = rng.random() < 0.6
                addr = bnd_u64(rng) if (has or rng.random() < 0.2) else 0      # an address value without the presence flag must be ignored
                if not has and addr:
                    cov.hit("msg-address-without-flag")
                bis.append([ub(uu()), bl, [], int(has), addr, rng.choice([n, n + 3, U64]), contents])
            secs.append([ub(uu()), zs(rng.choice(NAMES)), bis, [rng.choice(enums["SectionFlag"]) for _ in range(rng.choice([0, 1, 2, 3]))]])
        codes += mcodes
        entry = []
        if codes and rng.random() < 0.6:
            entry = ub(rng.choice(codes))
            # boundary: the nil UUID (16 zero bytes) is a UUID like any other
            if 0 in codes and rng.random() < 0.8:
                entry = ub(0)
                cov.hit("msg-entry-point-nil-uuid")
        syms = []
        for _ in range(rng.choice([0, 1, 2, 4])):
            r = rng.random()
            if r < 0.4 and blocks:
                p = [1, ub(rng.choice(blocks))]
            elif r < 0.7:
                p = [0, rng.choice([0, 0, 1, U64, bnd_u64(rng)])]
                if p[1] == 0:
                    cov.hit("msg-symbol-value-zero-present")
            else:
                p = []
            su = uu()
            syms.append([ub(su), p, zs(rng.choice(NAMES)), int(rng.random() < 0.3)])
            syms_all.append(su)
        if syms_all:
            for sc in secs:
                for b in sc[2]:
                    keys = set()
                    for _ in range(rng.choice([0, 0, 1, 2, 3])):
                        k = rng.choice([0, 1, 8, U64, bnd_u64(rng)])
                        if k in keys:
                            continue
                        keys.add(k)
                        at = [rng.choice(enums["SymAttribute"]) for _ in range(rng.choice([0, 0, 1, 3]))]
                        if rng.random() < 0.25:
                            at.append(rng.choice([27, 999, 5000]))
                            cov.hit("msg-attribute-unknown-number")
                        # several expressions carrying the SAME flag list (common in real files): each must get its own set
                        if rng.random() < 0.4 and getattr(cov, "_last_flags", None):
                            at = list(cov._last_flags)
                            cov.hit("msg-attribute-list-repeated")
                        if at:
                            cov._last_flags = list(at)
                        if rng.random() < 0.6:
                            v = [0, bnd_i64(rng), ub(rng.choice(syms_all))]
                        else:
                            v = [1, bnd_i64(rng), bnd_i64(rng), ub(rng.choice(syms_all)), ub(rng.choice(syms_all))]
                        b[2].append([k, v, at])
        aux = []
        mods.append([ub(mu), zs(rng.choice(NAMES)), bnd_u64(rng), bnd_i64(rng), rng.choice(enums["FileFormat"]), rng.choice(enums["ISA"]),
                     zs(rng.choice(NAMES)), syms, [ub(x) for x in prox], secs, aux, entry, rng.choice(enums["ByteOrder"])])
    edges = []
    if cfgn:
        for _ in range(rng.choice([0, 1, 3, 6])):
            r = rng.random()
            lab = [] if r < 0.3 else ([0, 0, rng.choice(enums["EdgeType"])] if r < 0.5 else [int(rng.random() < 0.5), int(rng.random() < 0.5), rng.choice(enums["EdgeType"])])
            if lab == [0, 0, 0]:
                cov.hit("msg-label-present-all-default")
            edges.append([ub(rng.choice(cfgn)), ub(rng.choice(cfgn)), lab])
    verts = [ub(x) for x in cfgn] if rng.random() < 0.7 else []          # the reader ignores the vertex list
    if rng.random() < 0.3:
        # ... whatever it holds: UUIDs of nodes that are no CFG nodes, unknown UUIDs, repeats
        junk = [ub(rng.getrandbits(128)), ub(0), [7] * 15, [], list(range(17))] + [ub(x) for x in sorted(used)[:4]] + verts[:1]
        verts = verts + [rng.choice(junk) for _ in range(rng.choice([1, 2, 3]))]
        rng.shuffle(verts)
        cov.hit("vertices-with-junk")
    return [ub(uu()), mods, [], version, verts, edges]
