#!/venv/bin/python
"""Single entry point of all checks:  harness/check.py Cxx [--tier quick|thorough] [--replay file]"""
import argparse
import importlib
import os
import sys
import traceback

HERE = os.path.dirname(os.path.abspath(__file__))
sys.path.insert(0, HERE)
os.environ.setdefault("PYTHONHASHSEED", "0")
if os.environ.get("PYTHONHASHSEED") != "0":
    os.environ["PYTHONHASHSEED"] = "0"
    os.execv(sys.executable, [sys.executable] + sys.argv)
os.environ["GTIRB_VERIF"] = "1"
sys.dont_write_bytecode = True

import common  # noqa: E402


def main():
    ap = argparse.ArgumentParser()
    ap.add_argument("pid")
    ap.add_argument("--tier", default="quick")
    ap.add_argument("--replay", default=None)
    ap.add_argument("--no-build", action="store_true")
    a = ap.parse_args()
    tier = os.environ.get("VERIF_TIER") or a.tier
    if tier not in ("quick", "thorough"):
        tier = "quick"
    seed = int(os.environ.get("VERIF_SEED", "1") or "1")
    pid = a.pid.upper()
    ctx = common.Ctx(pid, tier, seed)
    try:
        binfo = {} if a.no_build else common.build()
    except common.BuildError as e:
        # the framework itself could not be built: the property is not shown
        print(str(e)[-3000:])
        ctx.add("proof", "framework-build", "framework build failed", {"log": str(e)[-4000:]})
        sys.exit(common.finish(ctx, None, None))
    mod = importlib.import_module("props." + pid.lower())
    if a.replay:
        sys.exit(mod.replay(ctx, a.replay))
    props_res = common.check_props(pid, thorough=(tier == "thorough"))
    try:
        mod.run(ctx)
    except Exception:
        tb = traceback.format_exc()
        print(tb)
        ctx.add("corr", "harness-exception", "the check crashed: " + tb.strip().split("\n")[-1], {"traceback": tb[-4000:]})
    if tier == "thorough":
        bad = common.grep_gate()
        if bad:
            ctx.add("proof", "grep-gate", "forbidden vernacular in the development", {"lines": bad[:20]})
    sys.exit(common.finish(ctx, props_res, binfo, level=getattr(mod, "LEVEL", "proof"),
                           extra_trusted=getattr(mod, "TRUSTED", ())))


if __name__ == "__main__":
    main()
