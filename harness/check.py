#!/venv/bin/python
"""Single entry point of all checks:  harness/check.py Cxx [--tier quick|thorough] [--replay file]"""
import argparse
import importlib
import os
import sys
import traceback

HERE = os.path.dirname(os.path.abspath(__file__))
sys.path.insert(0, HERE)
# string / bytes hashing (hence set and dict iteration order inside the library under test) is fixed PER SEED: seed 1 runs with
# PYTHONHASHSEED=0, seed k with k-1 -- every run is reproducible from its seed, and different seeds also explore different
# iteration orders (defect D20 depended on one)
try:
    _want_hs = str(max(0, int(os.environ.get("VERIF_SEED", "1") or "1") - 1) % 4294967295)
except ValueError:
    _want_hs = "0"
if os.environ.get("PYTHONHASHSEED") != _want_hs:
    os.environ["PYTHONHASHSEED"] = _want_hs
    os.execv(sys.executable, [sys.executable] + sys.argv)
os.environ["GTIRB_VERIF"] = "1"
sys.dont_write_bytecode = True

import common  # noqa: E402


def main():
    ap = argparse.ArgumentParser()
    ap.add_argument("pid")
    ap.add_argument("--tier", default="quick")
    ap.add_argument("--replay", default=None)
    ap.add_argument("--no-build", action="store_true")
    a = ap.parse_args()
    tier = os.environ.get("VERIF_TIER") or a.tier
    if tier not in ("quick", "thorough"):
        tier = "quick"
    seed = int(os.environ.get("VERIF_SEED", "1") or "1")
    pid = a.pid.upper()
    ctx = common.Ctx(pid, tier, seed)
    try:
        binfo = {} if a.no_build else common.build(pid)
    except common.BuildError as e:
        # the framework itself could not be built: the property is not shown
        print(str(e)[-3000:])
        ctx.add("proof", "framework-build", "framework build failed", {"log": str(e)[-4000:]})
        sys.exit(common.finish(ctx, None, None))
    mod = importlib.import_module("props." + pid.lower())
    if a.replay:
        sys.exit(mod.replay(ctx, a.replay))
    state = {"binfo": binfo, "level": getattr(mod, "LEVEL", "proof"), "trusted": getattr(mod, "TRUSTED", ())}
    common.start_watchdog(ctx, state)
    # (development only: VERIF_DEV_NOPROPS=1 skips the proof step when another process is rebuilding the Coq project)
    props_res = None if os.environ.get("VERIF_DEV_NOPROPS") else common.check_props(pid, thorough=(tier == "thorough"))
    state["props_res"] = props_res
    try:
        mod.run(ctx)
    except Exception:
        tb = traceback.format_exc()
        print(tb)
        ctx.add("corr", "harness-exception", "the check crashed: " + tb.strip().split("\n")[-1], {"traceback": tb[-4000:]})
    if tier == "thorough" and pid in ("C01", "C02", "C09", "C14", "C17") and not os.environ.get("VERIF_EVIDENCE_SUFFIX"):
        # the same streams once more under the other protobuf runtime (pure Python instead of upb), as a child process
        import subprocess
        env = dict(os.environ, PROTOCOL_BUFFERS_PYTHON_IMPLEMENTATION="python", VERIF_EVIDENCE_SUFFIX=".pybackend", VERIF_TIER="quick")
        p = subprocess.run([sys.executable, os.path.abspath(__file__), pid, "--tier", "quick", "--no-build"], env=env,
                           stdout=subprocess.PIPE, stderr=subprocess.STDOUT, timeout=3600)
        out = p.stdout.decode(errors="replace")
        ctx.cov["second_protobuf_backend"] = {"implementation": "python", "exit": p.returncode, "summary": out.strip().split("\n")[-1][:300]}
        if p.returncode != 0:
            vl = [l for l in out.split("\n") if l.startswith("VIOLATION")]
            ctx.add("oracle" if vl and "no-failing-input-found" not in vl[0] else "corr", "second-backend",
                    "under the pure-Python protobuf runtime: " + (vl[0] if vl else out[-300:]), {"child_output": out[-3000:]})
        try:
            os.remove(os.path.join(common.VERIF, "evidence", pid + ".pybackend.json"))
        except FileNotFoundError:
            pass
    if tier == "thorough":
        bad = common.grep_gate()
        if bad:
            ctx.add("proof", "grep-gate", "forbidden vernacular in the development", {"lines": bad[:20]})
    sys.exit(common.finish(ctx, props_res, binfo, level=getattr(mod, "LEVEL", "proof"),
                           extra_trusted=getattr(mod, "TRUSTED", ())))


if __name__ == "__main__":
    main()
