"""Java leg of C08: the repository's stand-alone Java AuxData codecs (java/com/grammatech/gtirb/auxdatacodec)
as a second implementation of the wire format.

On every call the codecs are compiled afresh, straight from $VERIF_REPO/java (nothing is copied or edited),
together with harness/java/Driver.java and a stub of com.google.protobuf.ByteString, into a temporary directory.
One JVM then, for every case whose type the Java side has codecs for,
  (a) decodes the bytes the Python implementation produced, and
  (b) re-encodes the decoded Java value.
Judged here:
  * Java accepts the Python bytes and consumes all of them;
  * the Java re-encoding, decoded by the Python implementation, is the expected value (for types without
    set/mapping the re-encoding must also be the very same bytes);
  * the value Java decoded (rendered by the driver) is the expected value.
    A UUID is rendered as the 128-bit number java.util.UUID holds; the repository's Util.byteArrayToUUID reads each
    64-bit half little-endian, so the in-memory Java UUID is the wire UUID with both halves byte-reversed.
    That convention is applied uniformly by the Java API (nodes and AuxData alike) and is invisible on the wire;
    it is accepted and only counted (java:uuid_halves_byte_reversed_in_memory).  Any other UUID is a disagreement.
"""
import glob
import os
import shutil
import subprocess
import tempfile

import auxval
from auxval import canon, to_sx, type_str
from codec_cases import expected_after_roundtrip, impl_decode, impl_encode
from common import sx_load

HERE = os.path.dirname(os.path.abspath(__file__))
JAVA_SRC = os.path.join(HERE, "java")
TIMEOUT_S = 300

# leaves the Java side has a codec for (each of these names is announced by a codec's getTypeName(); the unsigned
# ones are held in the same-width signed Java type, which is faithful bit for bit; the driver renders them unsigned).
# No Java codec announces "double" or "Addr".
JAVA_LEAVES = {"int8_t", "int16_t", "int32_t", "int64_t", "uint8_t", "uint16_t", "uint32_t", "uint64_t",
               "bool", "string", "UUID", "Offset", "float"}
_ARITY = {"sequence": (1,), "set": (1,), "mapping": (2,), "tuple": (1, 2, 3, 4, 5), "variant": (2, 3, 11)}

M64 = (1 << 64) - 1


def supported(t):
    nm, subs = t
    if not subs:
        return nm in JAVA_LEAVES
    return nm in _ARITY and len(subs) in _ARITY[nm] and all(supported(s) for s in subs)


def has_unordered(t):
    return t[0] in ("set", "mapping") or any(has_unordered(s) for s in t[1])


# ---------------- sx helpers ----------------
def _bswap64(x):
    return int.from_bytes(x.to_bytes(8, "big"), "little")


def java_uuid(u):
    """the number java.util.UUID holds after Util.byteArrayToUUID read the 16 wire bytes of UUID u"""
    return (_bswap64(u >> 64) << 64) | _bswap64(u & M64)


def _walk(sx, leaf):
    tag = sx[0]
    if tag == 6:
        return [6, _walk(sx[1], leaf), sx[2]]
    if tag in (7, 8, 10):
        return [tag, [_walk(x, leaf) for x in sx[1]]]
    if tag == 9:
        return [9, [[_walk(k, leaf), _walk(x, leaf)] for k, x in sx[1]]]
    if tag == 11:
        return [11, sx[1], _walk(sx[2], leaf)]
    return leaf(sx)


def dedupe(sx, flags):
    """set elements / mapping keys listed more than once collapse (mapping: the last value wins, as both decoders do);
    flags['dupkeys'] is set when a mapping key occurs twice"""
    tag = sx[0]
    if tag == 6:
        return [6, dedupe(sx[1], flags), sx[2]]
    if tag in (7, 10):
        return [tag, [dedupe(x, flags) for x in sx[1]]]
    if tag == 8:
        seen, out = set(), []
        for x in sx[1]:
            x = dedupe(x, flags)
            k = repr(canon(x))
            if k in seen:
                flags["dupelems"] = True
                continue
            seen.add(k)
            out.append(x)
        return [8, out]
    if tag == 9:
        d = {}
        for k, x in sx[1]:
            k, x = dedupe(k, flags), dedupe(x, flags)
            kk = repr(canon(k))
            if kk in d:
                flags["dupkeys"] = True
            d[kk] = [k, x]
        return [9, list(d.values())]
    if tag == 11:
        return [11, sx[1], dedupe(sx[2], flags)]
    return sx


def _listed(t, v, env):
    """expected value with every set element / mapping pair the encoder writes kept, in the order it writes them"""
    nm, subs = t
    if nm == "sequence":
        return [7, [_listed(subs[0], x, env) for x in v]]
    if nm == "set":
        return [8, [_listed(subs[0], x, env) for x in v]]
    if nm == "mapping":
        return [9, [[_listed(subs[0], k, env), _listed(subs[1], x, env)] for k, x in v.items()]]
    if nm == "tuple":
        return [10, [_listed(s, x, env) for s, x in zip(subs, v)]]
    if nm == "variant":
        return [11, v.index, _listed(subs[v.index], v.val, env)]
    return expected_after_roundtrip(t, v, env)


def _plain_uuid(f):
    def leaf(sx):
        if sx[0] == 5:          # a node: Java only ever sees its UUID
            return [4, f(sx[2])]
        if sx[0] == 4:
            return [4, f(sx[1])]
        return sx
    return leaf


def _widen_float(sx):
    if sx[0] == 13:             # raw binary32 bits from the driver
        return [2, auxval.f32_exact_double_bits(sx[1])]
    return sx


# ---------------- build + run ----------------
def repo_sources(repo):
    base = os.path.join(repo, "java", "com", "grammatech", "gtirb")
    srcs = []
    for sub in ("auxdatacodec", "tuple", "variant"):
        srcs += sorted(glob.glob(os.path.join(base, sub, "*.java")))
    for fn in ("Offset.java", "Util.java"):
        p = os.path.join(base, fn)
        if os.path.exists(p):
            srcs.append(p)
    return srcs


def _mktemp(repo):
    tmp = tempfile.mkdtemp(prefix="verif-javaleg-")
    real = os.path.realpath(tmp)
    for forbidden in (os.path.realpath(os.path.dirname(HERE)), os.path.realpath(repo)):
        if real == forbidden or real.startswith(forbidden + os.sep):
            shutil.rmtree(tmp, ignore_errors=True)
            return tempfile.mkdtemp(prefix="verif-javaleg-", dir="/tmp")
    return tmp


def compile_java(javac, repo, tmp):
    """-> (classes dir, None) or (None, log)"""
    classes = os.path.join(tmp, "classes")
    nosrc = os.path.join(tmp, "nosrc")
    os.makedirs(classes)
    os.makedirs(nosrc)
    srcs = repo_sources(repo) + [os.path.join(JAVA_SRC, "com", "google", "protobuf", "ByteString.java"),
                                 os.path.join(JAVA_SRC, "Driver.java")]
    cmd = [javac, "-nowarn", "-Xlint:none", "-proc:none", "-encoding", "UTF-8", "-implicit:none",
           "-sourcepath", nosrc, "-cp", classes, "-d", classes] + srcs
    p = subprocess.run(cmd, stdout=subprocess.PIPE, stderr=subprocess.STDOUT, timeout=TIMEOUT_S, cwd=tmp)
    if p.returncode != 0 or not os.path.exists(os.path.join(classes, "Driver.class")):
        return None, p.stdout.decode(errors="replace")[-4000:]
    return classes, None


def run_java(java, classes, lines, tmp):
    """-> (reply lines, note): note is None, or why fewer replies than requests came back"""
    cmd = [java, "-ea", "-Xss16m", "-Xmx1g", "-XX:+UseSerialGC", "-XX:TieredStopAtLevel=1", "-cp", classes, "Driver"]
    data = ("\n".join(lines) + "\n").encode("ascii")
    p = subprocess.Popen(cmd, stdin=subprocess.PIPE, stdout=subprocess.PIPE, stderr=subprocess.PIPE, cwd=tmp)
    note = None
    try:
        out, err = p.communicate(data, timeout=TIMEOUT_S)
    except subprocess.TimeoutExpired:
        p.kill()
        out, err = p.communicate()
        note = "TIMEOUT no reply within %d s" % TIMEOUT_S
    replies = out.decode("ascii", errors="replace").split("\n")
    if replies and not out.endswith(b"\n"):
        replies.pop()               # a torn last line
    elif replies and replies[-1] == "":
        replies.pop()
    if len(replies) < len(lines) and note is None:
        note = "NO-REPLY the JVM ended (rc=%s) %s" % (p.returncode, err.decode(errors="replace")[-600:].replace("\n", " | "))
    return replies[: len(lines)], note


def run(ctx, g, cases, env):
    javac, java = shutil.which("javac"), shutil.which("java")
    if not javac or not java:
        ctx.count("java_leg_unavailable")
        return
    repo = os.environ.get("VERIF_REPO", "/repo")
    tmp = _mktemp(repo)
    try:
        try:
            classes, log = compile_java(javac, repo, tmp)
        except (OSError, subprocess.TimeoutExpired):
            ctx.count("java_leg_unavailable")
            return
        if classes is None:
            ctx.add("proof", "java-leg-build", "the repository's Java codec no longer compiles with the driver", {"log": log})
            return
        sel, lines = [], []
        for (t, v, cenv) in cases:
            if not supported(t):
                ctx.count("java:skipped_unsupported_type")
                continue
            tn = type_str(t)
            enc = impl_encode(g, v, tn)
            if enc[0] != "ok":
                ctx.count("java:skipped_python_encode_error")
                continue
            sel.append((t, v, cenv, tn, enc[1]))
            lines.append("%s %s" % (tn, enc[1].hex() or "-"))
        if not sel:
            return
        try:
            replies, note = run_java(java, classes, lines, tmp)
        except OSError:
            ctx.count("java_leg_unavailable")
            return
        for i, (t, v, cenv, tn, pybytes) in enumerate(sel):
            if i >= len(replies):
                # the first case left without a reply is the one the JVM hung or died on; the rest were never tried
                _disagree(ctx, tn, pybytes, note or "NO-REPLY", to_sx(v, cenv, t), "no reply from the Java codec")
                ctx.count("java:cases_not_run", len(sel) - i - 1)
                break
            ctx.count("java:cases")
            ctx.count("java:type:" + t[0])
            why = judge(ctx, g, t, v, cenv, tn, pybytes, replies[i])
            if why:
                _disagree(ctx, tn, pybytes, replies[i][:4000], to_sx(v, cenv, t), why)
    finally:
        shutil.rmtree(tmp, ignore_errors=True)


def _disagree(ctx, tn, pybytes, reply, vs, why):
    ctx.add("oracle", "java-disagrees", "type %s: the repository's Java codec and this API disagree" % tn,
            {"type_name": tn, "python_bytes": pybytes.hex(), "java": reply, "value_sx": vs, "why": why})


def judge(ctx, g, t, v, cenv, tn, pybytes, reply):
    """None when the Java codec agrees, else a one-line reason"""
    if not reply.startswith("OK "):
        # UNSUPPORTED for a type in JAVA_LEAVES/_ARITY means a codec (or the type name it announces) went away
        return "the Java codec does not accept the bytes this API produced"
    parts = reply.split(" ", 2)
    if len(parts) != 3:
        return "malformed reply from the driver"
    try:
        jbytes = bytes.fromhex("" if parts[1] == "-" else parts[1])
        jsx = sx_load(parts[2])
    except (ValueError, AssertionError):
        return "malformed reply from the driver"
    flags = {}
    dedupe(_listed(t, v, cenv), flags)                      # only to learn whether the bytes list something twice
    exp = dedupe(expected_after_roundtrip(t, v, cenv), {})  # (already collapsed by codec_cases; idempotent)
    if flags.get("dupelems") or flags.get("dupkeys"):
        ctx.count("java:python_bytes_list_an_element_twice")
    if flags.get("dupkeys"):
        # a Node and its UUID as two keys of one Python dict: the bytes list one key twice with two values.  Which one a
        # decoder keeps depends on its container (java.util.HashMap of a class without hashCode keeps both, in no
        # particular order), so only acceptance is judged for these.
        ctx.count("java:value_not_judged_duplicate_mapping_key")
        return None
    cexp = canon(exp)
    # Java's bytes, read back by this API
    dec = impl_decode(g, jbytes, tn, cenv)
    if dec[0] != "ok":
        return "this API rejects the bytes the Java codec produced (%s)" % dec[1]
    if canon(to_sx(dec[1], cenv, t)) != cexp:
        return "the Java re-encoding decodes (by this API) to another value"
    if not has_unordered(t) and jbytes != pybytes:
        return "the Java re-encoding differs from the bytes this API produced"
    # the value Java decoded
    try:
        jval = canon(dedupe(_walk(jsx, _widen_float), {}))
    except (IndexError, TypeError, ValueError):
        return "malformed value rendering from the driver"
    if jval == canon(_walk(exp, _plain_uuid(lambda u: u))):
        return None
    if jval == canon(_walk(exp, _plain_uuid(java_uuid))):
        ctx.count("java:uuid_halves_byte_reversed_in_memory")
        return None
    return "the value the Java codec decoded is not the value this API encoded"
