"""C14 -- AuxData tables are never silently lost, staled or rewritten.
Histories of {leave untouched, read, mutate in place, assign data, assign type_name} per table, followed by a
real IR.save_protobuf_file / load_protobuf_file, over several generations, at IR and module level.
Direct oracle: the three sentences of the property.  Correspondence: Model/AuxTable.v through the driver."""
import io
import json
import uuid as uuidlib

import auxval
import gtirb_from_repo
from auxval import OracleError, canon, oracle_encode, to_sx, type_str
from common import ImplTimeout, exc_name, model_batch, model_result, time_limit, zs

LEVEL = "proof"
TRUSTED = ("protobuf wire encoding of the AuxData message (type_name, data) is the protobuf runtime's; tables are observed by "
           "parsing the written file with classes built from /repo/proto/*.proto, not with gtirb",)

WIDER = {"uint8_t": "uint16_t", "uint16_t": "uint32_t", "uint32_t": "uint64_t", "uint64_t": "Addr", "Addr": "uint64_t",
         "int8_t": "int16_t", "int16_t": "int32_t", "int32_t": "int64_t"}


class LoadedEnv:
    """Env for values living in a loaded IR: nodes are numbered by uuid (objects change at every load)."""

    def __init__(self, g, uuid_nums):
        self.g = g
        self.uuid_nums = uuid_nums
        self.ir = None
        self.getter = [[u, n] for u, n in uuid_nums.items()]
        self.attached = []
        self.detached = []

    def bind(self, ir):
        self.ir = ir
        self.attached = [ir.get_by_uuid(uuidlib.UUID(int=u)) for u in self.uuid_nums]
        assert all(n is not None for n in self.attached)

    def node_num(self, n):
        return self.uuid_nums.get(n.uuid.int, 0)

    def rand_uuidish(self, rng):
        r = rng.random()
        if r < 0.5:
            return rng.choice(self.attached)
        if r < 0.6:
            return rng.choice(self.attached).uuid
        return uuidlib.UUID(int=rng.getrandbits(128))


def rand_bytes(rng, n):
    return bytes(rng.getrandbits(8) for _ in range(n))


def gen_table(rng, env, g):
    """-> dict(tn, raw, kind, t (type tree or None))"""
    r = rng.random()
    if r < 0.45:
        t = auxval.rand_type(rng, rng.choice([0, 1, 2, 2, 3]))
        v = auxval.rand_value(rng, t, env)
        try:
            raw = bytes(oracle_encode(t, v, env))
        except OracleError:
            t, raw = ("uint8_t", []), b"\x07"
        return dict(tn=type_str(t), raw=raw, kind="known", t=t)
    if r < 0.6:
        tn, raw = rng.choice([
            ("set<uint8_t>", (2).to_bytes(8, "little") + b"\x05\x05"),
            ("set<string>", (3).to_bytes(8, "little") + b"\x01\0\0\0\0\0\0\0a" * 2 + b"\x01\0\0\0\0\0\0\0b"),
            ("sequence<bool>", (3).to_bytes(8, "little") + b"\x00\x02\xff"),
            ("bool", b"\x07"),
            ("mapping<uint8_t,uint8_t>", (2).to_bytes(8, "little") + b"\x01\x02\x01\x03"),
            ("tuple<bool,set<int8_t>>", b"\x09" + (2).to_bytes(8, "little") + b"\xff\xff"),
        ])
        return dict(tn=tn, raw=raw, kind="noncanonical", t=None)
    if r < 0.75:
        # (names with blanks after commas, leading/trailing blanks, dots: other producers write them; they must come back verbatim)
        tn = rng.choice(["foo", "foo<bar>", "my_custom<uint8_t>", "foo<bar<baz>,string>", "Sequence<uint8_t>", "string ",
                         "acme.index<Addr, tuple<acme.key, string>>", "acme.record<UUID, uint64_t>", " foo", "foo<bar >", "a  b<c,  d>",
                         "foo<bar>\t", "Foo<Bar, Baz>"])
        return dict(tn=tn, raw=rand_bytes(rng, rng.choice([0, 1, 7, 40])), kind="unknown", t=None)
    # partially unknown: well-formed known prefix, then arbitrary bytes
    junk = rand_bytes(rng, rng.choice([1, 5, 30]))
    s = "é".encode()
    sraw = len(s).to_bytes(8, "little") + s
    tn, raw = rng.choice([
        ("sequence<foo>", (2).to_bytes(8, "little") + junk),
        ("sequence<foo>", (0).to_bytes(8, "little")),
        ("mapping<string,foo>", (1).to_bytes(8, "little") + sraw + junk),
        ("mapping<string,foo>", (0).to_bytes(8, "little")),
        ("tuple<uint8_t,foo<bar>>", b"\x09" + junk),
        ("variant<uint8_t,foo>", (1).to_bytes(8, "little") + junk),
        ("variant<uint8_t,foo>", (0).to_bytes(8, "little") + b"\x2a"),
        ("sequence<tuple<string,sequence<mapping<uint8_t,foo>>>>",
         (1).to_bytes(8, "little") + sraw + (1).to_bytes(8, "little") + (1).to_bytes(8, "little") + b"\x01" + junk),
        ("set<tuple<uint16_t,foo>>", (1).to_bytes(8, "little") + b"\x01\x02" + junk),
        ("sequence<tuple<uint16_t,sequence<foo>>>", (1).to_bytes(8, "little") + b"\x01\x02" + (0).to_bytes(8, "little")),
        ("mapping<UUID, acme.record>", (1).to_bytes(8, "little") + bytes(range(16)) + junk),
        ("mapping<UUID, uint64_t>", (1).to_bytes(8, "little") + bytes(range(16)) + (7).to_bytes(8, "little")),
        ("tuple<uint8_t, uint8_t>", b"\x01\x02"),
    ])
    return dict(tn=tn, raw=raw, kind="partial", t=None)


def elem_type(t):
    return t[1][0] if t and t[0] in ("sequence", "set") else None


def _encodable(t, env, v):
    try:
        oracle_encode(t, v, env)
        return True
    except OracleError:
        return False


def mutate_in_place(rng, d, t, env):
    """returns True if d was changed in place (only by values the element type can hold)"""
    try:
        if isinstance(d, list) and t and t[0] == "sequence":
            x = auxval.rand_value(rng, t[1][0], env)
            if not _encodable(t[1][0], env, x):
                return False
            d.append(x)
            return True
        if isinstance(d, set) and t and t[0] == "set":
            x = auxval.rand_value(rng, t[1][0], env)
            if not _encodable(t[1][0], env, x):
                return False
            d.add(x)
            return True
        if isinstance(d, dict) and t and t[0] == "mapping":
            k, x = auxval.rand_value(rng, t[1][0], env), auxval.rand_value(rng, t[1][1], env)
            if not (_encodable(t[1][0], env, k) and _encodable(t[1][1], env, x)):
                return False
            d[k] = x
            return True
    except TypeError:
        return False
    return False


def untyped_and_empty_tables(ctx, g):
    """EMPTINESS at the file level: tables as another writer may leave them -- a type name of length zero (with and without payload), a
    payload of length zero under a known, an unknown and a malformed name, a key of length zero -- at IR and at module level.  None of
    them is read: each is written back under its key with the very type name and the very bytes, also in a second generation."""
    import protocheck
    ir = g.IR()
    g.Module(name="m", ir=ir)
    p = protocheck.parse_body(protocheck.save_bytes(ir))
    tables = {"untyped": ("", b"\x01\x02\x03"), "untyped-empty": ("", b""), "": ("uint8_t", b"\x07"), "empty-known": ("sequence<uint8_t>", b""),
              "empty-unknown": ("vendor.custom", b""), "empty-malformed": ("mapping<", b""), "typed": ("string", (1).to_bytes(8, "little") + b"x")}
    for cont in (p, p.modules[0]):
        for k, (tn, raw) in tables.items():
            cont.aux_data[k].type_name = tn
            cont.aux_data[k].data = raw
    f = protocheck.save_bytes(ir)[:8] + p.SerializeToString()
    for gen in (1, 2):
        try:
            ir2 = protocheck.load_bytes(g, f)
            f2 = protocheck.save_bytes(ir2)
        except Exception as e:  # noqa: BLE001
            ctx.add("oracle", "table-lost", "a file whose tables have empty type names / empty payloads / an empty key cannot be loaded and saved again untouched (generation %d): %s"
                    % (gen, exc_name(g, e)), {"file": f.hex()})
            return
        p2 = protocheck.parse_body(f2)
        for where, cont in (("IR", p2), ("module", p2.modules[0])):
            for k, (tn, raw) in tables.items():
                ctx.count("untyped_or_empty_tables_passed_through")
                ctx.case("untyped-empty:%s:%s:%d" % (where, k, gen), True)
                if k not in cont.aux_data:
                    ctx.add("oracle", "table-lost", "%s-level table %r (type name %r, %d bytes), never read, is missing from the file written in generation %d" % (where, k, tn, len(raw), gen),
                            {"file": f.hex(), "table": k})
                elif cont.aux_data[k].type_name != tn or bytes(cont.aux_data[k].data) != raw:
                    ctx.add("oracle", "stale-or-wrong-bytes", "%s-level table %r, never read, was written as (%r, %r), loaded as (%r, %r)" % (where, k, cont.aux_data[k].type_name, bytes(cont.aux_data[k].data), tn, raw),
                            {"file": f.hex(), "table": k})
        f = f2


def run(ctx):
    g = gtirb_from_repo.load()
    untyped_and_empty_tables(ctx, g)
    rng = ctx.rng
    IRm = gtirb_from_repo.msg("IR")
    n_irs = 60 if ctx.quick else 600
    gens = 3 if ctx.quick else 4
    all_reqs, all_checks = [], []
    n_tables = 0
    for _ in range(n_irs):
        # a file written by "someone else": built directly from the descriptors
        m = IRm()
        ir_uuid, mod_uuid, px_uuid = (uuidlib.UUID(int=rng.getrandbits(128)) for _ in range(3))
        m.uuid = ir_uuid.bytes
        m.version = g.version.PROTOBUF_VERSION
        pm = m.modules.add()
        pm.uuid = mod_uuid.bytes
        pm.name = "mod"
        pm.proxies.add().uuid = px_uuid.bytes
        env = LoadedEnv(g, {ir_uuid.int: 1, mod_uuid.int: 2, px_uuid.int: 3})
        # need a bound IR to generate node-valued data
        tmp = g.IR.load_protobuf_file(io.BytesIO(b"GTIRB\0\0" + bytes([g.version.PROTOBUF_VERSION]) + m.SerializeToString()))
        env.bind(tmp)
        tables = {}
        for i in range(rng.choice([3, 6, 10])):
            tb = gen_table(rng, env, g)
            where = rng.choice(["ir", "mod"])
            key = "%s%d" % (where, i)
            tables[key] = tb
            dst = m.aux_data if where == "ir" else pm.aux_data
            dst[key].type_name = tb["tn"]
            dst[key].data = tb["raw"]
            ctx.count("table_kind:" + tb["kind"])
        n_tables += len(tables)
        data = b"GTIRB\0\0" + bytes([g.version.PROTOBUF_VERSION]) + m.SerializeToString()
        mops = {k: [] for k in tables}          # model op list per table
        checks = {k: [] for k in tables}        # (model op index, kind, expected impl observation)
        state = {k: dict(loaded_tn=tb["tn"], loaded_raw=tb["raw"], tn=tb["tn"], touched=False, t=tb["t"], kind=tb["kind"], dead=False)
                 for k, tb in tables.items()}
        for gen in range(gens):
            try:
                with time_limit(20):
                    ir = g.IR.load_protobuf_file(io.BytesIO(data))
            except Exception as e:  # noqa: BLE001
                ctx.add("oracle", "reload-fails", "a file written by save does not load: %s" % exc_name(g, e), {"file": data.hex()})
                break
            env.bind(ir)
            (mod,) = ir.modules
            # the caller takes its references to the tables FIRST and keeps using them after the structural edits below
            handles = {k: (ir.aux_data if k.startswith("ir") else mod.aux_data)[k] for k in tables}
            # structural edits that do not touch any table: detaching / re-attaching the module (also through another IR) must not
            # count as reading its tables
            q = rng.random()
            if q < 0.12:
                ir.modules.remove(mod)
                ir.modules.append(mod)
                ctx.count("module_detached_and_reattached")
            elif q < 0.24:
                other_ir = g.IR()
                mod.ir = other_ir
                mod.ir = ir
                ctx.count("module_moved_through_another_ir")
            elif q < 0.3:
                mod.ir = None
                mod.ir = ir
                ctx.count("module_detached_and_reattached")
            hist = {}
            for k in tables:
                st = state[k]
                ad = handles[k]
                if (ir.aux_data if k.startswith("ir") else mod.aux_data)[k] is not ad:
                    ctx.count("table_object_replaced_by_a_structural_edit")      # judged by its consequence: the edits below go through `ad`
                ops = []
                for _ in range(rng.choice([0, 0, 1, 1, 2, 3])):
                    ops.append(rng.choice(["read", "read", "mutate", "assign", "retype", "retype_back", "copy"]))
                hist[k] = list(ops)
                for o in ops:
                    ctx.count("op:" + o)
                    if o in ("read", "mutate"):
                        try:
                            with time_limit(5):
                                d = ad.data
                            ob = ("ok", canon(to_sx(d, env)))
                        except ImplTimeout:
                            ob = ("err", "HANG")
                        except Exception as e:  # noqa: BLE001
                            ob = ("err", exc_name(g, e))
                        mops[k].append([0])
                        checks[k].append((len(mops[k]) - 1, "read", ob))
                        if ob[0] == "ok":
                            st["touched"] = True
                            # the type the value was decoded under is the loaded one
                            if o == "mutate" and st["kind"] == "known" and st["tn"] == st["loaded_tn"] and mutate_in_place(rng, d, st["t"], env):
                                mops[k].append([1, to_sx(d, env)])
                                checks[k].append((len(mops[k]) - 1, "ok", None))
                    elif o == "assign":
                        if st["kind"] == "known" and st["tn"] == type_str(st["t"]):
                            v = auxval.rand_value(rng, st["t"], env)
                            try:
                                oracle_encode(st["t"], v, env)       # only values the type can hold (e.g. no double beyond the float32 range)
                            except OracleError:
                                continue
                            ad.data = v
                            st["touched"] = True
                            mops[k].append([2, to_sx(v, env)])
                            checks[k].append((len(mops[k]) - 1, "ok", None))
                    elif o == "retype":
                        if st["kind"] == "known" and st["t"][0] in WIDER and st["tn"] == type_str(st["t"]):
                            new = WIDER[st["t"][0]]
                            ad.type_name = new
                            st["tn"] = new
                            st["t"] = (new, [])
                            mops[k].append([3, zs(new)])
                            checks[k].append((len(mops[k]) - 1, "ok", None))
                    elif o == "copy":
                        # the table object is replaced by a COPY of itself (copy.deepcopy / a pickle round trip) in its container: a copy
                        # of a table is that table -- same pending bytes, same name they were loaded under, same value (no model op)
                        import copy as _copy
                        import pickle as _pickle
                        how = rng.choice(["deepcopy", "pickle"])
                        try:
                            ad2 = _copy.deepcopy(ad) if how == "deepcopy" else _pickle.loads(_pickle.dumps(ad))
                        except Exception:  # noqa: BLE001
                            ctx.count("table_copy_unsupported:" + how)
                            continue
                        (ir.aux_data if k.startswith("ir") else mod.aux_data)[k] = ad2
                        ad = handles[k] = ad2
                        ctx.count("table_replaced_by_its_copy:" + how)
                    elif o == "retype_back":
                        # assign the same name again: must not count as a change
                        ad.type_name = str(st["tn"])
                        mops[k].append([3, zs(st["tn"])])
                        checks[k].append((len(mops[k]) - 1, "ok", None))
                # expectations of the direct oracle, computed before save
                exp = None
                if not st["touched"] and st["tn"] == st["loaded_tn"]:
                    exp = ("verbatim", st["loaded_raw"])
                elif st["kind"] in ("unknown", "partial") and st["touched"]:
                    d = ad.data
                    if isinstance(d, g.serialization.UnknownData):
                        exp = ("sticky", st["loaded_raw"])
                    else:
                        exp = ("skip", None)
                elif st["touched"] and st["kind"] == "known":
                    try:
                        exp = ("encoded", bytes(oracle_encode(st["t"], ad.data, env)))
                    except OracleError:
                        exp = ("skip", None)
                elif st["kind"] == "known" and st["tn"] != st["loaded_tn"]:
                    exp = ("retyped", ad)          # judged after save: encoding, under the new name, of the value decoded under the old
                else:
                    exp = ("skip", None)
                st["exp"] = exp
                if st["touched"]:
                    mops[k].append([6, to_sx(ad.data, env)])
                    checks[k].append((len(mops[k]) - 1, "ok", None))
            ir_copied = False
            if rng.random() < 0.2:
                ir_copied = True
                # ... or the WHOLE IR is copied and the copy is what gets saved (a copied set or dict may iterate in another order: for
                # such a generation written bytes are compared up to the order of set elements and mapping entries)
                import copy as _copy
                import pickle as _pickle
                how = rng.choice(["deepcopy", "pickle"])
                try:
                    ir = _copy.deepcopy(ir) if how == "deepcopy" else _pickle.loads(_pickle.dumps(ir))
                    ctx.count("ir_replaced_by_its_copy_before_save:" + how)
                except Exception:  # noqa: BLE001
                    ctx.count("ir_copy_unsupported:" + how)
            buf = io.BytesIO()
            try:
                with time_limit(30):
                    ir.save_protobuf_file(buf)
            except Exception as e:  # noqa: BLE001
                ctx.add("oracle", "save-fails", "save raised %s for tables that must be writable" % exc_name(g, e),
                        {"history": hist, "tables": {k: (tb["tn"], tb["raw"].hex()) for k, tb in tables.items()}})
                break
            data = buf.getvalue()
            out = IRm()
            out.ParseFromString(data[8:])
            for k in tables:
                st = state[k]
                src = out.aux_data if k.startswith("ir") else out.modules[0].aux_data
                if k not in src:
                    ctx.add("oracle", "table-lost", "table %s missing from the written file" % k, {"history": hist[k], "type_name": st["tn"]})
                    continue
                got_tn, got = src[k].type_name, bytes(src[k].data)
                kind, want = st["exp"]
                ctx.count("expect:" + kind)
                desc = {"table": k, "generation": gen, "ops_this_generation": hist[k], "loaded_type_name": st["loaded_tn"],
                        "loaded_bytes": st["loaded_raw"].hex(), "type_name_at_save": st["tn"], "written_type_name": got_tn,
                        "written_bytes": got.hex(), "table_kind": st["kind"]}
                if got_tn != st["tn"]:
                    ctx.add("oracle", "type-name-changed", "written type name differs from the table's type_name", desc)
                if kind == "verbatim" and got != want:
                    ctx.add("oracle", "untouched-rewritten", "an untouched table was not written back byte for byte", desc)
                if kind == "sticky" and got != want:
                    ctx.add("oracle", "unknown-bytes-changed", "a table with an unknown type name changed its bytes after being read", desc)
                if kind == "retyped":
                    try:
                        want = bytes(oracle_encode(st["t"], want.data, env))
                        kind = "encoded"
                    except Exception:  # noqa: BLE001
                        kind = "skip"
                if kind == "encoded" and got != want and ir_copied and st["kind"] == "known":
                    try:
                        if auxval.wire_canon(st["t"], got) == auxval.wire_canon(st["t"], want):
                            want = got
                    except Exception:  # noqa: BLE001
                        pass
                if kind == "encoded" and got != want:
                    desc["expected_bytes"] = want.hex()
                    ctx.add("oracle", "stale-or-wrong-bytes", "a touched table was not written as the encoding of its current value", desc)
                mops[k].append([4])
                if ir_copied and st["kind"] == "known" and st["touched"]:
                    st["loose"] = True          # (from here on the model's bytes and the file's may differ in element order)
                if st.get("loose") and st["kind"] == "known":
                    checks[k].append((len(mops[k]) - 1, "save-canon", (got_tn, got, st["t"])))
                else:
                    checks[k].append((len(mops[k]) - 1, "save", (got_tn, got)))
                mops[k].append([5])
                checks[k].append((len(mops[k]) - 1, "ok", None))
                st.update(loaded_tn=got_tn, loaded_raw=got, touched=False)
                ctx.case(k + repr(hist[k]) + st["tn"] + got.hex()[:64], bool(hist[k]))
        for k, tb in tables.items():
            all_reqs.append([10, env.getter, zs(tb["tn"]), list(tb["raw"]), mops[k]])
            all_checks.append((tb, mops[k], checks[k]))
    # failure stream: single tables whose save / read must fail with a given class
    fail_cases = [
        ("uint8_t", b"\x07", [("retype", "foo")], "EncodeError"),
        ("uint8_t", b"\x07", [("retype", "uint8_t<")], "TypeNameError"),
        ("uint8_t<", b"\x07", [("read", None)], "TypeNameError"),
        ("uint8_t<", b"\x07", [], None),                      # untouched malformed name: verbatim
        ("sequence<uint8_t>", (1).to_bytes(8, "little") + b"\x01", [("retype", "sequence<bool>")], "EncodeError"),
        ("UUID", b"\x01\x02", [("read", None)], "ValueError"),
        ("string", (2).to_bytes(8, "little") + b"\xff\xfe", [("read", None)], "ValueError"),
        ("string", (2).to_bytes(8, "little") + b"\xff\xfe", [], None),
        ("double", b"\x01\x02", [("read", None)], "struct.error"),
    ]
    for tn, raw, ops, want_err in fail_cases:
        m = IRm()
        m.uuid = uuidlib.UUID(int=rng.getrandbits(128)).bytes
        m.version = g.version.PROTOBUF_VERSION
        m.aux_data["t"].type_name = tn
        m.aux_data["t"].data = raw
        ir = g.IR.load_protobuf_file(io.BytesIO(b"GTIRB\0\0" + bytes([g.version.PROTOBUF_VERSION]) + m.SerializeToString()))
        ad = ir.aux_data["t"]
        mo, ch = [], []
        for o, arg in ops:
            if o == "retype":
                ad.type_name = arg
                mo.append([3, zs(arg)]); ch.append((len(mo) - 1, "ok", None))
            else:
                try:
                    ad.data
                    ob = ("ok", None)
                except Exception as e:  # noqa: BLE001
                    ob = ("err", exc_name(g, e))
                mo.append([0]); ch.append((len(mo) - 1, "read-err", ob))
        buf = io.BytesIO()
        try:
            ir.save_protobuf_file(buf)
            out = IRm(); out.ParseFromString(buf.getvalue()[8:])
            ob = ("ok", (out.aux_data["t"].type_name, bytes(out.aux_data["t"].data)))
        except Exception as e:  # noqa: BLE001
            ob = ("err", exc_name(g, e))
        mo.append([4]); ch.append((len(mo) - 1, "save-any", ob))
        ctx.count("failure_stream:" + (ob[1] if ob[0] == "err" else "ok"))
        ctx.case("fail" + tn + repr(ops), True)
        all_reqs.append([10, [], zs(tn), list(raw), mo])
        all_checks.append((dict(tn=tn, raw=raw, kind="failure-stream"), mo, ch))
    resave_stream(ctx, g, rng, IRm, all_reqs, all_checks)
    through_constructor(ctx, g, rng, IRm)
    identical_tables(ctx, g, rng, IRm)
    unknown_name_not_reached(ctx, g, IRm)
    replies = model_batch(all_reqs)
    for (tb, mo, ch), rep in zip(all_checks, replies):
        for (idx, kind, want) in ch:
            r = rep[idx]
            mr = model_result(r) if r and r[0] in (0, -1) else ("bad", r)
            ok = True
            if kind == "ok":
                ok = mr[0] == "ok"
            elif kind == "read":
                if want[0] == "ok":
                    ok = mr[0] == "ok" and canon(mr[1]) == want[1]
                else:
                    ok = mr[0] == "err" and mr[1] == want[1]
            elif kind == "read-err":
                ok = (mr[0] == want[0]) and (want[0] == "ok" or mr[1] == want[1])
            elif kind == "save":
                ok = mr[0] == "ok" and "".join(map(chr, mr[1])) == want[0] and bytes(mr[2]) == want[1]
            elif kind == "save-canon":
                try:
                    ok = (mr[0] == "ok" and "".join(map(chr, mr[1])) == want[0]
                          and auxval.wire_canon(want[2], bytes(mr[2])) == auxval.wire_canon(want[2], want[1]))
                except Exception:  # noqa: BLE001
                    ok = False
            elif kind == "save-any":
                if want[0] == "ok":
                    ok = mr[0] == "ok" and "".join(map(chr, mr[1])) == want[1][0] and bytes(mr[2]) == want[1][1]
                else:
                    ok = mr[0] == "err" and mr[1] == want[1]
            if not ok:
                ctx.add("corr", "table-model-differs:" + kind,
                        "table %s (%s): implementation and model differ at op %d (%s)" % (tb["tn"], tb["kind"], idx, kind),
                        {"type_name": tb["tn"], "raw": tb["raw"].hex(), "model_ops": mo, "op_index": idx, "impl": repr(want)[:400],
                         "model": repr(mr)[:400], "stream": "C14 table history correspondence"})
                break
    ctx.cov["tables"] = n_tables
    ctx.cov["generations"] = gens
    ctx.cov["traces_validated_against_impl"] = len(all_reqs)
    ctx.cov["rule"] = ("tables of known / non-canonical / unknown / partially unknown types injected into files built directly from the "
                       "descriptors, %d generations of random op histories + real save/load; one evaluation = one table in one generation; "
                       "non-trivial = at least one op in that generation; distinct = (table, ops, type name, written bytes)" % gens)
    for (tb, mo, ch) in all_checks[:3]:
        ctx.sample({"type_name": tb["tn"], "raw": tb["raw"].hex()[:80], "kind": tb["kind"], "model_ops": repr(mo)[:300]})


def through_constructor(ctx, g, rng, IRm):
    """The other way tables reach a container: the `aux_data=` argument of IR(...) / Module(...) -- a dict, a list or tuple of pairs, a
    dict view, or a one-shot iterable (zip, generator, iterator over items()), all legal DictLike values.  Unread tables of a loaded
    IR (known, non-canonical, unknown and partially unknown types) and freshly built ones are handed to new containers that way and
    saved: every table is in the file, an unread one byte for byte under its type name, a fresh one as the encoding of its value."""
    forms = ["dict", "list", "tuple", "items-view", "iter-items", "zip", "generator", "map"]
    for rd in range(24 if ctx.quick else 400):
        src = g.IR()
        sm = g.Module(name="m", ir=src)
        env = LoadedEnv(g, {src.uuid.int: 1, sm.uuid.int: 2})
        env.bind(src)
        tabs = {}
        for k in range(rng.choice([1, 2, 4])):
            t = gen_table(rng, env, g)
            tabs["t%d" % k] = t
            (src if k % 2 else sm).aux_data["t%d" % k] = g.AuxData(g.serialization.UnknownData(t["raw"]), t["tn"]) if t["kind"] != "known" else g.AuxData(g.serialization.UnknownData(t["raw"]), t["tn"])
        buf = io.BytesIO()
        try:
            src.save_protobuf_file(buf)
            loaded = g.IR.load_protobuf_file(io.BytesIO(buf.getvalue()))
        except Exception as e:  # noqa: BLE001
            ctx.add("oracle", "save-fails", "building the source IR for the constructor scenario raised %s" % exc_name(g, e), {})
            continue
        carried = dict(loaded.aux_data)
        carried.update(loaded.modules[0].aux_data)           # unread lazily loaded tables
        fresh_v = [1, 2, 3]
        carried["fresh"] = g.AuxData(fresh_v, "sequence<uint16_t>")
        want = {k: (tabs[k]["tn"], tabs[k]["raw"]) for k in tabs}
        want["fresh"] = ("sequence<uint16_t>", (3).to_bytes(8, "little") + b"\x01\0\x02\0\x03\0")
        form = forms[rd % len(forms)]
        names, tables = list(carried), [carried[k] for k in carried]
        arg = {"dict": lambda: dict(carried), "list": lambda: list(carried.items()), "tuple": lambda: tuple(carried.items()),
               "items-view": lambda: carried.items(), "iter-items": lambda: iter(carried.items()), "zip": lambda: zip(names, tables),
               "generator": lambda: ((k, carried[k]) for k in names), "map": lambda: map(lambda k: (k, carried[k]), names)}[form]
        as_ir = rd % 3 != 0
        ctx.count("constructor_aux_form:" + form)
        ctx.case("ctor-aux:%d:%s:%s" % (rd, form, sorted(want)), True)
        try:
            if as_ir:
                ir2 = g.IR(aux_data=arg())
                holder = ir2
            else:
                ir2 = g.IR()
                holder = g.Module(name="n", aux_data=arg(), ir=ir2)
            buf = io.BytesIO()
            ir2.save_protobuf_file(buf)
            out = IRm()
            out.ParseFromString(buf.getvalue()[8:])
        except Exception as e:  # noqa: BLE001
            ctx.add("oracle", "save-fails", "%s(aux_data=<%s of (name, table) pairs>) followed by save raised %s" % ("IR" if as_ir else "Module", form, exc_name(g, e)), {"form": form})
            continue
        got = out.aux_data if as_ir else out.modules[0].aux_data
        missing = sorted(k for k in want if k not in got)
        if missing or sorted(holder.aux_data) != sorted(want):
            ctx.add("oracle", "table-lost", "%s(aux_data=<%s of (name, table) pairs>): the container holds %s and the saved file %s of the %d tables handed over"
                    % ("IR" if as_ir else "Module", form, sorted(holder.aux_data), sorted(got), len(want)), {"form": form, "missing": missing})
            continue
        for k, (tn, raw) in want.items():
            if got[k].type_name != tn or bytes(got[k].data) != raw:
                ctx.add("oracle", "stale-or-wrong-bytes", "a table (%s, type %r) handed to a new container through the constructor (%s) is written as %s / %r, not as the %s"
                        % ("unread, loaded" if k != "fresh" else "freshly built", tn, form, bytes(got[k].data).hex()[:80], got[k].type_name,
                           "bytes it was loaded with" if k != "fresh" else "encoding of its value"), {"form": form, "type_name": tn})
                break


def identical_tables(ctx, g, rng, IRm):
    """Several tables of ONE loaded IR with byte-identical payloads and the same type name (the same table stamped on the IR and on
    every module): each is a table of its own.  All are read, one is modified in place: the others still read as loaded, are not
    the same object, and are written back as the bytes they were loaded with; the modified one as the encoding of its new value."""
    samples = [("mapping<string,uint8_t>", {"a": 1}, lambda d: d.__setitem__("b", 2), {"a": 1, "b": 2}),
               ("sequence<uint16_t>", [1, 2], lambda d: d.append(3), [1, 2, 3]),
               ("set<uint8_t>", {5}, lambda d: d.add(6), {5, 6}),
               ("sequence<sequence<uint8_t>>", [[1]], lambda d: d[0].append(2), [[1, 2]]),
               ("mapping<uint8_t,sequence<string>>", {1: ["x"]}, lambda d: d[1].append("y"), {1: ["x", "y"]})]
    for si, (tn, v, edit, v2) in enumerate(samples):
        for order in ("read-all-then-edit", "edit-then-read-others"):
            src = g.IR()
            mods = [g.Module(name="m%d" % i, ir=src) for i in range(2)]
            import copy
            for cont in [src] + mods:
                cont.aux_data["same"] = g.AuxData(copy.deepcopy(v), tn)
            buf = io.BytesIO()
            src.save_protobuf_file(buf)
            p0 = IRm()
            p0.ParseFromString(buf.getvalue()[8:])
            raw = bytes(p0.aux_data["same"].data)
            ir = g.IR.load_protobuf_file(io.BytesIO(buf.getvalue()))
            conts = [ir] + list(ir.modules)
            ctx.case("identical-tables:%s:%s" % (tn, order), True)
            ctx.count("identical_table_scenarios")
            try:
                if order == "read-all-then-edit":
                    datas = [c.aux_data["same"].data for c in conts]
                    edit(datas[0])
                else:
                    d0 = conts[0].aux_data["same"].data
                    edit(d0)
                    datas = [d0] + [c.aux_data["same"].data for c in conts[1:]]
                if any(datas[i] is datas[j] for i in range(3) for j in range(i)):
                    ctx.add("oracle", "stale-or-wrong-bytes", "two tables (type %s) loaded with identical bytes hand out THE SAME object as their data" % tn, {"type_name": tn, "order": order})
                    continue
                if datas[0] != v2 or datas[1] != v or datas[2] != v:
                    ctx.add("oracle", "stale-or-wrong-bytes", "after one of three identical tables (type %s) was modified in place (%s) they read %r; expected %r and twice %r"
                            % (tn, order, datas, v2, v), {"type_name": tn, "order": order})
                    continue
                out = io.BytesIO()
                ir.save_protobuf_file(out)
                p = IRm()
                p.ParseFromString(out.getvalue()[8:])
                got = [bytes(p.aux_data["same"].data)] + [bytes(m.aux_data["same"].data) for m in p.modules]
                want0 = impl_bytes(g, v2, tn)
                if got[1] != raw or got[2] != raw or (want0 is not None and len(got[0]) != len(want0)):
                    ctx.add("oracle", "untouched-rewritten", "one of three identical tables (type %s) was modified in place; the other two are written as %s / %s, they were loaded as %s"
                            % (tn, got[1].hex(), got[2].hex(), raw.hex()), {"type_name": tn, "order": order})
            except Exception as e:  # noqa: BLE001
                ctx.add("oracle", "save-fails", "the identical-tables scenario (type %s, %s) raised %s" % (tn, order, exc_name(g, e)), {"type_name": tn})


def impl_bytes(g, v, tn):
    buf = io.BytesIO()
    try:
        g.AuxData.serializer.encode(buf, v, tn)
        return buf.getvalue()
    except Exception:  # noqa: BLE001
        return None


def unknown_name_not_reached(ctx, g, IRm):
    """Known finding (recorded, not repaired; Props/C14.v C14_unknown_not_reached_refuted): a type INVOLVING a name without codec keeps
    its bytes after a read only if decoding reaches that name.  With an empty sequence<foo> / a known variant alternative the read
    gives an ordinary value and the save re-encodes the known parts (a set listing an element twice, a bool byte 0x02).
    Reproduced on every run; a control table whose unknown part IS reached must keep its bytes."""
    one, two, zero = (1).to_bytes(8, "little"), (2).to_bytes(8, "little"), (0).to_bytes(8, "little")
    tables = [("tuple<set<uint8_t>,sequence<foo>>", two + b"\x05\x05" + zero, False),
              ("tuple<bool,mapping<string,foo>>", b"\x02" + zero, False),
              ("tuple<set<uint8_t>,variant<foo,uint8_t>>", two + b"\x05\x05" + one + b"\x09", False),
              ("tuple<set<uint8_t>,sequence<foo>>", two + b"\x05\x05" + one + b"\xab", True)]
    for tn, raw, reached in tables:
        ir = g.IR()
        ir.aux_data["t"] = g.AuxData(g.serialization.UnknownData(raw), tn)
        buf = io.BytesIO()
        ir.save_protobuf_file(buf)
        ir2 = g.IR.load_protobuf_file(io.BytesIO(buf.getvalue()))
        ctx.case("unknown-not-reached:%s:%s" % (tn, reached), True)
        try:
            ir2.aux_data["t"].data
            out = io.BytesIO()
            ir2.save_protobuf_file(out)
            p = IRm()
            p.ParseFromString(out.getvalue()[8:])
            got = bytes(p.aux_data["t"].data)
        except Exception as e:  # noqa: BLE001
            ctx.add("oracle", "unknown-bytes-changed", "a table of type %s (involving a name without codec) read and saved: %s" % (tn, exc_name(g, e)), {"type_name": tn})
            continue
        if got != raw:
            ctx.add("oracle", "unknown-name-not-reached" if not reached else "unknown-bytes-changed",
                    "a table of type %s involves a name without codec%s; read and saved it is written as %s, it was loaded as %s"
                    % (tn, " which decoding does not reach" if not reached else "", got.hex(), raw.hex()), {"type_name": tn, "loaded": raw.hex(), "written": got.hex()})


def resave_stream(ctx, g, rng, IRm, all_reqs, all_checks):
    """the SAME in-memory IR saved several times: a value obtained once (reference kept by the caller) is modified in place
    BETWEEN saves without touching `.data` again; every save must write the encoding of the value as it is then"""
    n = 40 if ctx.quick else 600
    for i in range(n):
        ir = g.IR()
        m = g.Module(name="m", ir=ir)
        env = LoadedEnv(g, {ir.uuid.int: 1, m.uuid.int: 2})
        env.bind(ir)
        def nofloat(t):
            return ("double", []) if t[0] == "float" else (t[0], [nofloat(x) for x in t[1]])
        et = nofloat(auxval.rand_type(rng, 1))
        kind = rng.choice(["sequence", "sequence", "mapping", "set"])
        if kind == "sequence":
            t = ("sequence", [et])
        elif kind == "set":
            t = ("set", [(rng.choice(auxval.HASHABLE_LEAVES), [])])
        else:
            t = ("mapping", [(rng.choice(auxval.HASHABLE_LEAVES), []), et])
        try:
            v = auxval.rand_value(rng, t, env, size=2)
            raw0 = bytes(oracle_encode(t, v, env))
            v0_sx = to_sx(v, env)            # before any in-place modification
        except Exception:  # noqa: BLE001
            continue
        tn = type_str(t)
        holder = ir if rng.random() < 0.5 else m
        loaded_first = rng.random() < 0.5
        holder.aux_data["t"] = g.AuxData(v, tn)
        mo, ch = [], []
        if loaded_first:
            # go through a file first, so the table starts as a lazily loaded one
            buf = io.BytesIO(); ir.save_protobuf_file(buf)
            ir = g.IR.load_protobuf_file(io.BytesIO(buf.getvalue()))
            env.bind(ir)
            holder = ir if "t" in ir.aux_data else next(iter(ir.modules))
        ad = holder.aux_data["t"]
        try:
            with time_limit(20):
                d = ad.data                  # the caller keeps this reference
        except ImplTimeout:
            ctx.add("oracle", "resave:read-hangs", "reading a table of type %s that this API wrote itself does not return" % tn,
                    {"type_name": tn, "value_sx": v0_sx})
            continue
        except Exception as e:  # noqa: BLE001
            ctx.add("oracle", "resave:read-fails", "reading a table of type %s that this API wrote itself raises %s" % (tn, exc_name(g, e)),
                    {"type_name": tn, "value_sx": v0_sx})
            continue
        mo.append([0]); ch.append((len(mo) - 1, "read", ("ok", canon(to_sx(d, env)))))
        for rnd in range(rng.choice([2, 3])):
            buf = io.BytesIO()
            ir.save_protobuf_file(buf)
            out = IRm(); out.ParseFromString(buf.getvalue()[8:])
            src = out.aux_data if "t" in out.aux_data else out.modules[0].aux_data
            got_tn, got = src["t"].type_name, bytes(src["t"].data)
            # the order in which a set/dict is written is the implementation's; judge by decoding with the independent reading of the bytes:
            # re-encode the held value in the order the implementation used (decode its bytes, compare values, then compare lengths)
            try:
                back = g.AuxData.serializer.decode(got, tn, ir.get_by_uuid)
                import codec_cases
                same = canon(to_sx(back, env)) == canon(codec_cases.expected_after_roundtrip(t, d, env)) and len(got) == len(bytes(oracle_encode(t, d, env)))
            except Exception:  # noqa: BLE001
                same = False
            ctx.count("resave:saves")
            if got_tn != tn or not same:
                ctx.add("oracle", "stale-or-wrong-bytes", "a table modified in place between two saves of the same IR was not written as the encoding of its current value",
                        {"type_name": tn, "round": rnd, "written_bytes": got.hex(), "current_value": repr(d)[:300], "loaded_first": loaded_first})
                break
            mo.append([6, to_sx(back, env)]); ch.append((len(mo) - 1, "ok", None))
            mo.append([4]); ch.append((len(mo) - 1, "save", (got_tn, got)))
            if not mutate_in_place(rng, d, t, env):      # through the reference obtained BEFORE the save; `.data` is not touched again
                break
            ctx.count("resave:in_place_mutations_between_saves")
            mo.append([1, to_sx(d, env)]); ch.append((len(mo) - 1, "ok", None))
        ctx.case("resave" + tn + repr(canon(to_sx(d, env)))[:200], True)
        # (judged by the direct oracle only: the model's statement for this situation is the theorem C14_touched_reencoded)


def replay(ctx, path):
    import replaylib
    return replaylib.replay_file(path)
