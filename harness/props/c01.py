"""C01 -- save then load reproduces the IR exactly.
RT: random self-contained IRs built through the public API (random construction orders, boundary catalogue) -> save -> load:
   content_of(loaded) == content_of(original) (public attributes only, sets compared as sets, module order kept), deep_eq both ways,
   AuxData type names and decoded values (node references come back as the loaded nodes), re-save gives the same message.
Correspondence: load(save(content)) on Model/Proto.v must succeed and give the same content.
The recorded finding D7 (entry point naming a code block of a LATER module) is generated on purpose in a dedicated stream."""
import json

import gtirb_from_repo
import irgen
import content
import protocheck
from common import exc_name

LEVEL = "proof"
TRUSTED = ("the protobuf runtime's wire codec (Parse(Serialize(m)) = m, range checks, presence)",)


def run(ctx):
    g = gtirb_from_repo.load()
    ctx.scope = {"deny": ("writer-field:", "writer:header", "writer:vertices", "reader")}
    cov = irgen.Cov(ctx)
    n = 80 if ctx.quick else 2500
    batch = protocheck.Batch()
    for i in range(n):
        ir, auxinfo = irgen.gen_ir(g, ctx.rng, cov)
        bs = protocheck.writer_stream(ctx, g, batch, ir, auxinfo, "RT%d" % i)
        if bs is None:
            continue
        loaded = protocheck.roundtrip_stream(ctx, g, batch, ir, auxinfo, bs, "RT%d" % i)
        ctx.case(repr(bs), len(bs) > 60)
        if i % 3 == 1 and loaded is not None and not ctx.findings:
            # load, EDIT the loaded IR (attributes, tables read and changed in place, one table left unread), save it, load again:
            # the third IR equals the edited second one
            by_uuid = {n.uuid: n for n in content.reach(loaded)}
            aux2 = []
            for k, (cont, key, t, v) in enumerate(auxinfo):
                c2 = by_uuid.get(cont.uuid)
                if c2 is None or key not in c2.aux_data:
                    continue
                if t[0] == "__raw__" or k % 3 == 2:
                    aux2.append((c2, key, t, v))           # left unread on purpose: expected with the value the first IR held
                    continue
                try:
                    v2 = c2.aux_data[key].data
                except Exception:  # noqa: BLE001
                    continue
                if t[0] == "sequence" and isinstance(v2, list) and v2 and ctx.rng.random() < 0.7:
                    v2.append(v2[0])
                aux2.append((c2, key, t, v2))
            for y in loaded.symbols:
                y.name = y.name + "~"
                y.at_end = not y.at_end
                break
            for bi2 in loaded.byte_intervals:
                if bi2.size < (1 << 63):
                    bi2.size = bi2.size + 1
                    break
            for m2 in loaded.modules:
                if abs(m2.rebase_delta) < (1 << 62):
                    m2.rebase_delta = 5 - m2.rebase_delta
                    break
            bs3 = protocheck.writer_stream(ctx, g, batch, loaded, aux2, "RT%d:edited-after-load" % i)
            if bs3 is not None:
                protocheck.roundtrip_stream(ctx, g, batch, loaded, aux2, bs3, "RT%d:edited-after-load" % i)
                ctx.count("saves_of_edited_loaded_irs")
                ctx.case(repr(bs3), True)
        if i % 3 == 0:
            # the SAME in-memory IR saved a second time after in-place edits (values reached through .data, attributes of nodes):
            # nothing remembered from the first save may survive into the second file
            edited = 0
            for cont, key, t, v in auxinfo:
                if t[0] == "sequence" and isinstance(v, list) and cont.aux_data[key].data is v:
                    if v and ctx.rng.random() < 0.7:
                        v.append(v[0])
                    elif v:
                        v.pop()
                    edited += 1
            for y in ir.symbols:
                y.name = y.name + "'"
                edited += 1
                break
            for b in ir.byte_blocks:
                if b.offset < (1 << 63):
                    b.offset += 1
                    edited += 1
                    break
            if edited:
                bs2 = protocheck.writer_stream(ctx, g, batch, ir, auxinfo, "RT%d:second-save" % i)
                if bs2 is not None:
                    protocheck.roundtrip_stream(ctx, g, batch, ir, auxinfo, bs2, "RT%d:second-save" % i)
                    ctx.count("second_saves_after_in_place_edits")
                    ctx.case(repr(bs2), True)
    # the file-name entry points (IR.save_protobuf / IR.load_protobuf) write and read the same bytes as the stream ones
    import os
    import tempfile
    for i in range(4 if ctx.quick else 40):
        ir, auxinfo = irgen.gen_ir(g, ctx.rng, cov)
        if protocheck.is_d7(g, ir):
            continue
        fd, path = tempfile.mkstemp(suffix=".gtirb")
        os.close(fd)
        try:
            ir.save_protobuf(path)
            on_disk = open(path, "rb").read()
            via_stream = protocheck.save_bytes(ir)
            m1 = content.canon_msg(content.msg_to_sx(protocheck.parse_body(on_disk)))
            m2 = content.canon_msg(content.msg_to_sx(protocheck.parse_body(via_stream)))
            if on_disk[:8] != via_stream[:8] or m1 != m2:
                ctx.add("oracle", "roundtrip:file-name-save", "IR.save_protobuf(path) writes another file than save_protobuf_file(stream)", {"file": on_disk.hex()})
            ir2 = g.IR.load_protobuf(path)
            c1 = content.canon_content(content.content_of(g, ir))
            c2 = content.canon_content(content.content_of(g, ir2))
            if c1 != c2:
                ctx.add("oracle", "roundtrip:content", "IR.load_protobuf(path) of a file written by IR.save_protobuf(path) differs from the original at %s"
                        % (protocheck.first_diff(c1, c2) or {}).get("path"), {"file": on_disk.hex()})
            ctx.count("file_name_round_trips")
            ctx.case("file-name:" + repr(on_disk), True)
        except Exception as e:  # noqa: BLE001
            ctx.add("oracle", "roundtrip:file-name-raised", "save_protobuf/load_protobuf by file name raised %s" % exc_name(g, e), {})
        finally:
            os.remove(path)
    # dedicated stream for the recorded finding: entry point in a later module
    def fixed_d7():
        ir = g.IR()
        m1, m2 = g.Module(name="first", ir=ir), g.Module(name="second", ir=ir)
        bi = g.ByteInterval(size=4, section=g.Section(name="s", module=m2))
        m1.entry_point = g.CodeBlock(size=1, byte_interval=bi)
        return ir, []
    found, tries = 0, 0
    while found < 3 and tries < 60:
        tries += 1
        # the first case is a fixed minimal one, so that the recorded finding is reproduced on every run whatever the seed
        ir, auxinfo = fixed_d7() if tries == 1 else irgen.gen_ir(g, ctx.rng, cov, n_modules=2, entry_later=True, with_aux=False)
        if not protocheck.is_d7(g, ir):
            continue
        found += 1
        i = found
        bs = protocheck.save_bytes(ir)
        protocheck.roundtrip_stream(ctx, g, batch, ir, auxinfo, bs, "D7-%d" % i)
        ctx.case(repr(bs), True)
        ctx.count("entry-point-later-module-cases")
    moved_loaded_module(ctx, g)
    batch.run()
    ctx.cov["traces_validated_against_impl"] = n
    ctx.cov["rule"] = ("%d random self-contained IRs (0-3 modules; sections, intervals with and without address, code/data blocks, proxies, symbols with referent / value incl. 0 / "
                       "none, symbolic expressions with known and unknown attribute numbers, CFG edges with None / all-false / general labels, entry points in the own or an earlier "
                       "module, AuxData at IR and module level with node references) saved and loaded; boundary classes hit are counted in distribution; non-trivial = file longer "
                       "than 60 bytes" % n)
    ctx.sample({"stream": "RT", "n": n})


def moved_loaded_module(ctx, g):
    """Known finding (recorded, not repaired): an unread table of a LOADED module resolves its UUID entries through the IR that
    loaded it.  Once the module is moved into another IR (merging files: built through the public API, self-contained), the table
    reads plain UUIDs for nodes that are attached to the IR it now belongs to -- and after save + load of that IR it reads node
    objects: the decoded values differ across the round trip.  A table read BEFORE the move must round-trip (control)."""
    import io
    for read_first in (True, False):
        src = g.IR()
        m = g.Module(name="m", ir=src)
        bi = g.ByteInterval(size=4, section=g.Section(name="s", module=m))
        blk = g.CodeBlock(size=1, byte_interval=bi)
        m.aux_data["alignment"] = g.AuxData({blk: 16}, "mapping<UUID,uint64_t>")
        buf = io.BytesIO()
        src.save_protobuf_file(buf)
        loaded = g.IR.load_protobuf_file(io.BytesIO(buf.getvalue()))
        lm = loaded.modules[0]
        if read_first:
            lm.aux_data["alignment"].data
        merged = g.IR()
        merged.modules.append(lm)
        before = lm.aux_data["alignment"].data
        out = io.BytesIO()
        merged.save_protobuf_file(out)
        again = g.IR.load_protobuf_file(io.BytesIO(out.getvalue()))
        after = again.modules[0].aux_data["alignment"].data
        ctx.case("moved-loaded-module:%s" % read_first, True)
        kb = ["node" if isinstance(k, g.Node) else "uuid" for k in before]
        ka = ["node" if isinstance(k, g.Node) else "uuid" for k in after]
        if kb != ka:
            ctx.add("oracle", "lazy-table-bound-to-loading-ir" if not read_first else "roundtrip:aux",
                    "a loaded module moved into another IR%s: its table reads %s keys in the IR that is saved and %s keys in the IR loaded from that file"
                    % (" after its table was read" if read_first else " before its table was read", kb, ka), {"read_first": read_first})


def replay(ctx, path):
    import replaylib
    return replaylib.replay_file(path)
