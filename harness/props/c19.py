"""C19 -- interval byte storage and block views stay consistent.
Direct oracle: the sentences of the property evaluated on public attributes after every assignment (initialized_size == len(contents),
pad/truncate, truncate-on-shrink, stored bytes <= size, block address/contents/contains_*), plus save/load of the owning IR.
Correspondence: the same constructor arguments and assignment history on Model/ByteStore.v (extracted), every observation compared."""
import io
import json

import gtirb_from_repo
from common import ERR_CODES, exc_name, model_batch

LEVEL = "proof"
TRUSTED = ("bytearray slicing/concatenation semantics are CPython's; the protobuf runtime carries contents and size unchanged",)
CODE_OF_ERR = {v: k for k, v in ERR_CODES.items()}


def opt(x):
    return [] if x is None else [x]


def one_case(ctx, g, rng, length):
    n = rng.choice([0, 0, 1, 2, 3, 5, 8, 12])
    contents = bytes(rng.randrange(256) for _ in range(n))
    # (a declared size is any uint64: BSS-like intervals with few stored bytes and sizes of 2^63 and beyond save and load)
    size = rng.choice([None, None, n, n + 1, n + 7, max(0, n - 1), 0, 2 * n + 3, 1 << 63, (1 << 64) - 1, (1 << 63) - 1, (1 << 32) + 5])
    init = rng.choice([None, None, None, 0, n, max(0, n - 2), n + 2, (size if size is not None and size <= 4096 else n)])
    # (at the top of the address space a block's address = interval address + offset goes beyond 2^64: plain integer arithmetic)
    addr = rng.choice([None, 0, 16, 4096, (1 << 64) - 64, (1 << 64) - 8, (1 << 64) - 1, (1 << 64) - 1])
    items, impl, problems = [], [], []
    head = [31, opt(size), opt(init), list(contents)]
    ir = g.IR()
    sec = g.Section(name="s", module=g.Module(name="m", ir=ir))
    # the caller's buffer: immutable bytes, or a bytearray the caller keeps (and may hand to a second interval, or edit later)
    form = rng.choice(["bytes", "bytes", "bytearray", "bytearray-shared", "bytearray-edited"])
    ctx.count("ctor_contents:" + form)
    buf = contents if form == "bytes" else bytearray(contents)
    twin = None
    try:
        bi = g.ByteInterval(address=addr, size=size, initialized_size=init, contents=buf, section=sec)
        if form == "bytearray-shared":
            twin = g.ByteInterval(size=n, contents=buf, section=g.Section(name="t", module=next(iter(ir.modules))))
    except Exception as e:  # noqa: BLE001
        esz = n if size is None else size
        ein = n if init is None else init
        if not (isinstance(e, ValueError) and ein > esz):
            problems.append("constructor raised %s for size=%r initialized_size=%r len(contents)=%d" % (exc_name(g, e), size, init, n))
        ctx.count("ctor_rejected")
        return head + [[]], [[-1, CODE_OF_ERR.get(exc_name(g, e), 999)]], problems
    esz = n if size is None else size
    ein = n if init is None else init
    if ein > esz:
        problems.append("constructor accepted initialized_size %d > size %d" % (ein, esz))
    impl.append([0])
    shared = None
    if rng.random() < 0.3 and len(bi.contents) <= 4096:
        # a content edit on ANOTHER interval: its `contents` attribute is assigned the very buffer of this one (it fits: the size is
        # the buffer's length).  Size and initialized_size assignments on this interval are about THIS interval: the other one's
        # stored bytes never exceed its size because of them
        shared = g.ByteInterval(size=len(bi.contents), section=g.Section(name="u", module=next(iter(ir.modules))))
        shared.contents = bi.contents
        ctx.count("interval_sharing_its_buffer_by_assignment")
    if rng.random() < 0.5:
        # the interval is not alone in its section: neighbours without an address, at its own address, below and above it, empty and
        # not -- "the interval can always be saved and loaded back" whatever shares the section with it
        for _ in range(rng.choice([1, 2, 3])):
            g.ByteInterval(address=rng.choice([None, None, addr, 0, 16, (1 << 64) - 1]), size=rng.choice([2, 4]), contents=rng.choice([b"", b"ab"]), section=sec)
        ctx.count("interval_with_neighbours")
    blocks = []
    for _ in range(rng.choice([1, 2, 3])):
        ecap = min(esz, 64)          # most block extents stay near the stored bytes; some blocks reach to 2^63 and 2^64-1 (views are slices of the stored bytes)
        off = rng.choice([0, 0, 1, 2, max(0, n - 1), n, n + 1, ecap, max(0, ecap - 1), 0, 1, 1 << 63, (1 << 64) - 1])
        bsz = rng.choice([0, 1, 2, 4, n, ecap + 1, 2, 1 << 63, (1 << 64) - 1])
        cls = g.CodeBlock if rng.random() < 0.5 else g.DataBlock
        blocks.append(cls(offset=off, size=bsz, byte_interval=bi))
    # what else an interval carries stays where it is when the size shrinks below it (blocks above; symbolic expressions at offsets
    # inside, at and beyond the size) -- and the file saved in that state loads
    if rng.random() < 0.5:
        ysym = g.Symbol("y", module=next(iter(ir.modules)))
        for k in set(rng.sample([0, 1, max(0, n - 1), n, n + 1, n + 6, 40, 63], rng.choice([1, 2, 4]))):
            bi.symbolic_expressions[k] = g.SymAddrConst(k, ysym)
        ctx.count("interval_with_expressions")

    # a block that belongs to no interval: no address, no bytes, address membership always false, offset membership by its own range
    free = (g.CodeBlock if rng.random() < 0.5 else g.DataBlock)(offset=rng.choice([0, 3]), size=rng.choice([0, 2]))
    fr = (free.address, bytes(free.contents), [free.contains_address(a) for a in (0, 3, 4, 100)],
          [free.contains_offset(o) for o in (free.offset - 1, free.offset, free.offset + free.size - 1, free.offset + free.size)])
    want_fr = (None, b"", [False] * 4, [free.offset <= o < free.offset + free.size for o in (free.offset - 1, free.offset, free.offset + free.size - 1, free.offset + free.size)])
    ctx.count("detached_block_views")
    if fr != want_fr:
        problems.append("a block outside any interval reports address/contents/contains_address/contains_offset %r, expected %r" % (fr, want_fr))

    held = []

    def observe():
        nonlocal beyond
        if twin is not None and (bytes(twin.contents) != contents or twin.size != n or twin.initialized_size != n):
            problems.append("a second interval constructed from the same caller buffer changed with the first: size %d, bytes %r (were %d, %r)"
                            % (twin.size, bytes(twin.contents), n, contents))
        if shared is not None and len(shared.contents) > shared.size:
            problems.append("a second interval whose contents attribute was assigned this interval's buffer (%d bytes, its size) now stores %d bytes in size %d: "
                            "an assignment to THIS interval grew it" % (shared.size, len(shared.contents), shared.size))
        c = bytes(bi.contents)
        if len(c) <= bi.size:
            beyond = False          # back inside the invariant (e.g. a later size assignment truncated)
        items.append([10]); impl.append([0, bi.size, bi.initialized_size, list(c)])
        if bi.initialized_size != len(c):
            problems.append("initialized_size %d but %d bytes stored" % (bi.initialized_size, len(c)))
        if len(c) > bi.size and not beyond:
            problems.append("%d bytes stored in an interval of size %d" % (len(c), bi.size))
        for v0, snap in held:
            if bytes(v0) != snap:
                problems.append("a value returned earlier by block.contents / interval.contents changed afterwards (%r, was %r)" % (bytes(v0), snap))
                break
        for b in blocks:
            got = b.contents                      # kept alive: later operations must neither be blocked by it nor change it
            bc = bytes(got)
            if len(held) < 40 and not isinstance(got, bytes):
                held.append((got, bc))
            items.append([11, b.offset, b.size]); impl.append([0, list(bc)])
            if bc != c[b.offset:b.offset + b.size]:
                problems.append("block contents %r differ from the interval bytes %r" % (bc, c[b.offset:b.offset + b.size]))
            want_addr = None if bi.address is None else bi.address + b.offset
            if b.address != want_addr:
                problems.append("block address %r, expected %r" % (b.address, want_addr))
            for o in (b.offset - 1, b.offset, b.offset + b.size - 1, b.offset + b.size, b.offset + b.size + 1):
                r = b.contains_offset(o)
                items.append([13, b.offset, b.size, o]); impl.append([0, int(r)])
                if r != (b.offset <= o < b.offset + b.size):
                    problems.append("contains_offset(%d) = %s for block [%d,+%d)" % (o, r, b.offset, b.size))
                a = o + (bi.address if bi.address is not None else 100)
                r2 = b.contains_address(a)
                items.append([12, opt(bi.address), b.offset, b.size, a]); impl.append([0, int(r2), opt(b.address)])
                want = bi.address is not None and (b.offset <= a - bi.address < b.offset + b.size)
                if r2 != want:
                    problems.append("contains_address(%d) = %s, expected %s" % (a, r2, want))
            ctx.count("block_views")

    def save_load():
        if beyond:
            return                  # more bytes than the size were assigned directly: outside the property
        buf = io.BytesIO()
        try:
            ir.save_protobuf_file(buf)
            ir2 = g.IR.load_protobuf_file(io.BytesIO(buf.getvalue()))
        except Exception as e:  # noqa: BLE001
            problems.append("save/load of the interval's IR raised %s: %s" % (exc_name(g, e), str(e)[:80]))
            items.append([14]); impl.append([-1, CODE_OF_ERR.get(exc_name(g, e), 999)])
            return
        bi2 = ir2.get_by_uuid(bi.uuid)
        items.append([14]); impl.append([0, bi2.size, list(bytes(bi2.contents))])
        if bi2.size != bi.size or bytes(bi2.contents) != bytes(bi.contents) or bi2.initialized_size != bi.initialized_size:
            problems.append("after save/load size/contents are %d/%r, were %d/%r" % (bi2.size, bytes(bi2.contents), bi.size, bytes(bi.contents)))
        if sorted(bi2.symbolic_expressions) != sorted(bi.symbolic_expressions) or sorted((b.offset, b.size) for b in bi2.blocks) != sorted((b.offset, b.size) for b in bi.blocks):
            problems.append("after save/load the interval (size %d) carries expressions at %s and blocks %s, before: %s and %s" % (
                bi.size, sorted(bi2.symbolic_expressions), sorted((b.offset, b.size) for b in bi2.blocks), sorted(bi.symbolic_expressions), sorted((b.offset, b.size) for b in bi.blocks)))
        # the block VIEWS of the loaded interval are those of the saved one: address (interval address, 0 included, plus offset),
        # bytes, membership of offsets and addresses at the edges
        def views(b, owner):
            base = owner.address if owner.address is not None else 100
            edges = (b.offset - 1, b.offset, b.offset + b.size - 1, b.offset + b.size)
            return (b.address, bytes(b.contents), [b.contains_offset(o) for o in edges], [b.contains_address(base + o) for o in edges])
        if bi2.address != bi.address:
            problems.append("after save/load the interval's address is %r, was %r" % (bi2.address, bi.address))
        for b in blocks:
            b2 = ir2.get_by_uuid(b.uuid)
            if b2 is None or views(b2, bi2) != views(b, bi):
                problems.append("after save/load the views (address, contents, contains_offset, contains_address at the edges) of the block [%d,+%d) are %r, were %r"
                                % (b.offset, b.size, None if b2 is None else views(b2, bi2), views(b, bi)))
                break
        ctx.count("save_load")

    def _one_step(r, old, cur):
        nonlocal beyond
        if r < 0.4:
            v = rng.choice([0, 1, cur - 1, cur, cur + 1, cur + 5, bi.size, bi.size + 1, max(0, cur - 3), 2, 7, 1 << 63, (1 << 64) - 1])
            v = min(max(0, v), (1 << 64) - 1)
            bi.size = v
            items.append([1, v]); impl.append([0])
            ctx.count("op:size" + ("<stored" if v < cur else (">=stored")))
            if (bytes(bi.contents) != old[:v]) if v < cur else (bytes(bi.contents) != old):
                problems.append("size=%d with %d bytes stored left %r" % (v, cur, bytes(bi.contents)))
            if bi.size != v:
                problems.append("size reads back %d after assigning %d" % (bi.size, v))
        elif r < 0.75:
            v = rng.choice([x for x in (0, cur - 1, cur, cur + 1, cur + 3, bi.size, bi.size - 1, bi.size + 1, bi.size + 4, 1) if x <= 4096])
            v = max(0, v)            # (never an attempt to STORE 2^63 bytes: huge values are for the declared size only)
            osz = bi.size
            bi.initialized_size = v
            items.append([2, v]); impl.append([0])
            ctx.count("op:init" + ("<stored" if v < cur else (">stored" if v > cur else "=stored")) + (">size" if v > osz else ""))
            want = old[:v] + b"\0" * max(0, v - cur)
            if bytes(bi.contents) != want:
                problems.append("initialized_size=%d on %r left %r" % (v, old, bytes(bi.contents)))
        elif r < 0.85:
            # `contents` is a plain attribute; direct assignment (bytes that fit, or -- outside the property's domain -- more)
            n2 = rng.choice([x for x in (0, 1, cur, bi.size, max(0, bi.size - 1), bi.size + 2) if x <= 4096])
            nb = bytes(rng.randrange(256) for _ in range(n2))
            fits = n2 <= bi.size
            bi.contents = bytearray(nb)
            items.append([4, list(nb)]); impl.append([0])
            ctx.count("op:contents" + ("-fits" if fits else "-beyond-size"))
            if not fits:
                beyond = True
        elif cur:
            i, b = rng.randrange(cur), rng.randrange(256)
            bi.contents[i] = b
            items.append([3, i, b]); impl.append([0])
            ctx.count("op:poke")
        else:
            return False
        return True

    beyond = False
    observe()
    if form == "bytearray-edited":
        # the caller goes on using its own buffer: the interval must have its own copy
        before = bytes(bi.contents)
        buf.extend(b"\xaa\xbb")
        if n:
            buf[0] ^= 0xff
        if bytes(bi.contents) != before:
            problems.append("editing the caller's bytearray after construction changed the interval's bytes to %r" % bytes(bi.contents))
        observe()
    for _ in range(length):
        if problems:
            break
        r = rng.random()
        old = bytes(bi.contents)
        cur = len(old)
        try:
            step_ok = _one_step(r, old, cur)
        except Exception as e:  # noqa: BLE001
            problems.append("an assignment to size / initialized_size / contents raised %s (%d bytes stored, size %d)" % (exc_name(g, e), cur, bi.size))
            break
        if step_ok is False:
            continue
        observe()
        if rng.random() < 0.3:
            save_load()
    if not problems:
        save_load()
    return head + [items], impl, problems


def views_outlive_the_callers_references(ctx, g, rng, n):
    """LIFETIME: the caller holds only a BLOCK -- the interval was created inline, or the IR that was loaded is dropped -- and garbage
    is collected: the block's views (address, bytes, membership of offsets and addresses) are still those of its interval."""
    import gc
    for k in range(n):
        addr = rng.choice([0, 16, 4096, (1 << 64) - 64])
        data = bytes(rng.randrange(256) for _ in range(rng.choice([4, 8, 12])))
        off = rng.choice([0, 1, 2, len(data) - 1])
        size = rng.choice([0, 1, 3, len(data)])
        cls = g.CodeBlock if k % 2 else g.DataBlock
        route = ("inline-interval", "built-ir-dropped", "loaded-ir-dropped")[k % 3]
        if route == "inline-interval":
            blk = cls(offset=off, size=size, byte_interval=g.ByteInterval(address=addr, size=len(data) + 4, contents=data))
        else:
            ir = g.IR()
            bi = g.ByteInterval(address=addr, size=len(data) + 4, contents=data, section=g.Section(name="s", module=g.Module(name="m", ir=ir)))
            blk = cls(offset=off, size=size, byte_interval=bi)
            if route == "loaded-ir-dropped":
                buf = io.BytesIO()
                ir.save_protobuf_file(buf)
                blk = g.IR.load_protobuf_file(io.BytesIO(buf.getvalue())).get_by_uuid(blk.uuid)
            ir = bi = None
        gc.collect()
        edges = (off - 1, off, off + size - 1, off + size)
        want = (addr + off, data[off:off + size], [off <= o < off + size for o in edges], [off <= o < off + size for o in edges])
        try:
            got = (blk.address, bytes(blk.contents), [blk.contains_offset(o) for o in edges], [blk.contains_address(addr + o) for o in edges])
        except Exception as e:  # noqa: BLE001
            got = ("raised", exc_name(g, e))
        ctx.count("block_views_with_only_the_block_held:" + route)
        ctx.case("lifetime:%s:%d:%d:%d:%s" % (route, addr, off, size, data.hex()), True)
        if got != want:
            ctx.add("oracle", "bytes:lifetime", "a block held alone (%s) after a garbage collection: address / contents / contains_offset / contains_address at the edges are %r, its interval says %r"
                    % (route, got, want), {"route": route, "address": addr, "offset": off, "size": size, "contents": data.hex()})
            return


def loader_rejection(ctx, g, rng, n):
    """'construction and LOADING reject more stored bytes than the interval's size': a saved file is edited at message level so that
    one interval carries more bytes than its size (size lowered, or bytes appended) and loaded again -> ValueError, never an IR."""
    import protocheck
    for i in range(n):
        nb = rng.choice([1, 2, 5, 9])
        size = nb + rng.choice([0, 0, 1, 7])
        ir = g.IR()
        sec = g.Section(name="s", module=g.Module(name="m", ir=ir))
        others = [g.ByteInterval(size=4, contents=b"ab", section=sec) for _ in range(rng.choice([0, 1, 2]))]
        bi = g.ByteInterval(address=rng.choice([None, 0, 4096]), size=size, contents=bytes(rng.randrange(256) for _ in range(nb)), section=sec)
        g.CodeBlock(size=1, offset=0, byte_interval=bi)
        try:
            bs = protocheck.save_bytes(ir)
        except Exception as e:  # noqa: BLE001
            ctx.add("oracle", "bytes:cannot-save", "an IR whose section holds %d intervals (addresses %s), each storing no more bytes than its size, cannot be saved: %s"
                    % (len(others) + 1, [x.address for x in others + [bi]], exc_name(g, e)), {"addresses": [x.address for x in others + [bi]]})
            return
        p = protocheck.parse_body(bs)
        pbi = [x for x in p.modules[0].sections[0].byte_intervals if bytes(x.uuid) == bi.uuid.bytes][0]
        how = rng.choice(["size-lowered", "size-zero", "bytes-appended"])
        if how == "size-lowered":
            pbi.size = rng.randrange(0, nb)
        elif how == "size-zero":
            pbi.size = 0
        else:
            pbi.contents = bytes(pbi.contents) + bytes(size - nb + rng.choice([1, 2, 30]))
        f = bs[:8] + p.SerializeToString()
        ctx.case("loader-rejection:%s:%d/%d" % (how, len(pbi.contents), pbi.size), True)
        ctx.count("loader_rejection:" + how)
        try:
            ir2 = protocheck.load_bytes(g, f)
        except ValueError:
            continue
        except Exception as e:  # noqa: BLE001
            ctx.add("oracle", "load:bytes-beyond-size-class", "a file whose interval stores %d bytes in size %d is rejected with %s, not ValueError"
                    % (len(pbi.contents), pbi.size, exc_name(g, e)), {"file": f.hex(), "must_reject_with": "ValueError"})
            continue
        b2 = ir2.get_by_uuid(bi.uuid)
        ctx.add("oracle", "load:bytes-beyond-size", "a file whose interval stores %d bytes in size %d is loaded: the interval has size %r and %d stored bytes"
                % (len(pbi.contents), pbi.size, getattr(b2, "size", None), len(getattr(b2, "contents", b""))), {"file": f.hex(), "must_reject_with": "ValueError"})


def run(ctx):
    g = gtirb_from_repo.load()
    views_outlive_the_callers_references(ctx, g, ctx.rng, 30 if ctx.quick else 600)
    nc, ln = (300, 8) if ctx.quick else (6000, 14)
    loader_rejection(ctx, g, ctx.rng, 40 if ctx.quick else 600)
    cases = []
    for _ in range(nc):
        req, impl, problems = one_case(ctx, g, ctx.rng, ln)
        cases.append((req, impl))
        ctx.case(repr(req), len(req[4]) > 3)
        if problems:
            ops = [it for it in req[4] if it[0] < 10]
            ctx.add("oracle", "bytes:op%d" % (ops[-1][0] if ops else 0), "; ".join(problems[:3]), {"request": req, "problems": problems[:8]})
    reps = model_batch([req for req, _ in cases])
    for (req, impl), rep in zip(cases, reps):
        if isinstance(rep, tuple):
            ctx.add("corr", "bytes:model-died", "the model driver failed", {"request": req})
            continue
        if len(rep) != len(impl):
            ctx.add("corr", "bytes:ctor", "constructor outcome: implementation %s, model %s" % (impl[:1], rep[:1]), {"request": req, "impl": impl[:1], "model": rep[:1]})
            continue
        for i, (im, mo) in enumerate(zip(impl, rep)):
            if im != mo:
                it = req[4][i - 1] if i else "ctor"
                ctx.add("corr", "bytes:item%s" % (it[0] if i else "ctor"), "item %d %s: implementation %s, model %s" % (i, it, im, mo),
                        {"request": req[:4] + [req[4][:i]], "impl": im, "model": mo})
                break
    ctx.cov["histories"] = nc
    ctx.cov["traces_validated_against_impl"] = nc
    ctx.cov["rule"] = ("random constructor arguments (size/initialized_size given or defaulted, 0-12 stored bytes, accepted and rejected combinations), then %d assignments of size "
                       "(below, at, above the stored byte count), initialized_size (any value, also beyond the size: pad, truncate, grow), direct contents assignment and in-place byte edits; 1-3 blocks per interval partly or wholly beyond "
                       "the stored bytes; after every assignment all block views at every boundary +-1, and save/load of the owning IR on 30%% of the steps; non-trivial = more than 3 items" % ln)
    ctx.sample({"request": cases[0][0][:4], "first_items": cases[0][0][4][:6]})


def replay(ctx, path):
    import replaylib
    return replaylib.replay_file(path)
