"""C15 -- AuxData type names parse exactly per the grammar.
Correspondence: Serialization._parse_type (working tree) vs extracted parse_type.
Direct oracle: an independent recursive-descent recogniser + printer, in this file."""
import itertools

import gtirb_from_repo
from common import exc_name
from common import ERR_CODES, model_batch, zs

LEVEL = "proof"
TRUSTED = ("re.findall maximal-munch semantics and CPython recursion limit are modelled/observed, not proved "
           "(generated names stay below 300 nesting levels/siblings)",)

DELIMS = "<>,"


# ---------------- independent oracle (does not share code with the model or gtirb) ----------------
class _Rej(Exception):
    pass


def oracle_parse(s):
    """T ::= name | name '<' T (',' T)* '>' ; returns (name, [subtrees]) or None."""
    pos = 0

    def name():
        nonlocal pos
        st = pos
        while pos < len(s) and s[pos] not in DELIMS:
            pos += 1
        if pos == st:
            raise _Rej()
        return s[st:pos]

    def T():
        nonlocal pos
        nm = name()
        subs = []
        if pos < len(s) and s[pos] == "<":
            pos += 1
            subs.append(T())
            while pos < len(s) and s[pos] == ",":
                pos += 1
                subs.append(T())
            if pos >= len(s) or s[pos] != ">":
                raise _Rej()
            pos += 1
        return (nm, subs)

    try:
        # iterative depth is bounded by our generators; recursion is fine here
        t = T()
        if pos != len(s):
            return None
        return t
    except _Rej:
        return None


def oracle_print(t):
    nm, subs = t
    if not subs:
        return nm
    return nm + "<" + ",".join(oracle_print(x) for x in subs) + ">"


# ---------------- observations ----------------
def obs_tree(t):
    """gtirb SubtypeTree -> ('ok', nested) ; uses only .name/.subtypes"""
    return [zs(t.name), [obs_tree(x) for x in t.subtypes]]


def impl_parse(g, s):
    try:
        t = g.serialization.Serialization._parse_type(s)
    except g.serialization.TypeNameError:
        return ("err", "TypeNameError")
    except Exception as e:  # noqa: BLE001
        return ("err", type(e).__name__)
    return ("ok", obs_tree(t))


def model_obs(reply):
    if isinstance(reply, tuple):
        return ("err", reply[1])
    if reply[0] == 0:
        return ("ok", reply[1])
    return ("err", ERR_CODES.get(reply[1], "code%d" % reply[1]))


def oracle_obs(s):
    t = oracle_parse(s)
    if t is None:
        return ("err", "TypeNameError")

    def conv(t):
        return [zs(t[0]), [conv(x) for x in t[1]]]
    return ("ok", conv(t))


# ---------------- generators ----------------
def rand_name(rng):
    pools = ["ab", "abcxyz_0123456789", " \t\n\x00", "éßπ漢😀  ", "Addr", "uint64_t", "mapping",
             # characters that %-formatting, str.format, regular expressions, shells and quoting layers treat specially
             "%{}\\$", "%s", "%d", "%(x)s", "{0}", "'\"`", "()[]|*+?.^", "\r\x0b\x0c\x85", "\ufeff"]
    k = rng.choice([1, 1, 2, 3, 8])
    out = []
    for _ in range(k):
        p = rng.choice(pools)
        if len(p) > 3 and rng.random() < 0.3:
            out.append(p)
        else:
            out.append(rng.choice(p))
    return "".join(out)


def rand_tree(rng, depth, fan, budget=None):
    """random grammar tree with at most ~60 nodes"""
    if budget is None:
        budget = [60]
    nm = rand_name(rng)
    budget[0] -= 1
    if depth <= 0 or budget[0] <= 0 or rng.random() < 0.25:
        return (nm, [])
    n = rng.randint(1, fan)
    return (nm, [rand_tree(rng, depth - 1, fan, budget) for _ in range(n)])


def mutate(rng, s):
    if not s:
        return rng.choice(DELIMS)
    i = rng.randrange(len(s))
    k = rng.randrange(6)
    if k == 0:
        return s[:i] + s[i + 1:]
    if k == 1:
        return s[:i] + s[i] + s[i:]
    if k == 2:
        return s[:i] + rng.choice(DELIMS) + s[i:]
    if k == 3:
        j = rng.randrange(len(s))
        l = list(s)
        l[i], l[j] = l[j], l[i]
        return "".join(l)
    if k == 4:
        return s + rng.choice([">", ",", "<", "x", ",x", "<x>", ">x"])
    return s[:i] + rng.choice(DELIMS + "a") + s[i + 1:]


def delim_mutate(rng, s):
    """replace / delete / insert 1-3 DELIMITER characters (names kept): near-misses of the grammar that keep brackets roughly
    balanced, e.g. two commas of x<a<b>,c<d>,e> turned into '<' and '>'"""
    l = list(s)
    for _ in range(rng.choice([1, 2, 2, 3])):
        pos = [i for i, c in enumerate(l) if c in DELIMS]
        if not pos:
            break
        i = rng.choice(pos)
        k = rng.random()
        if k < 0.6:
            l[i] = rng.choice([c for c in DELIMS if c != l[i]])
        elif k < 0.8:
            del l[i]
        else:
            l.insert(i, rng.choice(DELIMS))
    return "".join(l)


def small_tree(rng, depth):
    nm = rng.choice("abcxyz")
    if depth <= 0 or rng.random() < 0.3:
        return (nm, [])
    return (nm, [small_tree(rng, depth - 1) for _ in range(rng.choice([1, 2, 2, 3]))])


TEST_NAMES = ["foo", "foo<bar>", "foo<bar<baz>>", "foo<bar,baz>", "foo<bar<baz>,qux>", "mapping<string,set<UUID>>",
              "foo<", "foo>", "foo<>", "foo,bar", "foo<bar>>", "<foo>", "", "foo<bar>baz", "foo<bar>,", ",", "a<b>,c<d>",
              "a<b,>", "a<,b>", "a<b><c>", "a b<c d, e>", "a<b\n>",
              # the same special characters in valid and in malformed names (an error path that formats the name must not trip)
              "100%", "100%<", "a%s<", "map<k%d,>", "%<>", "x<%(y)s>z", "%", "%%", "a<%>", "{}", "{0}<", "a<{>", "a<}>,", "\\", "a\\<b>", "a<\\>>",
              "$x<", "a.b<c*>", "a<(b>", "a<b)>,", "^a<b>$", "a|b<", "'a'<\"b\">", "'<", "`<`>"]


def through_entry_points(ctx, g):
    """The grammar decides at the public entry points too (Serialization.encode / decode with a type_name), whatever the codec table
    holds: a codec registered -- on a private instance -- under a key that is no grammar name does not make that string a type
    name, and a key that IS a parameterised name does not replace its parse tree by a leaf."""
    import io
    ser = g.serialization

    class Probe(ser.Codec):
        @staticmethod
        def decode(raw_bytes, serialization, subtypes, get_by_uuid=None):
            return "PROBE"

        @staticmethod
        def encode(out, val, serialization, subtypes, **kw):
            out.write(b"PROBE")
    S = ser.Serialization()
    bad_keys = ["blob<", "a,b", "x>", "", "vec<int>x", "pair<a,>", "<", ",", "a<b>>"]
    for k in bad_keys + ["sequence<uint8_t>", "mapping<string,uint8_t>", "probe"]:
        S.codecs[k] = Probe
    for k in bad_keys:
        for what, f in (("encode", lambda: S.encode(io.BytesIO(), 5, k)), ("decode", lambda: S.decode(b"\x05", k))):
            ctx.case("entry:%s:%r" % (what, k), True)
            ctx.count("entry_point_cases")
            try:
                f()
                got = "accepted"
            except Exception as e:  # noqa: BLE001
                got = exc_name(g, e)
            if got != "TypeNameError":
                ctx.add("oracle", "parse-differs-from-grammar", "with a codec registered under the key %r, %s with that string as type name is %s; it is no grammar "
                        "name and must be rejected with TypeNameError" % (k, what, got), {"type_name": k, "entry_point": what, "got": got})
    buf = io.BytesIO()
    try:
        S.encode(buf, [1, 2], "sequence<uint8_t>")
        got = buf.getvalue()
    except Exception as e:  # noqa: BLE001
        got = exc_name(g, e)
    ctx.case("entry:param-key", True)
    if got != (2).to_bytes(8, "little") + b"\x01\x02":
        ctx.add("oracle", "parse-differs-from-grammar", "with a codec registered under the key 'sequence<uint8_t>', that type name is no longer parsed into "
                "sequence[uint8_t] (encode gives %r)" % (got,), {"type_name": "sequence<uint8_t>"})
    buf = io.BytesIO()
    S.encode(buf, 1, "probe")
    if buf.getvalue() != b"PROBE":
        ctx.add("oracle", "parse-differs-from-grammar", "a codec registered under a plain name is not used", {"type_name": "probe"})


def through_aux_data(ctx, g):
    """Every route on which the API parses a type name: the default serializer's encode / decode, AuxData._to_protobuf of a freshly built
    table, the lazy decode behind AuxData.data of a table read from a message or from a loaded file (first AND second access).  A string
    outside the grammar is rejected with TypeNameError on each of them; a grammar name is not."""
    import io
    AuxP = gtirb_from_repo.msg("AuxData")
    bad = ["", "mapping<string", "sequence<>", "string,string", "tuple<string>x", "<", "a<b>>", "a<,b>", ">", "sequence<uint8_t>>", ",uint8_t", "sequence<uint8_t"]
    good = [("sequence<uint8_t>", (2).to_bytes(8, "little") + b"\x01\x02", [1, 2]), ("uint8_t", b"\x07", 7),
            ("mapping<string,uint8_t>", (1).to_bytes(8, "little") + (1).to_bytes(8, "little") + b"k\x03", {"k": 3})]

    def outcome(f):
        try:
            return ("ok", f())
        except Exception as e:  # noqa: BLE001
            return ("err", exc_name(g, e))

    def loaded_table(tn, raw, via_file):
        if not via_file:
            p = AuxP()
            p.type_name, p.data = tn, raw
            return g.AuxData._from_protobuf(p, g.IR())
        ir = g.IR()
        m = g.Module(name="m", ir=ir)
        m.aux_data["t"] = g.AuxData(g.serialization.UnknownData(raw), tn)      # opaque payloads are written verbatim under any name
        buf = io.BytesIO()
        ir.save_protobuf_file(buf)
        return g.IR.load_protobuf_file(io.BytesIO(buf.getvalue())).modules[0].aux_data["t"]
    for tn in bad:
        routes = [("serializer.encode", lambda: g.AuxData.serializer.encode(io.BytesIO(), 5, tn)),
                  ("serializer.decode", lambda: g.AuxData.serializer.decode(b"\x05\0\0\0\0\0\0\0", tn)),
                  ("AuxData._to_protobuf", lambda: g.AuxData(5, tn)._to_protobuf())]
        for via_file in (False, True):
            r = outcome(lambda: loaded_table(tn, b"\x05\0\0\0\0\0\0\0", via_file))
            if r[0] != "ok":
                ctx.count("aux_route_setup_refused:" + r[1])
                continue
            t = r[1]
            nm = "AuxData.data of a table read from a %s" % ("loaded file" if via_file else "message")
            routes += [(nm, lambda t=t: t.data), (nm + " (second access)", lambda t=t: t.data)]
        for nm, f in routes:
            ctx.case("aux-route:%s:%r" % (nm, tn), True)
            ctx.count("aux_route_cases")
            r = outcome(f)
            got = "accepted (%.60r)" % (r[1],) if r[0] == "ok" else r[1]
            if got != "TypeNameError":
                ctx.add("oracle", "parse-differs-from-grammar", "%s with the type name %r is %s; the string is outside the grammar and must be rejected with TypeNameError"
                        % (nm, tn, got), {"type_name": tn, "entry_point": nm, "got": got})
    # a table loaded under a GOOD name, never read, whose type_name is then assigned a string outside the grammar: writing it parses
    # the new name (the value has to be re-encoded under it) -- TypeNameError from _to_protobuf and from saving the IR, and the
    # malformed name never reaches a file
    for tn in bad:
        for via_file in (False, True):
            r = outcome(lambda: loaded_table("uint8_t", b"\x07", via_file))
            if r[0] != "ok":
                continue
            t = r[1]
            t.type_name = tn
            ctx.case("aux-route-retyped:%r:%s" % (tn, via_file), True)
            ctx.count("aux_route_cases")
            got = outcome(lambda t=t: t._to_protobuf())
            if got != ("err", "TypeNameError"):
                ctx.add("oracle", "parse-differs-from-grammar", "a loaded, never read table whose type_name was assigned %r is written (%s); the string is outside the grammar and must be "
                        "rejected with TypeNameError" % (tn, "accepted" if got[0] == "ok" else got[1]), {"type_name": tn, "entry_point": "AuxData._to_protobuf after assigning type_name"})
        ir = g.IR()
        ir.aux_data["t"] = g.AuxData(7, "uint8_t")
        buf = io.BytesIO()
        ir.save_protobuf_file(buf)
        ir2 = g.IR.load_protobuf_file(io.BytesIO(buf.getvalue()))
        ir2.aux_data["t"].type_name = tn
        got = outcome(lambda: ir2.save_protobuf_file(io.BytesIO()))
        ctx.count("aux_route_cases")
        if got != ("err", "TypeNameError"):
            ctx.add("oracle", "parse-differs-from-grammar", "saving a loaded IR whose unread table was given the type name %r is %s; the string is outside the grammar and must be rejected "
                    "with TypeNameError" % (tn, "accepted" if got[0] == "ok" else got[1]), {"type_name": tn, "entry_point": "IR.save_protobuf_file after assigning type_name"})
    # the same route on the model: a loaded table (Model/AuxTable.v `load`) read twice -- the lazy decode parses the type name
    from common import model_batch, model_result, zs
    reps = model_batch([[10, [], zs(tn), list(b"\x05\0\0\0\0\0\0\0"), [[0], [0]]] for tn in bad])
    for tn, rep in zip(bad, reps):
        got = [model_result(x) for x in rep] if isinstance(rep, list) else rep
        if got != [("err", "TypeNameError"), ("err", "TypeNameError")]:
            ctx.add("corr", "model-impl-differ", "the model's lazily loaded table with the type name %r is read as %r; the implementation raises TypeNameError at every access" % (tn, got),
                    {"type_name": tn, "stream": "C15 type names through loaded tables"})
    for tn, raw, val in good:
        for via_file in (False, True):
            ctx.case("aux-route-good:%s:%s" % (tn, via_file), True)
            ctx.count("aux_route_cases")
            r = outcome(lambda: loaded_table(tn, raw, via_file).data)
            if r != ("ok", val):
                ctx.add("oracle", "parse-differs-from-grammar", "AuxData.data of a loaded table of type %r gives %r; the name is in the grammar and its tree decodes the bytes to %r"
                        % (tn, r, val), {"type_name": tn})


CODEC_NAMES = ["mapping", "sequence", "set", "tuple", "variant", "string", "UUID", "Addr", "Offset", "bool", "uint8_t", "int64_t", "uint64_t", "float", "nosuch"]


def codec_tree(rng, depth):
    """a grammar tree over the names of the registered codecs, with ANY number of parameters at every node (bare `mapping`,
    `mapping<string>`, `sequence<a,b>`, `uint8_t<string>`, ...): in the grammar whatever the codecs make of it"""
    nm = rng.choice(CODEC_NAMES)
    if depth <= 0 or rng.random() < 0.3:
        return (nm, [])
    return (nm, [codec_tree(rng, depth - 1) for _ in range(rng.choice([1, 1, 2, 2, 3]))])


def fitting_value(g, t):
    """a value that leads the encoder as deep into the tree as the codecs go"""
    import uuid as uuidlib
    nm, subs = t
    if nm in ("sequence", "set"):
        v = [fitting_value(g, subs[0])] if subs else [0]
        if nm == "sequence":
            return v
        try:
            return set(v)
        except TypeError:
            return set()
    if nm == "mapping":
        try:
            return {fitting_value(g, subs[0]) if subs else 0: fitting_value(g, subs[1]) if len(subs) > 1 else 0}
        except TypeError:
            return {0: 0}
    if nm == "tuple":
        return tuple(fitting_value(g, x) for x in subs)
    if nm == "variant":
        return g.serialization.Variant(0, fitting_value(g, subs[0])) if subs and hasattr(g.serialization, "Variant") else 0
    if nm == "string":
        return "s"
    if nm == "UUID":
        return uuidlib.UUID(int=5)
    if nm == "Offset":
        return g.Offset(uuidlib.UUID(int=5), 1)
    if nm == "bool":
        return True
    if nm == "float":
        return 1.5
    return 1


def grammar_names_are_never_malformed(ctx, g, n):
    """'accepted if and only if generated by the grammar', at every route that takes a type name: a name of the grammar whose codecs
    cannot be applied (a container with the wrong number of parameters, a scalar given parameters, an unregistered name) may be
    refused by the CODECS -- EncodeError, DecodeError, UnknownCodecError -- but is not a malformed type name: TypeNameError is for
    the strings outside the grammar and for nothing else."""
    import io
    AuxP = gtirb_from_repo.msg("AuxData")
    fixed = [("mapping", [("string", [])]), ("mapping", []), ("sequence", []), ("set", []), ("mapping", [("a", []), ("b", []), ("c", [])]),
             ("sequence", [("string", []), ("string", [])]), ("set", [("UUID", []), ("UUID", [])]),
             ("tuple", [("sequence", [("int64_t", []), ("int64_t", [])])]), ("sequence", [("mapping", [("string", [])])]),
             ("mapping", [("string", []), ("set", [])]), ("uint8_t", [("string", [])]), ("tuple", []), ("variant", []),
             ("sequence", [("sequence", [("sequence", [("set", [("a", []), ("b", [])])])])])]
    trees = fixed + [codec_tree(ctx.rng, ctx.rng.choice([1, 2, 3, 4])) for _ in range(n)]
    raw = b"\x01" + b"\0" * 63
    for t in trees:
        tn = oracle_print(t)
        val = fitting_value(g, t)

        def loaded(via_file):
            if not via_file:
                p = AuxP()
                p.type_name, p.data = tn, raw
                return g.AuxData._from_protobuf(p, g.IR())
            ir = g.IR()
            ir.aux_data["t"] = g.AuxData(g.serialization.UnknownData(raw), tn)
            buf = io.BytesIO()
            ir.save_protobuf_file(buf)
            return g.IR.load_protobuf_file(io.BytesIO(buf.getvalue())).aux_data["t"]

        def save_built():
            ir = g.IR()
            ir.aux_data["t"] = g.AuxData(val, tn)
            ir.save_protobuf_file(io.BytesIO())
        routes = [("serializer.encode", lambda: g.AuxData.serializer.encode(io.BytesIO(), val, tn)),
                  ("serializer.decode", lambda: g.AuxData.serializer.decode(raw, tn)),
                  ("serializer.decode from a stream", lambda: g.AuxData.serializer.decode(io.BytesIO(raw), tn)),
                  ("AuxData._to_protobuf", lambda: g.AuxData(val, tn)._to_protobuf()),
                  ("IR.save_protobuf_file", save_built),
                  ("AuxData.data of a table read from a message", lambda: loaded(False).data),
                  ("AuxData.data of a table read from a loaded file", lambda: loaded(True).data)]
        for nm, f in routes:
            ctx.count("grammar_name_route_cases")
            try:
                f()
                got = "accepted"
            except Exception as e:  # noqa: BLE001
                got = exc_name(g, e)
            ctx.count("grammar_name_route_outcome:" + got)
            if got == "TypeNameError":
                ctx.add("oracle", "parse-differs-from-grammar", "%s with the type name %r is rejected with TypeNameError; the string IS generated by the grammar (its tree is %s) -- "
                        "codecs that cannot be applied to it are an encoding matter, not a malformed name" % (nm, tn, _short(t)), {"type_name": tn, "entry_point": nm, "got": got})
                break
        ctx.case("grammar-name-routes:%r" % tn, True)


def run(ctx):
    g = gtirb_from_repo.load()
    through_entry_points(ctx, g)
    through_aux_data(ctx, g)
    grammar_names_are_never_malformed(ctx, g, 150 if ctx.quick else 4000)
    cases = []
    maxlen = 7 if ctx.quick else 9
    alphabet = "ab<>,"
    for n in range(0, maxlen + 1):
        for tup in itertools.product(alphabet, repeat=n):
            cases.append("".join(tup))
    n_exh = len(cases)
    ctx.count("exhaustive_strings_len<=%d" % maxlen, n_exh)
    cases += TEST_NAMES
    nrand = 3000 if ctx.quick else 40000
    for _ in range(nrand):
        t = rand_tree(ctx.rng, ctx.rng.choice([0, 1, 2, 3, 5, 8, 12]), ctx.rng.choice([1, 2, 3, 8]))
        s = oracle_print(t)
        cases.append(s)
        ctx.count("random_grammar_strings")
        for _ in range(2):
            cases.append(mutate(ctx.rng, s))
            ctx.count("mutated_strings")
    # near-misses: 1-3 delimiter substitutions/deletions/insertions in small nested names
    nnear = 30000 if ctx.quick else 400000
    for _ in range(nnear):
        s = oracle_print(small_tree(ctx.rng, ctx.rng.choice([2, 2, 3, 4])))
        cases.append(delim_mutate(ctx.rng, s))
    ctx.count("delimiter_near_misses", nnear)
    # deep / wide names (below the CPython recursion limit)
    for d in (50, 150, 300):
        cases.append("a<" * d + "b" + ">" * d)
        cases.append("t<" + ",".join("x%d" % i for i in range(d)) + ">")
        cases.append("a<" * d + "b" + ">" * (d - 1))
    # WIDE names far beyond the recursion limit (a tuple of 1200 / 5000 fields, flat; also with one delimiter wrong): length is no
    # excuse -- the answer is the grammar's; and names NESTED deeper than the limit (known finding: RecursionError, see below)
    import sys
    for d in (1200, 5000):
        wide = "t<" + ",".join("x%d" % i for i in range(d)) + ">"
        cases += [wide, wide[:-1], wide + ">", wide.replace(",x7,", ",,", 1), ",".join("a" for _ in range(d)), "t<" + ",".join("u<v>" for _ in range(d)) + ">"]
    deep_from = len(cases)
    for d in (1100, 3000):
        cases += ["a<" * d + "b" + ">" * d, "a<" * d + "b" + ">" * (d + 1), "a<" * d + "b" + ">" * d + "x"]
    old_limit = sys.getrecursionlimit()
    replies = model_batch([[1, zs(s)] for s in cases])
    n_acc = 0
    for ci, (s, rep) in enumerate(zip(cases, replies)):
        im = impl_parse(g, s)                                  # (under the interpreter's own recursion limit)
        mo = model_obs(rep)
        sys.setrecursionlimit(max(old_limit, 20000))          # (for the independent oracle parser, which is recursive too)
        try:
            orc = oracle_obs(s)
        finally:
            sys.setrecursionlimit(old_limit)
        if ci >= deep_from and im == ("err", "RecursionError"):
            ctx.case(s, True)
            ctx.add("oracle", "deep-nesting-recursion", "a type name nested %d levels deep (%s by the grammar): the parser raises RecursionError" % (s.count("<"), "accepted" if orc[0] == "ok" else "rejected"),
                    {"type_name_head": s[:40], "nesting": s.count("<")})
            continue
        nontrivial = any(c in s for c in DELIMS)
        ctx.case(s, nontrivial)
        if im[0] == "ok":
            n_acc += 1
        ctx.count("impl_" + (im[0] if im[0] == "ok" else im[1]))
        if im != orc:
            ctx.add("oracle", "parse-differs-from-grammar",
                    "type name %r: implementation gives %s, the grammar gives %s" % (s, _short(im), _short(orc)),
                    {"type_name": s, "impl": im, "grammar_oracle": orc, "model": mo})
        elif im[0] == "ok" and oracle_print(oracle_parse(s)) != s:
            ctx.add("oracle", "print-not-inverse", "printing the tree of %r does not give it back" % s, {"type_name": s})
        if im != mo:
            ctx.add("corr", "model-impl-differ",
                    "type name %r: implementation %s, model %s" % (s, _short(im), _short(mo)),
                    {"type_name": s, "impl": im, "model": mo, "stream": "C15 parse_type correspondence"})
    sys.setrecursionlimit(old_limit)
    ctx.count("accepted", n_acc)
    ctx.cov["exhaustive"] = False
    ctx.cov["exhaustive_part"] = "all %d strings over {a,b,<,>,','} of length <= %d" % (n_exh, maxlen)
    ctx.cov["traces_validated_against_impl"] = len(cases)
    ctx.cov["rule"] = ("every string over {a,b,<,>,','} up to length %d, plus random grammar trees (depth<=12, fan-out<=8, names over "
                       "ASCII/whitespace/NUL/non-BMP) printed, and 2 single-edit mutations of each; small nested names with 1-3 delimiters replaced, deleted or "
                       "inserted (near-misses); non-trivial = contains a delimiter; "
                       "distinct = distinct string" % maxlen)
    for s in ["mapping<string,set<UUID>>", "a<b,>", cases[n_exh + len(TEST_NAMES)]]:
        ctx.sample({"type_name": s, "impl": _short(impl_parse(g, s))})


def _short(o):
    s = repr(o)
    return s if len(s) < 200 else s[:200] + "..."


def replay(ctx, path):
    import replaylib
    return replaylib.replay_file(path)
