"""C04 -- containment is a forest kept consistent from both ends.
Direct oracle: world.oracle_forest on the real objects after every operation.
Correspondence: the same history replayed on Model/World.v (parents, collections, accessors)."""
import json

import gtirb_from_repo
import world
import worldgen

LEVEL = "proof"
TRUSTED = ("collections.abc mixins, set/list/dict and descriptors are modelled by their CPython definitions (Model/World.v)",)


def gen_history(g, rng, length, cfg=None):
    h = worldgen.Hist(g, rng, cfg or {})
    h.setup_pool()
    h.build_some_structure(rng.choice([0.3, 0.7, 0.9]))
    h.observe_forest()
    for _ in range(length):
        r = rng.random()
        n0 = len(h.items)
        if r < 0.3:
            h.op_setparent()
        elif r < 0.65:
            h.op_set()
        elif r < 0.9:
            h.op_mods()
        elif r < 0.96:
            h.op_attr()
        else:
            h.op_new_with_children()
        if getattr(h, "dead", False):
            h.problems.append((len(h.items) - 1, ["a constructor given children raised (%s): the children it had taken are left attached to an object that was never returned" % (h.ctor_error,)]))
            break
        if len(h.items) == n0:
            continue
        bad = world.oracle_forest(h.w)
        if bad:
            h.problems.append((len(h.items) - 1, bad))
            break
        h.observe_forest()
        if rng.random() < 0.25:
            h.observe_aggregates()
    h.observe_aggregates()
    return h


def default_args_oracle(ctx, g):
    """separately constructed nodes never share flags, AuxData maps, attributes or collections"""
    pairs = [
        (lambda: g.Section(name="s"), ["flags", "byte_intervals"]),
        (lambda: g.Module(name="m"), ["aux_data", "sections", "symbols", "proxies"]),
        (lambda: g.IR(), ["aux_data", "modules"]),
        (lambda: g.ByteInterval(), ["blocks", "symbolic_expressions"]),
        (lambda: g.SymAddrConst(0, g.Symbol("x")), ["attributes"]),
        (lambda: g.SymAddrAddr(1, 0, g.Symbol("x"), g.Symbol("y")), ["attributes"]),
    ]
    for mk, attrs in pairs:
        a, b = mk(), mk()
        for at in attrs:
            x, y = getattr(a, at), getattr(b, at)
            ctx.case("default:" + type(a).__name__ + at, True)
            if x is y:
                ctx.add("oracle", "shared-default", "%s.%s is one shared object for separately constructed nodes" % (type(a).__name__, at),
                        {"class": type(a).__name__, "attribute": at})
    a, b = g.Section(name="a"), g.Section(name="b")
    a.flags.add(g.Section.Flag.Readable)
    if b.flags:
        ctx.add("oracle", "shared-default", "Section.flags shared", {})
    m1, m2 = g.Module(name="a"), g.Module(name="b")
    m1.aux_data["k"] = g.AuxData(1, "uint8_t")
    if m2.aux_data:
        ctx.add("oracle", "shared-default", "Module.aux_data shared", {})
    i1, i2 = g.IR(), g.IR()
    i1.aux_data["k"] = g.AuxData(1, "uint8_t")
    i1.cfg.add(g.Edge(g.ProxyBlock(), g.ProxyBlock()))
    if i2.aux_data or len(i2.cfg):
        ctx.add("oracle", "shared-default", "IR.aux_data / cfg shared", {})
    e1, e2 = g.SymAddrConst(0, g.Symbol("x")), g.SymAddrConst(0, g.Symbol("x"))
    e1.attributes.add(g.SymbolicExpression.Attribute.GOT)
    if e2.attributes:
        ctx.add("oracle", "shared-default", "SymbolicExpression.attributes shared", {})


def ctor_copy_oracle(ctx, g):
    """constructors copy their iterable / mapping arguments: nodes built from ONE caller-owned object neither alias it nor each other"""
    F, A = g.Section.Flag, g.SymbolicExpression.Attribute

    def bad(what):
        ctx.add("oracle", "shared-argument", what, {"what": what})
    flags = {F.Readable}
    s1, s2 = g.Section(name="a", flags=flags), g.Section(name="b", flags=flags)
    flags.add(F.Writable)
    s1.flags.add(F.Executable)
    ctx.case("ctor-copy:Section.flags", True)
    if s1.flags != {F.Readable, F.Executable} or s2.flags != {F.Readable}:
        bad("Section(flags=x) keeps a reference to the caller's set (or shares it between sections)")
    aux = {"k": g.AuxData(1, "uint8_t")}
    for mk, nm in ((lambda: g.Module(name="m", aux_data=aux), "Module"), (lambda: g.IR(aux_data=aux), "IR")):
        a, b = mk(), mk()
        aux["later"] = g.AuxData(2, "uint8_t")
        a.aux_data["own"] = g.AuxData(3, "uint8_t")
        ctx.case("ctor-copy:%s.aux_data" % nm, True)
        if set(a.aux_data) != {"k", "own"} or set(b.aux_data) != {"k"}:
            bad("%s(aux_data=x) keeps a reference to the caller's dict (or shares it)" % nm)
        del aux["later"]
    attrs = {A.GOT}
    y = g.Symbol("y")
    for mk, nm in ((lambda: g.SymAddrConst(0, y, attrs), "SymAddrConst"), (lambda: g.SymAddrAddr(1, 0, y, y, attrs), "SymAddrAddr")):
        a, b = mk(), mk()
        attrs.add(A.PLT)
        a.attributes.add(A.PCREL)
        ctx.case("ctor-copy:%s.attributes" % nm, True)
        if a.attributes != {A.GOT, A.PCREL} or b.attributes != {A.GOT}:
            bad("%s(attributes=x) keeps a reference to the caller's set (or shares it)" % nm)
        attrs.discard(A.PLT)
        # and without the argument: every expression gets its own empty set (also the ones the loader builds)
        c, d = (g.SymAddrConst(0, y), g.SymAddrConst(1, y)) if nm == "SymAddrConst" else (g.SymAddrAddr(1, 0, y, y), g.SymAddrAddr(1, 1, y, y))
        c.attributes.add(A.GOT)
        if d.attributes:
            bad("%s() without attributes shares one default set" % nm)
    sx = {0: g.SymAddrConst(0, y)}
    b1, b2 = g.ByteInterval(size=8, symbolic_expressions=sx), g.ByteInterval(size=8, symbolic_expressions=sx)
    sx[4] = g.SymAddrConst(4, y)
    b1.symbolic_expressions[2] = g.SymAddrConst(2, y)
    ctx.case("ctor-copy:ByteInterval.symbolic_expressions", True)
    if sorted(b1.symbolic_expressions) != [0, 2] or sorted(b2.symbolic_expressions) != [0]:
        bad("ByteInterval(symbolic_expressions=x) keeps a reference to the caller's dict (or shares it)")
    contents = bytearray(b"abcd")
    b3, b4 = g.ByteInterval(contents=contents), g.ByteInterval(contents=contents)
    contents[0] = 0
    b3.contents[1] = 0
    ctx.case("ctor-copy:ByteInterval.contents", True)
    if bytes(b3.contents) != b"a\0cd" or bytes(b4.contents) != b"abcd":
        bad("ByteInterval(contents=x) keeps a reference to the caller's bytearray (or shares it)")
    edges = {g.Edge(g.ProxyBlock(), g.ProxyBlock())}
    i1, i2 = g.IR(cfg=edges), g.IR(cfg=edges)
    i1.cfg.clear()
    ctx.case("ctor-copy:IR.cfg", True)
    if len(i2.cfg) != 1 or len(edges) != 1:
        bad("IR(cfg=x) keeps a reference to the caller's collection (or shares it)")


def aggregate_kinds_oracle(ctx, g):
    """The aggregate iterators select by what a node IS: code_blocks the CodeBlocks (subclasses included), data_blocks the DataBlocks,
    byte_blocks every byte block of the forest -- also one that is neither (the exported base class gtirb.ByteBlock, or a user
    subclass of it) --, cfg_nodes the code blocks and proxies; each node once."""
    class MyCode(g.CodeBlock):
        pass

    class MyData(g.DataBlock):
        pass

    class MyByte(g.ByteBlock):
        pass
    ir = g.IR()
    mods = [g.Module(name="m%d" % i, ir=ir) for i in range(2)]
    blocks = []
    for mi, m in enumerate(mods):
        g.ProxyBlock(module=m)
        for si in range(2):
            sec = g.Section(name="s%d" % si, module=m)
            for bi_i in range(2):
                bi = g.ByteInterval(address=0x1000 * (mi * 4 + si * 2 + bi_i), size=64, section=sec)
                for k, cls in enumerate((g.CodeBlock, g.DataBlock, g.ByteBlock, MyCode, MyData, MyByte)):
                    if (mi + si + bi_i + k) % 3 == 0 and k > 1:
                        continue
                    try:
                        blocks.append(cls(size=4, offset=8 * k, byte_interval=bi))
                    except Exception as e:  # noqa: BLE001
                        ctx.count("aggregate_kinds:cannot_construct:" + cls.__name__)

    def under(scope):
        if isinstance(scope, g.Section):
            return [b for b in blocks if b.section is scope]
        if isinstance(scope, g.Module):
            return [b for b in blocks if b.module is scope]
        return list(blocks)
    scopes = [ir] + mods + [s for m in mods for s in m.sections]
    for scope in scopes:
        mine = under(scope)
        proxies = [p for m in (mods if scope is ir else [scope] if isinstance(scope, g.Module) else []) for p in m.proxies]
        want = {
            "byte_blocks": mine,
            "code_blocks": [b for b in mine if isinstance(b, g.CodeBlock)],
            "data_blocks": [b for b in mine if isinstance(b, g.DataBlock)],
        }
        if not isinstance(scope, g.Section):
            want["cfg_nodes"] = [b for b in mine if isinstance(b, g.CodeBlock)] + proxies
        for attr, w in want.items():
            got = list(getattr(scope, attr))
            ctx.case("aggregate-kinds:%s.%s" % (type(scope).__name__, attr), True)
            if len(got) != len(set(map(id, got))) or set(map(id, got)) != set(map(id, w)):
                extra = [type(x).__name__ for x in got if id(x) not in set(map(id, w))]
                missing = [type(x).__name__ for x in w if id(x) not in set(map(id, got))]
                ctx.add("oracle", "aggregate-kinds:" + attr, "%s.%s differs from what the forest implies: yields %d nodes, expected %d (extra kinds %s, missing kinds %s)"
                        % (type(scope).__name__, attr, len(got), len(w), sorted(set(extra)), sorted(set(missing))),
                        {"scope": type(scope).__name__, "attr": attr, "extra": extra, "missing": missing})


def run(ctx):
    g = gtirb_from_repo.load()
    nh, ln = (60, 30) if ctx.quick else (1200, 60)
    hists = []
    for _ in range(nh):
        h = gen_history(g, ctx.rng, ln)
        hists.append(h)
        for it in h.items:
            if it[0] in (2, 3, 28, 32) or 4 <= it[0] <= 13:
                ctx.count("op:" + ("setparent" if it[0] == 2 else "set." + world.SETM[it[3]] if it[0] == 3 else "modules.%d" % it[0]))
        for r in h.replies:
            if r and r[0] == -1:
                ctx.count("impl_error:%s" % world.ERR_CODES.get(r[1], r[1]))
        ctx.case(repr(h.items), True)
        for (idx, bad) in h.problems:
            ctx.add("oracle", "forest-inconsistent:item%d" % h.items[idx][0], "after %s: %s" % (h.items[idx], "; ".join(bad[:3])),
                    {"items": h.items[: idx + 1], "problems": bad[:10]})
        if not h.problems:
            # a member exchanged for its equal-UUID twin of a deep copy by one in-place operator (both iteration orders), and back
            import copy
            for n in h.by_kind["IR"]:
                try:
                    cp = copy.deepcopy(h.w.obj[n])
                except Exception:  # noqa: BLE001
                    continue
                ctx.count("twin_swaps_by_one_operator", world.twin_swaps(
                    g, h.w.obj[n], cp, ctx.rng, lambda p, h=h: ctx.add("oracle", "twin-swap-forest", p, {"items": h.items}), cache=False))
                bad = world.oracle_forest(h.w)
                if bad:
                    ctx.add("oracle", "twin-swap-forest", "after the twin swaps and the moves back: " + "; ".join(bad[:3]), {"items": h.items})
    import lookups as _lk
    _lk.failed_bulk_blocks(ctx, g, ctx.rng, 40 if ctx.quick else 800, 'forest-inconsistent:failed-bulk-blocks')
    default_args_oracle(ctx, g)
    ctor_copy_oracle(ctx, g)
    aggregate_kinds_oracle(ctx, g)
    for shape in ("setitem-same-list", "setslice-same-list", "setslice-repeated-value"):
        w, _ = world.d4_probe(g, shape)
        bad = world.oracle_forest(w)
        ctx.case("d4:" + shape, True)
        if bad:
            ctx.add("oracle", "listwrapper-" + shape, "ir.modules assignment of a module already in the same list / named twice in the assigned list: " + "; ".join(bad[:2]),
                    {"shape": shape, "problems": bad})
    worldgen.compare(ctx, hists, "forest", "C04 forest correspondence")
    ctx.cov["histories"] = nh
    ctx.cov["traces_validated_against_impl"] = nh
    import loadedworld
    lh = loadedworld.stream(ctx, g, ctx.rng, 6 if ctx.quick else 150, 12 if ctx.quick else 30, "loaded", what={"forest", "aggregates"})
    ctx.cov["histories_continued_from_loaded_files"] = len(lh)
    ctx.cov["rule"] = ("random histories of %d ops over 2 IRs/3 modules/3 sections/4 intervals/6 blocks/2 proxies/4 symbols from both ends of all six "
                       "relations, forest observed after every op; one evaluation = one history; distinct = distinct item list" % ln)
    ctx.sample({"history_prefix": hists[0].items[30:36]})


def replay(ctx, path):
    import replaylib
    return replaylib.replay_file(path)
