"""C04 -- containment is a forest kept consistent from both ends.
Direct oracle: world.oracle_forest on the real objects after every operation.
Correspondence: the same history replayed on Model/World.v (parents, collections, accessors)."""
import json

import gtirb_from_repo
import world
import worldgen

LEVEL = "proof"
TRUSTED = ("collections.abc mixins, set/list/dict and descriptors are modelled by their CPython definitions (Model/World.v)",)


def gen_history(g, rng, length, cfg=None):
    h = worldgen.Hist(g, rng, cfg or {})
    h.setup_pool()
    h.build_some_structure(rng.choice([0.3, 0.7, 0.9]))
    h.observe_forest()
    for _ in range(length):
        r = rng.random()
        n0 = len(h.items)
        if r < 0.3:
            h.op_setparent()
        elif r < 0.65:
            h.op_set()
        elif r < 0.9:
            h.op_mods()
        else:
            h.op_attr()
        if len(h.items) == n0:
            continue
        bad = world.oracle_forest(h.w)
        if bad:
            h.problems.append((len(h.items) - 1, bad))
            break
        h.observe_forest()
    return h


def default_args_oracle(ctx, g):
    """separately constructed nodes never share flags, AuxData maps, attributes or collections"""
    pairs = [
        (lambda: g.Section(name="s"), ["flags", "byte_intervals"]),
        (lambda: g.Module(name="m"), ["aux_data", "sections", "symbols", "proxies"]),
        (lambda: g.IR(), ["aux_data", "modules"]),
        (lambda: g.ByteInterval(), ["blocks", "symbolic_expressions"]),
        (lambda: g.SymAddrConst(0, g.Symbol("x")), ["attributes"]),
        (lambda: g.SymAddrAddr(1, 0, g.Symbol("x"), g.Symbol("y")), ["attributes"]),
    ]
    for mk, attrs in pairs:
        a, b = mk(), mk()
        for at in attrs:
            x, y = getattr(a, at), getattr(b, at)
            ctx.case("default:" + type(a).__name__ + at, True)
            if x is y:
                ctx.add("oracle", "shared-default", "%s.%s is one shared object for separately constructed nodes" % (type(a).__name__, at),
                        {"class": type(a).__name__, "attribute": at})
    a, b = g.Section(name="a"), g.Section(name="b")
    a.flags.add(g.Section.Flag.Readable)
    if b.flags:
        ctx.add("oracle", "shared-default", "Section.flags shared", {})
    m1, m2 = g.Module(name="a"), g.Module(name="b")
    m1.aux_data["k"] = g.AuxData(1, "uint8_t")
    if m2.aux_data:
        ctx.add("oracle", "shared-default", "Module.aux_data shared", {})
    i1, i2 = g.IR(), g.IR()
    i1.aux_data["k"] = g.AuxData(1, "uint8_t")
    i1.cfg.add(g.Edge(g.ProxyBlock(), g.ProxyBlock()))
    if i2.aux_data or len(i2.cfg):
        ctx.add("oracle", "shared-default", "IR.aux_data / cfg shared", {})
    e1, e2 = g.SymAddrConst(0, g.Symbol("x")), g.SymAddrConst(0, g.Symbol("x"))
    e1.attributes.add(g.SymbolicExpression.Attribute.GOT)
    if e2.attributes:
        ctx.add("oracle", "shared-default", "SymbolicExpression.attributes shared", {})


def run(ctx):
    g = gtirb_from_repo.load()
    nh, ln = (60, 30) if ctx.quick else (1200, 60)
    hists = []
    for _ in range(nh):
        h = gen_history(g, ctx.rng, ln)
        hists.append(h)
        for it in h.items:
            if it[0] in (2, 3) or 4 <= it[0] <= 13:
                ctx.count("op:" + ("setparent" if it[0] == 2 else "set." + world.SETM[it[3]] if it[0] == 3 else "modules.%d" % it[0]))
        for r in h.replies:
            if r and r[0] == -1:
                ctx.count("impl_error:%s" % world.ERR_CODES.get(r[1], r[1]))
        ctx.case(repr(h.items), True)
        for (idx, bad) in h.problems:
            ctx.add("oracle", "forest-inconsistent:item%d" % h.items[idx][0], "after %s: %s" % (h.items[idx], "; ".join(bad[:3])),
                    {"items": h.items[: idx + 1], "problems": bad[:10]})
    default_args_oracle(ctx, g)
    for shape in ("setitem-same-list", "setslice-same-list"):
        w, _ = world.d4_probe(g, shape)
        bad = world.oracle_forest(w)
        ctx.case("d4:" + shape, True)
        if bad:
            ctx.add("oracle", "listwrapper-" + shape, "ir.modules assignment of a module already in the same list: " + "; ".join(bad[:2]),
                    {"shape": shape, "problems": bad})
    worldgen.compare(ctx, hists, "forest", "C04 forest correspondence")
    ctx.cov["histories"] = nh
    ctx.cov["traces_validated_against_impl"] = nh
    ctx.cov["rule"] = ("random histories of %d ops over 2 IRs/3 modules/3 sections/4 intervals/6 blocks/2 proxies/4 symbols from both ends of all six "
                       "relations, forest observed after every op; one evaluation = one history; distinct = distinct item list" % ln)
    ctx.sample({"history_prefix": hists[0].items[30:36]})


def replay(ctx, path):
    d = json.load(open(path))
    print(json.dumps(d["primary"], indent=1)[:4000])
    return 0
