"""C13 -- symbolic-expression lookup by address equals a fresh scan.
Direct oracle: world.oracle_query (fresh scan over public attributes; envelope above interval scope) after random edits.
Correspondence: the same history and lookups on Model/World.v (lazy trees, lookup helpers), exact comparison."""
import json

import gtirb_from_repo
import lookups
import worldgen

LEVEL = "proof"
TRUSTED = ("intervaltree.IntervalTree and sortedcontainers.SortedDict are modelled by their abstract behaviour (Model/LazyTree.v)",)
WEIGHTS = {'setparent': 2, 'set': 1, 'attr': 2, 'symx': 5, 'mods': 1}
POOL = {'IR': 2, 'Module': 3, 'Section': 2, 'ByteInterval': 4, 'CodeBlock': 1, 'DataBlock': 0, 'ProxyBlock': 0, 'Symbol': 2}
METHODS = ['symbolic_expressions_at', 'symbolic_expressions_at_offset']


def run(ctx):
    g = gtirb_from_repo.load()
    import lookups as _lkr
    _lkr.repeated_events(ctx, g, 'symexpr-lookup')
    _lkr.many_members(ctx, g, 'symexpr-lookup')
    import lookups as _lkd
    _lkd.deferred_consumption(ctx, g, 'expressions', 'symexpr-lookup:deferred')
    import lookups as _lk
    _lk.failed_bulk_scenario(ctx, g, ctx.rng, 40 if ctx.quick else 800, 'symexpr-lookup:failed-bulk')
    nh, ln = (200, 40) if ctx.quick else (3000, 60)
    hists = []
    for _ in range(nh):
        h = lookups.lookup_history(ctx, g, ctx.rng, ln, WEIGHTS, METHODS, "symexpr-lookup", pool=POOL)
        hists.append(h)
        ctx.case(repr(h.items), True)
    hists.append(lookups.fixed_sweep(ctx, g, ctx.rng, METHODS, "symexpr-lookup"))
    ctx.case("fixed-sweep", True)
    worldgen.compare(ctx, hists, "symexpr-lookup", "C13 lookup correspondence")
    ctx.cov["histories"] = nh
    ctx.cov["traces_validated_against_impl"] = nh
    import loadedworld
    lh = loadedworld.stream(ctx, g, ctx.rng, 6 if ctx.quick else 150, 12 if ctx.quick else 30, "loaded", what={"symx", "symbolic_expressions_at", "symbolic_expressions_at_offset"})
    ctx.cov["histories_continued_from_loaded_files"] = len(lh)
    ctx.cov["rule"] = ("random edit histories of %d steps (offset/size/address edits, moves between intervals/sections/modules/IRs, removal, re-adding) "
                       "with lookups at points and ranges around every boundary (+-1), steps 1-3, empty ranges, zero-sized and overlapping "
                       "blocks, shared addresses, values near 2^64; one evaluation = one history; distinct = distinct item list" % ln)
    ctx.sample({"history_tail": hists[0].items[-5:]})


def replay(ctx, path):
    import replaylib
    return replaylib.replay_file(path)
