"""C11 -- the CFG is a set of edges with consistent adjacency views.
Direct oracle: a shadow Python set of (id(source), id(target), label) triples kept in lock-step; after every operation
len / iteration / membership / out_edges / in_edges / CfgNode.incoming_edges / outgoing_edges are compared with it.
Correspondence: the same history on Model/Cfg.v (extracted), every observation compared."""
import io
import json

import gtirb_from_repo
from common import ERR_CODES, exc_name, model_batch

LEVEL = "proof"
TRUSTED = ("networkx.MultiDiGraph is modelled by its abstract content (list of keyed edges); keys are unobservable through the CFG interface",
           "collections.abc.MutableSet mixins are transcribed from CPython 3.12's _collections_abc.py")
CODE_OF_ERR = {v: k for k, v in ERR_CODES.items()}



def ir_by_parents(g, node):
    """the IR a CFG node belongs to, read one parent attribute at a time with `is None` tests only"""
    if isinstance(node, g.ProxyBlock):
        m = node.module
    else:
        bi = node.byte_interval
        sec = None if bi is None else bi.section
        m = None if sec is None else sec.module
    return None if m is None else m.ir


class Env:
    """4 nodes attached to the IR owning the CFG, 1 attached to another IR, 2 detached (a proxy and a code block), 2 detached proxies that share a UUID with another proxy"""

    def __init__(self, g):
        self.g = g
        self.ir = g.IR()
        self.ir2 = g.IR()
        m = g.Module(name="m", ir=self.ir)
        m2 = g.Module(name="m2", ir=self.ir2)
        s = g.Section(name="s", module=m)
        bi = g.ByteInterval(size=64, section=s)
        s2 = g.Section(name="s", module=m2)
        bi2 = g.ByteInterval(size=64, section=s2)
        # (one block starts in a DEFAULT interval -- ByteInterval() with nothing said: no address, size 0, no bytes -- and is of size 0
        # itself: an empty container is a container, the block belongs to this IR like the others)
        bi0 = g.ByteInterval(section=s)
        self.nodes = [g.CodeBlock(size=1, offset=0, byte_interval=bi), g.CodeBlock(size=1, offset=4, byte_interval=bi),
                      g.ProxyBlock(module=m), g.CodeBlock(size=0, offset=0, byte_interval=bi0),
                      g.CodeBlock(size=1, offset=0, byte_interval=bi2), g.ProxyBlock(), g.CodeBlock(size=1, offset=2)]
        # nodes are compared by IDENTITY: two more proxies, distinct objects carrying the UUID of the detached proxy (6) and of the
        # attached one (3) -- e.g. the same external block seen through two loads.  They stay detached (MOVABLE excludes them).
        self.nodes += [g.ProxyBlock(uuid=self.nodes[5].uuid), g.ProxyBlock(uuid=self.nodes[2].uuid)]
        self.MOVABLE = 7
        self.m_here, self.m_other, self.bi_here, self.bi_other = m, m2, bi, bi2
        self.num = {id(n): i + 1 for i, n in enumerate(self.nodes)}
        T = g.Edge.Type
        self.labels = [None, g.Edge.Label(T.Branch, False, False), g.Edge.Label(T.Branch, True, False), g.Edge.Label(T.Branch, False, True),
                       g.Edge.Label(T.Call), g.Edge.Label(T.Fallthrough), g.Edge.Label(T.Return, True, True), g.Edge.Label(T.Syscall),
                       g.Edge.Label(T.Sysret)]

    def edge(self, t):
        s, d, l = t
        return self.g.Edge(self.nodes[s - 1], self.nodes[d - 1], self.labels[l])

    def lab_sx(self, lab):
        return [] if lab is None else [lab.type.value, int(lab.conditional), int(lab.direct)]

    def esx(self, t):
        return [t[0], t[1], self.lab_sx(self.labels[t[2]])]

    def canon_edge(self, e):
        return [self.num[id(e.source)], self.num[id(e.target)], self.lab_sx(e.label)]


def rand_edge(rng, pool):
    # a small pool of endpoints and labels makes re-adding, parallel edges and self-loops frequent
    if pool and rng.random() < 0.5:
        return rng.choice(pool)
    s = rng.choice([1, 1, 2, 3, 4, 5, 6, 7, 8, 6, 9, 3])
    d = s if rng.random() < 0.15 else rng.choice([1, 2, 2, 3, 4, 5, 6, 7, 8, 6, 9])
    return (s, d, rng.choice([0, 0, 1, 2, 3, 4, 5, 6, 7, 8]))


def run_history(ctx, g, rng, length):
    env = Env(g)
    cfg = env.ir.cfg
    shadow = set()          # {(s, d, labelindex-normalised)}
    items, impl = [], []
    problems = []

    def key(t):
        return (t[0], t[1], json.dumps(env.lab_sx(env.labels[t[2]])))

    sides = []          # (description, CFG built from this one at some moment, its edges then): later operations here must not show there

    def observe(full):
        nonlocal problems
        for desc, side, snap in sides:
            now = sorted(env.canon_edge(e) for e in side)
            if now != snap or side is cfg:
                problems.append("%s %s: it held %s when it was built and holds %s now" % (desc, "IS this IR's CFG object" if side is cfg else "follows later operations on this one", snap, now))
                break
        # implementation observations
        got_edges = sorted(env.canon_edge(e) for e in cfg)
        want = sorted([k[0], k[1], json.loads(k[2])] for k in shadow)
        items.append([0x14]); impl.append([0, len(cfg), got_edges])
        if got_edges != want or len(cfg) != len(shadow):
            problems.append("iteration/len %s (len %d) but the set is %s" % (got_edges, len(cfg), want))
        # a set's truth value is "not empty" (the dunder protocol: bool(), `if ir.cfg:`, `not cfg`)
        if bool(cfg) != bool(shadow) or (not cfg) != (not shadow):
            problems.append("bool(cfg) is %s while the set has %d edges" % (bool(cfg), len(shadow)))
        if not full:
            return
        for n in range(1, 8):
            node = env.nodes[n - 1]
            try:
                oe = sorted(env.canon_edge(e) for e in cfg.out_edges(node))
                ie = sorted(env.canon_edge(e) for e in cfg.in_edges(node))
                list(node.outgoing_edges), list(node.incoming_edges)
            except Exception as e:  # noqa: BLE001
                problems.append("an adjacency view of n%d raised %s" % (n, type(e).__name__))
                return
            items.append([0x16, n]); impl.append([0, oe])
            items.append([0x17, n]); impl.append([0, ie])
            if oe != [e for e in want if e[0] == n]:
                problems.append("out_edges(n%d) = %s" % (n, oe))
            if ie != [e for e in want if e[1] == n]:
                problems.append("in_edges(n%d) = %s" % (n, ie))
            og = sorted(env.canon_edge(e) for e in node.outgoing_edges)
            ig = sorted(env.canon_edge(e) for e in node.incoming_edges)
            # a node's own views follow the CFG of the IR it CURRENTLY belongs to (the other IR's CFG is empty, a detached node has none)
            attached_here = ir_by_parents(g, node) is env.ir          # (containment read link by link: not through the accessor the views use)
            if og != (oe if attached_here else []):
                problems.append("n%d.outgoing_edges = %s while its IR is %s" % (n, og, "this one" if attached_here else ("another" if ir_by_parents(g, node) is not None else "none")))
            if ig != (ie if attached_here else []):
                problems.append("n%d.incoming_edges = %s while its IR is %s" % (n, ig, "this one" if attached_here else ("another" if ir_by_parents(g, node) is not None else "none")))
            ctx.count("adjacency_observations", 2)
        for _ in range(4):
            t = rand_edge(rng, list(pool))
            r = env.edge(t) in cfg
            items.append([0x15, env.esx(t)]); impl.append([0, int(r)])
            if r != (key(t) in shadow):
                problems.append("membership of %s is %s" % (t, r))
        es = [rand_edge(rng, list(pool)) for _ in range(rng.choice([0, 1, 2, 3]))]
        es = list(dict((key(t), t) for t in es).values())
        other = set(env.edge(t) for t in es)
        ok = {key(t) for t in es}
        r = [int(cfg <= other), int(cfg == other), int(cfg.isdisjoint(other))]
        # the same comparisons against CFG objects holding the same edges: built in another insertion order, and with another history
        cur = [e for e in cfg]
        rng.shuffle(cur)
        twin = g.CFG(cur)
        twin2 = g.CFG(cur[::-1])
        if cur:
            extra = g.Edge(cur[0].source, cur[0].target, g.Edge.Label(g.Edge.Type.Sysret, True, False))
            if extra not in twin2:
                twin2.add(extra)
                twin2.discard(extra)
        for nm, tw in (("shuffled", twin), ("other-history", twin2)):
            if not (cfg == tw) or (cfg != tw) or not (tw == cfg) or not (cfg <= tw) or not (cfg >= tw) or (cfg < tw):
                problems.append("comparison with a CFG holding the same edges (%s) is wrong" % nm)
            ctx.count("cfg_vs_cfg_comparisons")
        items.append([0x18, [env.esx(t) for t in es]]); impl.append([0] + r)
        if r != [int(shadow <= ok), int(shadow == ok), int(shadow.isdisjoint(ok))]:
            problems.append("comparisons with %s give %s" % (es, r))

    pool = []
    for step in range(length):
        if rng.random() < 0.12:
            # containment changes under the CFG: a node moves to the other IR, is detached, or comes back (the edge set is untouched)
            k = rng.randrange(env.MOVABLE)
            nd = env.nodes[k]
            where = rng.choice(["here", "other", "none"])
            if isinstance(nd, g.ProxyBlock):
                nd.module = {"here": env.m_here, "other": env.m_other, "none": None}[where]
            else:
                nd.byte_interval = {"here": env.bi_here, "other": env.bi_other, "none": None}[where]
            ctx.count("node_moved:" + where)
            observe(full=True)
            if problems:
                break
            continue
        if rng.random() < 0.08:
            # the other way of obtaining a CFG: the IR is saved and LOADED, and the history goes on with the loaded IR's CFG and nodes
            # (possible when every endpoint in the set is attached to this IR, so that the file is self-contained)
            att = [i for i, nd in enumerate(env.nodes) if ir_by_parents(g, nd) is env.ir]
            ids_att = {i + 1 for i in att}
            if all(k[0] in ids_att and k[1] in ids_att for k in shadow):
                try:
                    buf = io.BytesIO()
                    env.ir.save_protobuf_file(buf)
                    ir2 = g.IR.load_protobuf_file(io.BytesIO(buf.getvalue()))
                    for i in att:
                        env.nodes[i] = ir2.get_by_uuid(env.nodes[i].uuid)
                    env.m_here, env.bi_here = ir2.get_by_uuid(env.m_here.uuid), ir2.get_by_uuid(env.bi_here.uuid)
                    env.ir = ir2
                    cfg = ir2.cfg
                    env.num = {id(n): i + 1 for i, n in enumerate(env.nodes)}
                    del sides[:]            # (they hold the node objects of before the load)
                except Exception as e:  # noqa: BLE001
                    problems.append("saving and loading the IR raised %s" % exc_name(g, e))
                    break
                ctx.count("reloaded_mid_history")
                observe(full=True)
                if problems:
                    problems = ["after saving and loading the IR: " + p for p in problems]
                    break
                continue
        if rng.random() < 0.06:
            # ... or the whole scene is COPIED (copy.deepcopy, or a pickle round trip) and the history goes on with the copies: the
            # copied CFG is the same set of edges over the copied nodes (labels are compared by value: the copies of the stored labels
            # are as good as the ones the harness keeps building its edges from)
            import copy
            import pickle
            how = rng.choice(["deepcopy", "pickle"])
            bundle = (env.ir, env.ir2, env.nodes, env.m_here, env.m_other, env.bi_here, env.bi_other)
            try:
                bundle = copy.deepcopy(bundle) if how == "deepcopy" else pickle.loads(pickle.dumps(bundle, protocol=rng.choice([2, 4, 5])))
            except Exception as e:  # noqa: BLE001
                problems.append("%s of the IR with its CFG raised %s" % (how, exc_name(g, e)))
                break
            env.ir, env.ir2, env.nodes, env.m_here, env.m_other, env.bi_here, env.bi_other = bundle
            cfg = env.ir.cfg
            env.num = {id(n): i + 1 for i, n in enumerate(env.nodes)}
            del sides[:]
            ctx.count("copied_mid_history:" + how)
            observe(full=True)
            if problems:
                problems = ["after a %s of the IR (the history continues on the copy): %s" % (how, p) for p in problems]
                break
            continue
        if rng.random() < 0.06 and len(sides) < 3:
            # another CFG / another IR constructed FROM this CFG object: a set of its own from then on
            how = rng.choice(["CFG(cfg)", "IR(cfg=cfg)", "set-then-CFG"])
            try:
                side = g.CFG(cfg) if how == "CFG(cfg)" else g.IR(cfg=cfg).cfg if how == "IR(cfg=cfg)" else g.CFG(set(cfg))
            except Exception as e:  # noqa: BLE001
                problems.append("%s raised %s" % (how, exc_name(g, e)))
                break
            sides.append(("a CFG built by %s" % how, side, sorted(env.canon_edge(e) for e in side)))
            ctx.count("side_cfg:" + how)
            if sides[-1][2] != sorted([k[0], k[1], json.loads(k[2])] for k in shadow):
                problems.append("%s does not hold this CFG's edges" % how)
                break
            continue
        m = rng.choice(["add", "add", "add", "discard", "discard", "remove", "pop", "clear", "update", "ior", "iand", "isub", "ixor"])
        if m == "clear" and rng.random() < 0.7:
            m = "add"
        t = rand_edge(rng, pool)
        es = [rand_edge(rng, pool) for _ in range(rng.choice([0, 1, 2, 3, 4]))]
        ctx.count("op:" + m)
        rep = [0]
        try:
            if m == "add":
                cfg.add(env.edge(t)); shadow.add(key(t)); it = [1, env.esx(t)]; pool.append(t)
            elif m == "discard":
                cfg.discard(env.edge(t)); shadow.discard(key(t)); it = [2, env.esx(t)]
            elif m == "remove":
                it = [3, env.esx(t)]
                want_err = key(t) not in shadow
                shadow.discard(key(t))
                try:
                    cfg.remove(env.edge(t))
                    if want_err:
                        problems.append("remove of an absent edge did not raise")
                except KeyError:
                    rep = [-1, CODE_OF_ERR["KeyError"]]
                    if not want_err:
                        problems.append("remove of a present edge raised KeyError")
            elif m == "pop":
                if shadow:
                    e = cfg.pop()
                    ce = env.canon_edge(e)
                    k = (ce[0], ce[1], json.dumps(ce[2]))
                    if k not in shadow:
                        problems.append("pop returned %s which was not in the set" % ce)
                    shadow.discard(k)
                    it = [4, [ce]]
                else:
                    it = [4, []]
                    try:
                        cfg.pop()
                        problems.append("pop on an empty CFG did not raise")
                    except KeyError:
                        rep = [-1, CODE_OF_ERR["KeyError"]]
            elif m == "clear":
                cfg.clear(); shadow.clear(); it = [5]
            elif m == "update":
                cfg.update(env.edge(x) for x in es); shadow.update(key(x) for x in es); it = [6, [env.esx(x) for x in es]]; pool += es
            else:
                arg = [env.edge(x) for x in es]
                # the in-place operators accept any iterable (collections.abc.MutableSet): plain sets, CFGs, lists (with the
                # duplicates the draw produced) and one-shot iterators, in the order drawn -- not the CFG's own order
                form = rng.choice(["set", "cfg", "list", "gen", "iter", "set", "cfg"])
                ctx.count("operand:" + form)
                other = (set(arg) if form == "set" else g.CFG(arg) if form == "cfg" else list(arg) if form == "list"
                         else (e for e in arg) if form == "gen" else iter(arg))
                ks = {key(x) for x in es}
                # half of the time the operator is written against the ATTRIBUTE (`ir.cfg |= x` assigns the result back to ir.cfg)
                via_attr = rng.random() < 0.5
                ctx.count("inplace_via_attribute" if via_attr else "inplace_via_alias")
                if m == "ior":
                    if via_attr:
                        env.ir.cfg |= other
                    else:
                        cfg |= other
                    shadow |= ks; it = [7, [env.esx(x) for x in es]]; pool += es
                elif m == "iand":
                    if via_attr:
                        env.ir.cfg &= other
                    else:
                        cfg &= other
                    shadow &= ks; it = [8, [env.esx(x) for x in es]]
                elif m == "isub":
                    if via_attr:
                        env.ir.cfg -= other
                    else:
                        cfg -= other
                    shadow -= ks; it = [9, [env.esx(x) for x in es]]
                else:
                    if via_attr:
                        env.ir.cfg ^= other
                    else:
                        cfg ^= other
                    shadow ^= ks; it = [10, [env.esx(x) for x in es]]
        except Exception as e:  # noqa: BLE001
            problems.append("%s raised %s" % (m, exc_name(g, e)))
            it = [5]
            rep = [-1, CODE_OF_ERR.get(exc_name(g, e), 999)]
        if cfg is not env.ir.cfg:
            problems.append("an in-place operator rebound ir.cfg")
        items.append(it); impl.append(rep)
        observe(full=(rng.random() < 0.4 or step == length - 1))
        if problems:
            break
    return items, impl, problems


def exhaustive_small_cfg(ctx, g):
    """Every operation x argument shape from four base states over a 12-edge universe (2 attached nodes + 1 detached, labels None /
    all-default / Call), followed by a second operation (so that anything remembered across `clear`, `pop` or an in-place operator
    shows), with all observations after each: deterministic on every run."""
    T = g.Edge.Type
    ir = g.IR()
    m = g.Module(name="m", ir=ir)
    bi = g.ByteInterval(size=8, section=g.Section(name="s", module=m))
    nodes = [g.CodeBlock(size=1, offset=0, byte_interval=bi), g.ProxyBlock(module=m), g.CodeBlock(size=1, offset=4)]
    labels = [None, g.Edge.Label(T.Branch, False, False), g.Edge.Label(T.Call)]
    U = [(i, j, k) for i in range(3) for j in range(3) for k in range(3) if (i, j) in ((0, 0), (0, 1), (1, 0), (0, 2))]

    def E(t):
        return g.Edge(nodes[t[0]], nodes[t[1]], labels[t[2]])

    def key(e):
        return (nodes.index(e.source), nodes.index(e.target), labels.index(e.label) if e.label in labels else -1)
    bases = [[], [U[0]], [U[0], U[1], U[2]], [U[0], U[3], U[4], U[6], U[9]]]
    args = [[], [U[0]], [U[1]], [U[0], U[1]], [U[5], U[5]], [U[3], U[0], U[7]]]
    forms = {"set": lambda a: set(map(E, a)), "list": lambda a: list(map(E, a)), "gen": lambda a: (E(x) for x in a), "cfg": lambda a: g.CFG(map(E, a))}
    ops = [("add", x) for x in (U[0], U[1], U[5])] + [("discard", x) for x in (U[0], U[1], U[5])] + [("remove", x) for x in (U[0], U[1], U[5])] + [("pop", None), ("clear", None)]
    for a in args:
        for f in forms:
            ops += [(o, (a, f)) for o in ("update", "ior", "iand", "isub", "ixor")]
    ops += [(o, "SELF") for o in ("ior", "iand", "isub", "ixor", "update")]
    n = 0

    def observe(cfg, sh, what):
        probs = []
        got = sorted(key(e) for e in cfg)
        if got != sorted(sh) or len(cfg) != len(sh):
            probs.append("iteration/len %s (len %d), the set is %s" % (got, len(cfg), sorted(sh)))
        for t in U:
            if (E(t) in cfg) != (t in sh):
                probs.append("membership of %s is %s" % (t, E(t) in cfg))
                break
        for i, nd in enumerate(nodes):
            try:
                oe, ie = sorted(key(e) for e in cfg.out_edges(nd)), sorted(key(e) for e in cfg.in_edges(nd))
                og, ig = sorted(key(e) for e in nd.outgoing_edges), sorted(key(e) for e in nd.incoming_edges)
            except Exception as ex:  # noqa: BLE001
                probs.append("an adjacency view of node %d raised %s" % (i, type(ex).__name__))
                break
            if oe != sorted(t for t in sh if t[0] == i) or ie != sorted(t for t in sh if t[1] == i):
                probs.append("out/in_edges of node %d are %s / %s" % (i, oe, ie))
            if i < 2 and (og != oe or ig != ie):
                probs.append("node %d reports outgoing/incoming %s / %s" % (i, og, ig))
            if i == 2 and (og or ig):
                probs.append("a detached node reports edges")
        if probs:
            ctx.add("oracle", "cfg-set:small", "after %s: %s" % (what, "; ".join(probs[:3])), {"history": what})
        return not probs

    def apply(cfg, sh, op, arg):
        if arg == "SELF":
            a_impl, a_sh = cfg, set(sh)
        elif isinstance(arg, tuple) and len(arg) == 2 and isinstance(arg[0], list):
            a_impl, a_sh = forms[arg[1]](arg[0]), set(arg[0])
        else:
            a_impl, a_sh = (E(arg) if arg else None), arg
        try:
            if op == "add":
                cfg.add(a_impl); sh.add(a_sh)
            elif op == "discard":
                cfg.discard(a_impl); sh.discard(a_sh)
            elif op == "remove":
                want_err = a_sh not in sh
                sh.discard(a_sh)
                try:
                    cfg.remove(a_impl)
                    if want_err:
                        return "remove of an absent edge did not raise"
                except KeyError:
                    if not want_err:
                        return "remove of a present edge raised KeyError"
            elif op == "pop":
                if sh:
                    k = key(cfg.pop())
                    if k not in sh:
                        return "pop returned an edge that was not in the set"
                    sh.discard(k)
                else:
                    try:
                        cfg.pop()
                        return "pop on an empty CFG did not raise"
                    except KeyError:
                        pass
            elif op == "clear":
                cfg.clear(); sh.clear()
            elif op == "update":
                cfg.update(a_impl); sh |= a_sh
            elif op == "ior":
                ir.cfg |= a_impl; sh |= a_sh               # written against the attribute: the result is assigned back
            elif op == "iand":
                ir.cfg &= a_impl; sh &= a_sh
            elif op == "isub":
                ir.cfg -= a_impl; sh -= a_sh
            else:
                ir.cfg ^= a_impl; sh ^= a_sh
        except Exception as ex:  # noqa: BLE001
            return "raised %s" % type(ex).__name__
        if cfg is not ir.cfg:
            return "an in-place operator rebound ir.cfg"
        return None
    for base in bases:
        for op, arg in ops:
            for op2, arg2 in (("add", U[8]), ("discard", U[0]), ("ixor", ([U[0], U[8]], "list"))):
                ir.cfg.clear()
                cfg = ir.cfg
                sh = set()
                for t in base:
                    cfg.add(E(t)); sh.add(t)
                what = "base %s, %s(%s)" % (base, op, "itself" if arg == "SELF" else arg)
                n += 1
                r = apply(cfg, sh, op, arg)
                if r:
                    ctx.add("oracle", "cfg-set:small", "%s: %s" % (what, r), {"history": what})
                    break
                if not observe(cfg, sh, what):
                    break
                what += ", then %s(%s)" % (op2, arg2)
                r = apply(cfg, sh, op2, arg2)
                if r:
                    ctx.add("oracle", "cfg-set:small", "%s: %s" % (what, r), {"history": what})
                    break
                if not observe(cfg, sh, what):
                    break
    ctx.count("exhaustive_cfg_histories", n)
    ctx.case("exhaustive-small-cfg", True)


def run(ctx):
    g = gtirb_from_repo.load()
    exhaustive_small_cfg(ctx, g)
    nh, ln = (150, 30) if ctx.quick else (3000, 50)
    hs = []
    for _ in range(nh):
        items, impl, problems = run_history(ctx, g, ctx.rng, ln)
        hs.append((items, impl))
        ctx.case(repr(items), True)
        if problems:
            ops = [it for it in items if it[0] < 0x14]
            ctx.add("oracle", "cfg-set:op%d" % (ops[-1][0] if ops else 0), "CFG differs from the set of edges: " + "; ".join(problems[:3]),
                    {"items": items, "problems": problems[:8]})
    reps = model_batch([[30, items] for items, _ in hs])
    for (items, impl), rep in zip(hs, reps):
        if isinstance(rep, tuple):
            ctx.add("corr", "cfg:model-died", "the model driver failed on a history", {"items": items[:60]})
            continue
        for i, (it, im, mo) in enumerate(zip(items, impl, rep)):
            if it[0] in (0x14,) and mo[0] == 0:
                mo = [0, mo[1], sorted(mo[2])]
            elif it[0] in (0x16, 0x17) and mo[0] == 0:
                mo = [0, sorted(mo[1])]
            if mo != im:
                ctx.add("corr", "cfg:item%d" % it[0], "history item %d %s: implementation %s, model %s" % (i, it, im, mo),
                        {"items": items[: i + 1], "impl": im, "model": mo, "index": i})
                break
    ctx.cov["histories"] = nh
    ctx.cov["traces_validated_against_impl"] = nh
    ctx.cov["rule"] = ("random histories of %d set operations (add, discard, remove, pop, clear, update, |=, &=, -=, ^= with plain sets, CFGs, lists and one-shot iterators as operands) over 9 nodes (two of them proxies sharing a UUID with another proxy) "
                       "(4 attached to the CFG's IR, 1 to another IR, 1 detached) x 9 labels incl. None and the all-default label, endpoints/labels drawn from a small pool so that "
                       "re-adding, parallel edges and self-loops are frequent; after every operation len/iteration, and on 40%% of the steps membership, comparisons and all adjacency "
                       "views; one evaluation = one history" % ln)
    ctx.sample({"history_prefix": hs[0][0][:8]})


def replay(ctx, path):
    import replaylib
    return replaylib.replay_file(path)
