"""C17 -- the loader either rejects a file or returns a coherent IR.
Fault enumeration on the implementation, judged by the coherence oracle (C03/C04 hold, references typed and attached, bytes <= size,
can be saved again) and compared with Model/Proto.v's reader where the input is a message:
 * every single structural fault class at every applicable site of valid messages built directly from the descriptors
   (bad enum number, UUID of length 0/15/17, block / expression without payload, bytes beyond size, other version field,
   dangling / ill-typed references, one UUID on two nodes);
 * every header variation (magic, reserved bytes, version byte, short files);
 * byte level: every truncation, every single-bit flip and byte substitutions of valid files;
 * every file produced by save from a self-contained IR is accepted (shared with C01)."""
import json

import content
import faults
import gtirb_from_repo
import irgen
import protocheck
from common import ImplTimeout, exc_name

LEVEL = "proof"
TRUSTED = ("arbitrary BYTES are the protobuf parser's domain: wire-level inputs are judged by the coherence oracle only (fault enumeration); 'never hangs' is a 20 s alarm",)


_CONTROL = {}


def control_load(ctx, g, after, file_hex):
    """'every file produced by save from a self-contained IR is accepted' -- whatever was loaded, and REJECTED, before it in the same
    process: a small unrelated saved file (its own UUIDs, intervals with symbolic expressions in two modules, a CFG, AuxData) is
    loaded right after a rejected one and must come back coherent."""
    if "bytes" not in _CONTROL:
        ir = g.IR()
        for j in range(2):
            m = g.Module(name="control%d" % j, ir=ir)
            sec = g.Section(name="s", module=m)
            y = g.Symbol("y%d" % j, module=m)
            for k in range(2):
                bi = g.ByteInterval(address=4096 * (2 * j + k + 1), size=16, contents=b"\x00" * 8, section=sec)
                cb = g.CodeBlock(offset=0, size=4, byte_interval=bi)
                bi.symbolic_expressions[4 * k] = g.SymAddrConst(k, y)
            m.entry_point = cb
            g.Symbol("z%d" % j, payload=cb, module=m)
        ir.cfg.add(g.Edge(cb, cb, g.Edge.Label(g.Edge.Type.Branch, False, True)))
        ir.aux_data["t"] = g.AuxData({cb: 1}, "mapping<UUID,uint8_t>")
        _CONTROL["bytes"] = protocheck.save_bytes(ir)
    ctx.count("control_loads_after_rejections")
    try:
        ir2 = protocheck.load_bytes(g, _CONTROL["bytes"])
        probs = protocheck.safe_coherence(g, ir2)
    except Exception as e:  # noqa: BLE001
        probs = ["load raised %s: %s" % (exc_name(g, e), str(e)[:80])]
    if probs:
        ctx.add("oracle", "saved-rejected", "a valid saved file loaded right after %s was rejected is itself not accepted: %s" % (after, probs[0]),
                {"tag": after, "file": file_hex, "control_file": _CONTROL["bytes"].hex()})
        return False
    return True


def judge_bytes(ctx, g, bs, tag, sigp):
    """load must raise or return a coherent, saveable IR"""
    out = _judge_bytes(ctx, g, bs, tag, sigp)
    if out not in ("ok", "hang"):
        _CONTROL["n"] = _CONTROL.get("n", 0) + 1
        if _CONTROL["n"] <= 40 or _CONTROL["n"] % 25 == 0:
            control_load(ctx, g, "a corrupted file (%s)" % tag, bs.hex())
    return out


def _judge_bytes(ctx, g, bs, tag, sigp):
    try:
        ir = protocheck.load_bytes(g, bs)
    except ImplTimeout:
        ctx.add("oracle", sigp + ":hang", "load did not return within the time limit", {"tag": tag, "file": bs.hex()})
        return "hang"
    except RecursionError:
        return "RecursionError"
    except Exception as e:  # noqa: BLE001
        return exc_name(g, e)
    probs = protocheck.safe_coherence(g, ir)
    for p in probs[:2]:
        ctx.add("oracle", sigp + ":incoherent", "load returned an IR that is not coherent: " + p, {"tag": tag, "file": bs.hex()})
    if not probs:
        try:
            protocheck.save_bytes(ir)
        except Exception as e:  # noqa: BLE001
            ctx.add("oracle", sigp + ":cannot-resave", "an IR returned by load cannot be saved again: %s" % exc_name(g, e), {"tag": tag, "file": bs.hex()})
    return "ok"


def header_stream(ctx, g, body):
    ver = g.version.PROTOBUF_VERSION
    good = b"GTIRB\0\0" + bytes([ver])
    cases = []
    for i in range(5):
        for d in (1, 0x20, 0x80):
            h = bytearray(good); h[i] ^= d
            cases.append(("magic-byte%d" % i, bytes(h) + body, "ValueError"))
    for v in [x for x in (0, 1, 2, 3, 5, 6, 255) if x != ver]:
        cases.append(("version-byte=%d" % v, good[:7] + bytes([v]) + body, "ValueError"))
    for n in range(8):
        cases.append(("short-%d" % n, good[:n], "ValueError"))
    cases.append(("lowercase", b"gtirb\0\0" + bytes([ver]) + body, "ValueError"))
    # the magic somewhere else in the header than in bytes 0-4 (a containment or suffix test instead of a prefix test), permuted,
    # or interleaved -- with the version byte where a lenient reader would look for it
    V = bytes([ver])
    for k, pre in enumerate((b"\0", b"\0\0", b"x", b"G", b" ", b"\n", b"\xef\xbb", b"GT")):
        cases.append(("magic-shifted%d" % k, (pre + b"GTIRB\0\0")[:7] + V + body, "ValueError"))
        cases.append(("magic-shifted-long%d" % k, pre + b"GTIRB\0\0" + V + body, "ValueError"))
    for k, mg in enumerate((b"TIRBG", b"BGTIR", b"BRITG", b"GTIBR", b"TGIRB", b"GTRIB", b"GTIR\0", b"\0TIRB", b"GTIRb", b"GTIRC")):
        cases.append(("magic-permuted%d" % k, mg + b"\0\0" + V + body, "ValueError"))
        cases.append(("magic-permuted-then-magic%d" % k, mg + b"GTIRB\0\0" + V + body, "ValueError"))
    cases.append(("magic-after-version", V + b"\0\0GTIRB" + body, "ValueError"))
    cases.append(("magic-in-body-only", b"\0" * 7 + V + b"GTIRB\0\0" + V + body, "ValueError"))
    cases.append(("reserved-nonzero", b"GTIRB\x01\xff" + bytes([ver]) + body, None))      # bytes 5-6 are reserved: either outcome, but coherent
    cases.append(("header-only", good, None))
    for sig, bs, want in cases:
        out = judge_bytes(ctx, g, bs, sig, "header")
        ctx.count("header:" + out)
        ctx.case("header:" + sig, True)
        if want and out != want:
            ctx.add("oracle", "header:" + sig.split("=")[0].rstrip("0123456789"), "header variation %s: outcome %s, must be rejected with %s" % (sig, out, want),
                    {"tag": sig, "file": bs[:20000].hex(), "must_reject_with": want})


def run(ctx):
    g = gtirb_from_repo.load()
    ctx.scope = {"deny": ("reader:content", "reader-field:", "roundtrip:content", "roundtrip:deep_eq", "roundtrip:aux", "roundtrip:resave", "roundtrip:identity")}
    cov = irgen.Cov(ctx)
    enums = protocheck.schema_enums()
    n_msg, n_files, n_save = (12, 3, 30) if ctx.quick else (250, 30, 600)
    batch = protocheck.Batch()
    nf = 0
    for i in range(n_msg):
        m = irgen.gen_message(ctx.rng, enums, cov, version=g.version.PROTOBUF_VERSION)
        if not m[1]:
            continue
        protocheck.reader_stream(ctx, g, batch, m, "V%d" % i)
        for sig, fm, want in faults.structural_faults(m, ctx.rng, enums) + faults.reference_faults(m, ctx.rng):
            r = protocheck.reader_stream(ctx, g, batch, fm, "S%d:%s" % (i, sig), expect_coherent=False)
            nf += 1
            ctx.case(sig + repr(fm), True)
            ctx.count("fault:" + sig.split(":")[0])
            if r is None:
                continue
            outcome = r[0]
            if outcome[0] != 0:
                control_load(ctx, g, "a message with the fault %s" % sig, r[2].hex())
            if want is None:
                continue                    # merged duplicate: coherence (already judged in reader_stream) is all that is required
            want_cls = want.rstrip("*")
            if outcome[0] == 0:
                ctx.add("oracle", "fault-accepted:" + sig.split("->")[0].split("=")[0], "a message with the fault %s is accepted" % sig, {"tag": sig, "file": r[2].hex()})
            elif outcome[1] != want_cls and not want.endswith("*"):
                ctx.add("oracle", "fault-class:" + sig.split("->")[0].split("=")[0], "fault %s is rejected with %s, the property prescribes %s" % (sig, outcome[1], want_cls),
                        {"tag": sig, "file": r[2].hex()})
    # files produced by save are accepted; and byte-level corruption of some of them
    files = []
    for i in range(n_save):
        ir, auxinfo = irgen.gen_ir(g, ctx.rng, cov)
        if protocheck.is_d7(g, ir):
            continue
        try:
            bs = protocheck.save_bytes(ir)
        except Exception as e:  # noqa: BLE001
            ctx.add("oracle", "save-raised", "save of a self-contained IR raised %s" % exc_name(g, e), {})
            continue
        out = judge_bytes(ctx, g, bs, "saved%d" % i, "saved")
        ctx.case(repr(bs), True)
        if out != "ok":
            ctx.add("oracle", "saved-rejected", "a file produced by save from a self-contained IR is rejected with %s" % out, {"file": bs.hex()})
        if 150 <= len(bs) <= 2500:
            files.append(bs)
    files = files[:n_files]
    if files:
        header_stream(ctx, g, files[0][8:])
    for fi, bs in enumerate(files):
        muts = []
        for cut in range(len(bs)):
            muts.append(("trunc", bs[:cut]))
        for pos in range(len(bs)):
            for bit in ((0, 3, 7) if ctx.quick else range(8)):
                b = bytearray(bs); b[pos] ^= (1 << bit)
                muts.append(("bitflip", bytes(b)))
            for val in (0x00, 0xFF, (bs[pos] + 1) & 0xFF):
                if val != bs[pos]:
                    b = bytearray(bs); b[pos] = val
                    muts.append(("subst", bytes(b)))
        for kind, mb in muts:
            out = judge_bytes(ctx, g, mb, "%s file%d" % (kind, fi), "bytes-" + kind)
            ctx.count("bytes:%s:%s" % (kind, out if out in ("ok", "hang") else "rejected"))
            ctx.cov["evaluations"] += 1
        ctx.count("byte_level_inputs", len(muts))
    batch.run()
    ctx.cov["structural_faults"] = nf
    ctx.cov["traces_validated_against_impl"] = nf
    import loadedworld
    lh = loadedworld.stream(ctx, g, ctx.rng, 6 if ctx.quick else 150, 12 if ctx.quick else 30, "loaded", what={"forest", "cache"})
    ctx.cov["histories_continued_from_loaded_files"] = len(lh)
    ctx.cov["rule"] = ("%d valid messages, every single structural fault at every site (%d faulty messages), outcome class against the property's table and against the model reader; "
                       "all header variations; %d saved files accepted; %d of them corrupted at byte level (every truncation, bit flips, substitutions at every position), each outcome "
                       "judged by the coherence oracle" % (n_msg, nf, n_save, len(files)))
    ctx.sample({"fault_kinds": ["uuidlen15:Section", "enum:isa", "bytes>size", "block-no-payload", "dup-uuid:Symbol=CodeBlock", "version-field=5"]})


def replay(ctx, path):
    import replaylib
    return replaylib.replay_file(path)
