"""C10 -- symbol lookups by name and by referent track every change.
Direct oracle: comprehension over module.symbols (world.oracle_symbols) after every step, for every module x every
name of the pool and for every block/proxy.  Correspondence: the two indexes of Model/World.v."""
import json

import gtirb_from_repo
import world
import worldgen

LEVEL = "proof"
TRUSTED = ("defaultdict/set semantics of the two per-module indexes are CPython's",)
POOL = {"IR": 1, "Module": 3, "Section": 2, "ByteInterval": 2, "CodeBlock": 2, "DataBlock": 2, "ProxyBlock": 2, "Symbol": 6}


def observe(ctx, h):
    for m in h.by_kind["Module"]:
        for nm in range(6):
            it = [41, m, nm]
            rep = h.emit(it)
            bad = world.oracle_symbols(h.w, it, rep)
            if rep[0] == 0 and rep[1]:
                ctx.count("nonempty_named")
            if bad:
                return it, bad
    for b in h.by_kind["CodeBlock"] + h.by_kind["DataBlock"] + h.by_kind["ProxyBlock"]:
        it = [42, b]
        rep = h.emit(it)
        bad = world.oracle_symbols(h.w, it, rep)
        if rep[0] == 0 and rep[1]:
            ctx.count("nonempty_references")
        if bad:
            return it, bad
    return None


def identity_not_uuid(ctx, g, rng, n):
    """'whose referent is THAT block': referents are told apart by identity.  Free-standing modules (no IR, hence no UUID table) hold
    blocks and proxies that share a UUID with another one, and nodes whose `uuid` attribute is reassigned after symbols refer to
    them; symbols are renamed, re-targeted, moved between the modules, blocks are moved.  After every step both lookups are compared
    with a scan of module.symbols, for every module x name and every block."""
    import uuid as uuidlib
    from common import exc_name
    names = ["", "a", "b", "é"]
    for rd in range(n):
        m1, m2 = g.Module(name="m1"), g.Module(name="m2")
        mods = [m1, m2]
        u = uuidlib.UUID(int=rng.getrandbits(128))
        sec = g.Section(name="s", module=m1)
        bi = g.ByteInterval(size=32, section=sec)
        sec2 = g.Section(name="s", module=m2)
        bi2 = g.ByteInterval(size=32, section=sec2)
        blocks = [g.ProxyBlock(uuid=u, module=m1), g.ProxyBlock(uuid=u, module=m1), g.ProxyBlock(module=m1),
                  g.DataBlock(size=1, offset=0, uuid=uuidlib.UUID(int=0), byte_interval=bi), g.DataBlock(size=1, offset=4, uuid=uuidlib.UUID(int=0), byte_interval=bi),
                  g.CodeBlock(size=1, offset=8, uuid=u, byte_interval=bi), g.CodeBlock(size=1, offset=9, byte_interval=bi2)]
        syms = [g.Symbol(rng.choice(names), module=rng.choice(mods)) for _ in range(5)]
        trail = []

        def check():
            for m in mods:
                for nm in names:
                    got = list(m.symbols_named(nm))
                    want = [y for y in m.symbols if y.name == nm]
                    if sorted(map(id, got)) != sorted(map(id, want)):
                        return "%s.symbols_named(%r) yields %d symbols, a scan of the module %d" % (m.name, nm, len(got), len(want))
            for k, b in enumerate(blocks):
                got = list(b.references)
                want = [] if b.module is None else [y for y in b.module.symbols if y.referent is b]
                ctx.count("identity_scenario_reference_lookups")
                if sorted(map(id, got)) != sorted(map(id, want)):
                    return "block %d (%s, %s).references yields %s, a scan of its module's symbols %s" % (
                        k, type(b).__name__, "UUID shared with another node" if sum(1 for x in blocks if x.uuid == b.uuid) > 1 else "own UUID",
                        sorted(syms.index(y) for y in got), sorted(syms.index(y) for y in want))
            return None
        for step in range(14):
            r = rng.random()
            try:
                if r < 0.4:
                    y, b = rng.choice(syms), rng.choice(blocks)
                    y.referent = b
                    trail.append("sym%d.referent = block %d" % (syms.index(y), blocks.index(b)))
                elif r < 0.5:
                    y = rng.choice(syms)
                    y.value = rng.choice([0, 7])
                    trail.append("sym%d.value = int" % syms.index(y))
                elif r < 0.6:
                    y = rng.choice(syms)
                    y.name = rng.choice(names)
                    trail.append("sym%d renamed" % syms.index(y))
                elif r < 0.72:
                    y = rng.choice(syms)
                    y.module = rng.choice(mods + [None])
                    trail.append("sym%d moved" % syms.index(y))
                elif r < 0.84:
                    b = rng.choice(blocks)
                    if isinstance(b, g.ProxyBlock):
                        b.module = rng.choice(mods + [None])
                    else:
                        b.byte_interval = rng.choice([bi, bi2, None])
                    trail.append("block %d moved" % blocks.index(b))
                else:
                    b = rng.choice(blocks)
                    b.uuid = rng.choice([u, uuidlib.UUID(int=rng.getrandbits(128)), uuidlib.UUID(int=0)])
                    trail.append("block %d.uuid reassigned" % blocks.index(b))
                    ctx.count("identity_scenario_uuid_reassigned")
            except Exception as e:  # noqa: BLE001
                ctx.add("oracle", "symbol-lookup:identity", "after %s the step raised %s" % (trail[-3:], exc_name(g, e)), {"trail": trail})
                break
            bad = check()
            if bad:
                ctx.add("oracle", "symbol-lookup:identity", "free-standing modules, after [%s]: %s" % ("; ".join(trail[-4:]), bad), {"trail": trail})
                break
        ctx.case("identity-scenario:%d:%s" % (rd, trail), True)


def run(ctx):
    g = gtirb_from_repo.load()
    identity_not_uuid(ctx, g, ctx.rng, 40 if ctx.quick else 800)
    rng = ctx.rng
    nh, ln = (80, 30) if ctx.quick else (2000, 60)
    hists = []
    for _ in range(nh):
        h = worldgen.Hist(g, rng, {"pool": POOL})
        h.setup_pool()
        h.build_some_structure(0.8)
        for _ in range(ln):
            r = rng.random()
            if r < 0.25:
                h.op_setparent()
            elif r < 0.45:
                h.op_set()
            elif r < 0.5:
                h.op_mods()
            else:
                # symbol renames and payload switches dominate
                s = rng.choice(h.by_kind["Symbol"])
                if rng.random() < 0.45:
                    h.emit([17, s, rng.randrange(6)])
                else:
                    blocks = h.by_kind["CodeBlock"] + h.by_kind["DataBlock"] + h.by_kind["ProxyBlock"]
                    q = rng.random()
                    h.emit([18, s, [1, rng.choice(blocks)] if q < 0.5 else ([0, rng.choice([0, 0, 1, 77])] if q < 0.8 else [])])
            ctx.count("steps")
            if rng.random() < 0.1:
                # a copy of the world (deep copy / pickle round trip) answers both lookups from ITS symbols and blocks
                how = rng.choice(["deepcopy", "pickle"])
                w2 = world.copy_world(h.w, how) or world.copy_world(h.w, "deepcopy")
                if w2 is not None:
                    ctx.count("copies_queried:" + how)
                    qs = [[41, m, nm] for m in h.by_kind["Module"] for nm in range(6)] + \
                         [[42, b] for b in h.by_kind["CodeBlock"] + h.by_kind["DataBlock"] + h.by_kind["ProxyBlock"]]
                    for q in qs:
                        badc = world.oracle_symbols(w2, q, w2.run(q))
                        if badc:
                            ctx.add("oracle", "symbol-lookup:copy:item%d" % q[0], "lookup %s on a %s of the world: %s" % (q, how, badc[0]),
                                    {"items": h.items, "copy": how, "query": q, "problems": badc})
                            break
            res = observe(ctx, h)
            if res:
                it, bad = res
                ctx.add("oracle", "symbol-lookup:item%d" % it[0], "lookup %s: %s" % (it, bad[0]), {"items": h.items, "problems": bad})
                break
        hists.append(h)
        ctx.case(repr(h.items), True)
    worldgen.compare(ctx, hists, "symbol-index", "C10 symbol index correspondence")
    ctx.cov["histories"] = nh
    ctx.cov["traces_validated_against_impl"] = nh
    import loadedworld
    lh = loadedworld.stream(ctx, g, ctx.rng, 6 if ctx.quick else 150, 12 if ctx.quick else 30, "loaded", what={"symbols"})
    ctx.cov["histories_continued_from_loaded_files"] = len(lh)
    ctx.cov["rule"] = ("random histories of %d steps: symbol add/remove/move, renames over 6 names incl. '' and shared ones, payload block/proxy/int(0)/None, "
                       "block and proxy moves; after every step symbols_named for every module x name and references for every block" % ln)
    ctx.sample({"history_tail": hists[0].items[-4:]})


def replay(ctx, path):
    import replaylib
    return replaylib.replay_file(path)
