"""C10 -- symbol lookups by name and by referent track every change.
Direct oracle: comprehension over module.symbols (world.oracle_symbols) after every step, for every module x every
name of the pool and for every block/proxy.  Correspondence: the two indexes of Model/World.v."""
import json

import gtirb_from_repo
import world
import worldgen

LEVEL = "proof"
TRUSTED = ("defaultdict/set semantics of the two per-module indexes are CPython's",)
POOL = {"IR": 1, "Module": 3, "Section": 2, "ByteInterval": 2, "CodeBlock": 2, "DataBlock": 2, "ProxyBlock": 2, "Symbol": 6}


def observe(ctx, h):
    for m in h.by_kind["Module"]:
        for nm in range(6):
            it = [41, m, nm]
            rep = h.emit(it)
            bad = world.oracle_symbols(h.w, it, rep)
            if rep[0] == 0 and rep[1]:
                ctx.count("nonempty_named")
            if bad:
                return it, bad
    for b in h.by_kind["CodeBlock"] + h.by_kind["DataBlock"] + h.by_kind["ProxyBlock"]:
        it = [42, b]
        rep = h.emit(it)
        bad = world.oracle_symbols(h.w, it, rep)
        if rep[0] == 0 and rep[1]:
            ctx.count("nonempty_references")
        if bad:
            return it, bad
    return None


def run(ctx):
    g = gtirb_from_repo.load()
    rng = ctx.rng
    nh, ln = (80, 30) if ctx.quick else (2000, 60)
    hists = []
    for _ in range(nh):
        h = worldgen.Hist(g, rng, {"pool": POOL})
        h.setup_pool()
        h.build_some_structure(0.8)
        for _ in range(ln):
            r = rng.random()
            if r < 0.25:
                h.op_setparent()
            elif r < 0.45:
                h.op_set()
            elif r < 0.5:
                h.op_mods()
            else:
                # symbol renames and payload switches dominate
                s = rng.choice(h.by_kind["Symbol"])
                if rng.random() < 0.45:
                    h.emit([17, s, rng.randrange(6)])
                else:
                    blocks = h.by_kind["CodeBlock"] + h.by_kind["DataBlock"] + h.by_kind["ProxyBlock"]
                    q = rng.random()
                    h.emit([18, s, [1, rng.choice(blocks)] if q < 0.5 else ([0, rng.choice([0, 0, 1, 77])] if q < 0.8 else [])])
            ctx.count("steps")
            res = observe(ctx, h)
            if res:
                it, bad = res
                ctx.add("oracle", "symbol-lookup:item%d" % it[0], "lookup %s: %s" % (it, bad[0]), {"items": h.items, "problems": bad})
                break
        hists.append(h)
        ctx.case(repr(h.items), True)
    worldgen.compare(ctx, hists, "symbol-index", "C10 symbol index correspondence")
    ctx.cov["histories"] = nh
    ctx.cov["traces_validated_against_impl"] = nh
    import loadedworld
    lh = loadedworld.stream(ctx, g, ctx.rng, 6 if ctx.quick else 150, 12 if ctx.quick else 30, "loaded", what={"symbols"})
    ctx.cov["histories_continued_from_loaded_files"] = len(lh)
    ctx.cov["rule"] = ("random histories of %d steps: symbol add/remove/move, renames over 6 names incl. '' and shared ones, payload block/proxy/int(0)/None, "
                       "block and proxy moves; after every step symbols_named for every module x name and references for every block" % ln)
    ctx.sample({"history_tail": hists[0].items[-4:]})


def replay(ctx, path):
    import replaylib
    return replaylib.replay_file(path)
