"""C16 -- owning collections behave like the built-in list, set and dict.
Direct oracle: every call is also made on a built-in shadow (set / list / dict of node numbers) with the
"moved, not duplicated" rule applied first; return values, resulting contents, exception classes, and for
non-mutating operators the type and contents of the result are compared; ownership consistency
(world.oracle_forest) is checked after every call, failed ones included.
Correspondence: the mutating calls are replayed on Model/World.v."""
import json

import gtirb_from_repo
import world
import worldgen
from common import exc_name
from world import FIELDS, K, KINDS, SETM

LEVEL = "proof"
TRUSTED = ("the reference semantics are CPython's own list/set/dict (executed, not modelled, in the shadow oracle)",)


class Shadows:
    def __init__(self, h):
        self.h = h
        self.sets = {}     # (owner, field) -> set of nums
        self.lists = {}    # ir -> list of nums
        self.dicts = {}    # bi -> dict offset -> expr num

    def sync_from_impl(self):
        h = self.h
        for kind, fields in FIELDS.items():
            for p in h.by_kind[kind]:
                for f, kinds in fields.items():
                    self.sets[(p, f)] = set(x for x in h.w.kids(p) if h.w.kind[x] in kinds)
        for ir in h.by_kind["IR"]:
            self.lists[ir] = list(h.w.kids(ir))
        for bi in h.by_kind["ByteInterval"]:
            self.dicts[bi] = {k: h.w.expr_num[id(e)] for k, e in h.w.obj[bi].symbolic_expressions.items()}

    def detach_from_sets(self, x, field_kinds):
        for (p, f), s in self.sets.items():
            s.discard(x)

    def detach_from_lists(self, x):
        for l in self.lists.values():
            if x in l:
                l.remove(x)


def call(g, fn):
    try:
        return ("ok", fn())
    except Exception as e:  # noqa: BLE001
        return ("err", exc_name(g, e))


def check_contents(ctx, h, sh, what, items_upto):
    """compare all collections with their shadows + forest consistency"""
    w = h.w
    for (p, f), s in sh.sets.items():
        got = set(w.n(x) for x in getattr(w.obj[p], f))
        if got != s:
            return "contents of n%d.%s are %s, the built-in gives %s" % (p, f, sorted(got), sorted(s))
        if len(getattr(w.obj[p], f)) != len(s):
            return "len(n%d.%s) differs" % (p, f)
    for ir, l in sh.lists.items():
        got = [w.n(x) for x in w.obj[ir].modules]
        if got != l:
            return "n%d.modules is %s, the built-in gives %s" % (ir, got, l)
    for bi, d in sh.dicts.items():
        got = [(k, w.expr_num[id(e)]) for k, e in w.obj[bi].symbolic_expressions.items()]
        if got != sorted(d.items()):
            return "n%d.symbolic_expressions iterates %s, the built-in sorted by offset gives %s" % (bi, got, sorted(d.items()))
    bad = world.oracle_forest(w)
    if bad:
        return "ownership inconsistent: " + "; ".join(bad[:2])
    bad = world.oracle_cache(w, h.uuids)
    if bad:
        return "UUID table inconsistent: " + "; ".join(bad[:2])
    return None


def step_set(ctx, g, h, sh, rng):
    w = h.w
    okind = rng.choice([k for k in FIELDS if h.by_kind[k]])
    p = rng.choice(h.by_kind[okind])
    f = rng.choice(list(FIELDS[okind]))
    kinds = FIELDS[okind][f]
    fk = [K[k] for k in kinds]
    pool = [n for k in kinds for n in h.by_kind[k]]
    if not pool:
        return None
    coll = getattr(w.obj[p], f)
    s = sh.sets[(p, f)]
    mem = sorted(s)
    O = w.obj

    def pick():
        return rng.choice(mem) if (mem and rng.random() < 0.45) else rng.choice(pool)

    def some(k):
        return [pick() for _ in range(k)]
    if rng.random() < 0.12:
        # the built-in set interface accepts ANY hashable where membership is tested or an element is removed: nodes of other kinds
        # (e.g. a symbol passed to sections.discard) and non-node values must behave as absent elements and be left alone.
        # (Not replayed on the model: its guard types the arguments.)
        others = [n for k in KINDS if k not in kinds and k != "IR" for n in h.by_kind[k]]
        vals = [O[x] for x in rng.sample(others, min(len(others), 2))] + [rng.choice([42, "name", None, (1, 2)])]
        v = rng.choice(vals)
        opn = rng.choice(["discard", "remove", "contains", "isub", "iand", "sub", "and", "isdisjoint", "le"])
        ctx.count("foreign." + opn)
        desc = "n%d.%s %s <foreign %s>" % (p, f, opn, type(v).__name__)
        memo = set(O[x] for x in mem)
        holder = {"c": coll}

        def f_isub():
            c = holder["c"]
            c -= {v}

        def f_iand():
            c = holder["c"]
            c &= (memo | {v})
        fi = {"discard": lambda: coll.discard(v), "remove": lambda: coll.remove(v), "contains": lambda: v in coll,
              "isub": f_isub, "iand": f_iand,
              "sub": lambda: set(w.n(x) for x in (coll - {v})), "and": lambda: set(w.n(x) for x in (coll & (memo | {v}))),
              "isdisjoint": lambda: coll.isdisjoint({v}), "le": lambda: coll <= (memo | {v})}[opn]
        want = {"discard": ("ok", None), "remove": ("err", "KeyError"), "contains": ("ok", False), "isub": ("ok", None), "iand": ("ok", None),
                "sub": ("ok", set(mem)), "and": ("ok", set(mem)), "isdisjoint": ("ok", True), "le": ("ok", True)}[opn]
        ri = call(g, fi)
        if ri != want:
            return desc, "returns/raises %s, the built-in %s" % (ri, want)
        return desc, None
    m = rng.choice(SETM + ["pure"] * 6)
    ctx.count("set." + m)
    desc = None
    if m == "pure":
        other_n = set(some(rng.choice([0, 1, 2, 3])))
        other = set(O[x] for x in other_n)
        opn = rng.choice(["and", "or", "sub", "xor", "rand", "ror", "rsub", "rxor", "eq", "ne", "le", "lt", "ge", "gt", "isdisjoint",
                          "contains", "len", "iter"])
        ctx.count("pure." + opn)
        fns = {
            "and": (lambda: coll & other, lambda: s & other_n), "or": (lambda: coll | other, lambda: s | other_n),
            "sub": (lambda: coll - other, lambda: s - other_n), "xor": (lambda: coll ^ other, lambda: s ^ other_n),
            "rand": (lambda: other & coll, lambda: other_n & s), "ror": (lambda: other | coll, lambda: other_n | s),
            "rsub": (lambda: other - coll, lambda: other_n - s), "rxor": (lambda: other ^ coll, lambda: other_n ^ s),
            "eq": (lambda: coll == other, lambda: s == other_n), "ne": (lambda: coll != other, lambda: s != other_n),
            "le": (lambda: coll <= other, lambda: s <= other_n), "lt": (lambda: coll < other, lambda: s < other_n),
            "ge": (lambda: coll >= other, lambda: s >= other_n), "gt": (lambda: coll > other, lambda: s > other_n),
            "isdisjoint": (lambda: coll.isdisjoint(other), lambda: s.isdisjoint(other_n)),
            "contains": (lambda: O[pick()] in coll, None), "len": (lambda: len(coll), lambda: len(s)),
            "iter": (lambda: sorted(w.n(x) for x in coll), lambda: sorted(s)),
        }
        fi, fs = fns[opn]
        if opn == "contains":
            x = pick()
            ri, rs = call(g, lambda: O[x] in coll), ("ok", x in s)
        else:
            ri, rs = call(g, fi), call(g, fs)
        desc = "n%d.%s %s %s" % (p, f, opn, sorted(other_n))
        if ri[0] == "ok" and opn in ("and", "or", "sub", "xor", "rand", "ror", "rsub", "rxor"):
            res = ri[1]
            if isinstance(res, g.util.SetWrapper) or not isinstance(res, (set, frozenset)):
                return desc, "the result of a non-mutating operator is a %s, not a plain set" % type(res).__name__
            ri = ("ok", set(w.n(x) for x in res))
        if ri != rs:
            return desc, "gives %s, the built-in gives %s" % (ri, rs)
        return desc, None
    # mutating
    if m in ("add", "discard", "remove"):
        x = pick()
        desc = "n%d.%s.%s(n%d)" % (p, f, m, x)
        ri = call(g, lambda: getattr(coll, m)(O[x]))
        if m == "add":
            sh.detach_from_sets(x, kinds)
        rs = call(g, lambda: getattr(s, m)(x))
        h.items.append([3, p, fk, SETM.index(m), [[x]]])
    elif m == "pop":
        desc = "n%d.%s.pop()" % (p, f)
        ri = call(g, coll.pop)
        if ri[0] == "ok":
            x = w.n(ri[1])
            if x not in s:
                return desc, "pop returned a non-member"
            s.discard(x)
            rs = ("ok", ri[1])
            h.items.append([3, p, fk, 3, [[x]]])
        else:
            rs = call(g, set(s).pop)
            h.items.append([3, p, fk, 3, []])
    elif m == "clear":
        desc = "n%d.%s.clear()" % (p, f)
        ri = call(g, coll.clear)
        rs = call(g, s.clear)
        h.items.append([3, p, fk, 4, []])
    elif m == "update":
        lists = [some(rng.choice([0, 1, 2, 3])) for _ in range(rng.choice([0, 1, 1, 2, 3]))]
        desc = "n%d.%s.update(%s)" % (p, f, lists)
        ri = call(g, lambda: coll.update(*[[O[x] for x in l] for l in lists]))
        for l in lists:
            for x in l:
                sh.detach_from_sets(x, kinds)
        rs = call(g, lambda: s.update(*lists))
        h.items.append([3, p, fk, 5, lists])
    else:
        arg = set(some(rng.choice([0, 1, 2, 4])))
        alias = rng.random() < 0.12
        if alias:
            # the operand IS the receiver (w -= w, w ^= w empty it; w |= w, w &= w leave it): the built-in handles the aliasing
            arg = set(s)
            ctx.count("set.operand_is_receiver")
        desc = "n%d.%s %s= %s" % (p, f, m, "itself" if alias else sorted(arg))
        argo = coll if alias else set(O[x] for x in arg)
        holder = {"c": coll}

        def do_impl():
            c = holder["c"]
            if m == "ior":
                c |= argo
            elif m == "iand":
                c &= argo
            elif m == "isub":
                c -= argo
            else:
                c ^= argo
            if c is not coll:
                raise AssertionError("in-place operator returned another object")
        ri = call(g, do_impl)
        if m in ("ior", "ixor"):
            for x in arg:
                if x not in s:
                    sh.detach_from_sets(x, kinds)

        def do_sh():
            a2 = s if alias else arg
            if m == "ior":
                s.__ior__(a2)
            elif m == "iand":
                s.__iand__(a2)
            elif m == "isub":
                s.__isub__(a2)
            else:
                s.__ixor__(a2)
        rs = call(g, do_sh)
        h.items.append([3, p, fk, SETM.index(m), [sorted(arg)]])
    h.replies.append([0] if ri[0] == "ok" else [-1, world.CODE_OF_ERR.get(ri[1], 999)])
    if ri[0] != rs[0] or (ri[0] == "err" and ri[1] != rs[1]) or (m != "pop" and ri[0] == "ok" and ri[1] is not None):
        return desc, "returns/raises %s, the built-in %s" % (ri, rs)
    return desc, None


def step_list(ctx, g, h, sh, rng):
    w = h.w
    O = w.obj
    ir = rng.choice(h.by_kind["IR"])
    ml = O[ir].modules
    l = sh.lists[ir]
    mods = h.by_kind["Module"]
    n = len(l)
    idx = rng.choice([0, -1, 1, n - 1, n, -n, -n - 1, n + 2, 2]) if rng.random() < 0.5 else (rng.randrange(n) if n else 0)
    ob = lambda: rng.choice([None, 0, 1, -1, n, n + 1, 2, -2])  # noqa: E731
    m = rng.choice(["append", "insert", "extend", "iadd", "remove", "pop", "delitem", "delslice", "setitem", "setslice", "clear",
                    "reverse", "index", "index_bounds", "index_bounds", "count", "getitem", "getslice", "len", "contains", "iter", "reversed",
                    "extslice_bad", "setext", "setext", "delext", "delext"])
    ctx.count("list." + m)
    v = rng.choice(l) if (l and rng.random() < 0.3) else rng.choice(mods)
    vs = list(dict.fromkeys(rng.choice(mods) for _ in range(rng.choice([0, 1, 2, 3]))))
    desc, item = None, None

    def moved(x):
        sh.detach_from_lists(x)
    if m == "append":
        desc = "n%d.modules.append(n%d)" % (ir, v)
        ri = call(g, lambda: ml.append(O[v])); moved(v); rs = call(g, lambda: l.append(v)); item = [4, ir, v]
    elif m == "insert":
        desc = "n%d.modules.insert(%d, n%d)" % (ir, idx, v)
        ri = call(g, lambda: ml.insert(idx, O[v]))
        # insert(i, x) is s[i:i] = [x]: a member is moved to where the built-in puts it
        rs = call(g, lambda: ([].insert(idx, None), assign_moved(l, slice(idx, idx), [v]))[1])
        if rs[0] == "ok":
            for ll in sh.lists.values():
                if ll is not l and v in ll:
                    ll.remove(v)
        item = [5, ir, idx, v]
    elif m in ("extend", "iadd"):
        # the argument may name a module more than once, and modules already in this list: each mention moves it to the end
        vs = [rng.choice(l) if (l and rng.random() < 0.3) else rng.choice(mods) for _ in range(rng.choice([0, 1, 2, 3, 4]))]
        if len(vs) != len(set(vs)):
            ctx.count("list.extend_with_repeats")
        desc = "n%d.modules.%s(%s)" % (ir, m, vs)
        if m == "extend":
            ri = call(g, lambda: ml.extend(w._form([O[x] for x in vs])))
        else:
            def f():
                x = O[ir].modules
                x += w._form([O[y] for y in vs])
                if x is not ml:
                    raise AssertionError("+= returned another object")
            ri = call(g, f)

        def fs():
            for x in vs:
                moved(x)
                l.append(x)
        rs = call(g, fs); item = [6, ir, vs]
    elif m == "remove":
        desc = "n%d.modules.remove(n%d)" % (ir, v)
        ri = call(g, lambda: ml.remove(O[v])); rs = call(g, lambda: l.remove(v)); item = [7, ir, v]
    elif m == "pop":
        desc = "n%d.modules.pop(%d)" % (ir, idx)
        ri = call(g, lambda: w.n(ml.pop(idx))); rs = call(g, lambda: l.pop(idx)); item = [8, ir, idx]
        if ri != rs:
            return desc, "returns/raises %s, the built-in %s" % (ri, rs)
        ri = rs = ("ok", None) if ri[0] == "ok" else ri
    elif m == "delitem":
        desc = "del n%d.modules[%d]" % (ir, idx)
        def fi(): del ml[idx]
        def fs(): del l[idx]
        ri = call(g, fi); rs = call(g, fs); item = [9, ir, idx]
    elif m == "delslice":
        a, b = ob(), ob()
        step1 = rng.random() < 0.3
        desc = "del n%d.modules[%s:%s%s]" % (ir, a, b, ":1" if step1 else "")
        def fi():
            if step1:
                del ml[a:b:1]
            else:
                del ml[a:b]
        def fs(): del l[a:b]
        ri = call(g, fi); rs = call(g, fs); item = [10, ir, world.opt(a), world.opt(b)]
    elif m == "delext":
        # deletion of an extended slice: any step, forwards and backwards (and 0: ValueError, nothing touched)
        a, b = ob(), ob()
        st = rng.choice([2, -1, -2, 3, -3, -1, 0, 1])
        desc = "del n%d.modules[%s:%s:%s]" % (ir, a, b, st)
        def fi(): del ml[a:b:st]
        def fs(): del l[a:b:st]
        ri = call(g, fi); rs = call(g, fs); item = [33, ir, world.opt(a), world.opt(b), st]
    elif m == "setitem":
        if l and rng.random() < 0.25:
            v = rng.choice(l)          # a module this list already holds: it is moved to the position (not duplicated)
        desc = "n%d.modules[%d] = n%d" % (ir, idx, v)
        def fi(): ml[idx] = O[v]
        ri = call(g, fi)
        if ri[0] == "ok":
            for ll in sh.lists.values():
                if ll is not l and v in ll:
                    ll.remove(v)
        def fs(): assign_moved(l, idx, v)
        rs = call(g, fs); item = [11, ir, idx, v]
    elif m == "setslice":
        a, b = ob(), ob()
        if l and rng.random() < 0.25:
            vs = list(vs)
            vs.insert(rng.randrange(len(vs) + 1), rng.choice(l))       # one the list holds already (inside or outside the slice)
        if vs and rng.random() < 0.2:
            vs = list(vs) + [rng.choice(vs)]                           # one named twice
        step1 = rng.random() < 0.3          # an explicit step of 1 is an ordinary slice for list
        desc = "n%d.modules[%s:%s%s] = %s" % (ir, a, b, ":1" if step1 else "", vs)
        def fi():
            if step1:
                ml[a:b:1] = [O[x] for x in vs]
            else:
                ml[a:b] = [O[x] for x in vs]
        ri = call(g, fi)
        for ll in sh.lists.values():
            if ll is not l:
                for x in vs:
                    if x in ll:
                        ll.remove(x)
        def fs(): assign_moved(l, slice(a, b), vs)
        rs = call(g, fs); item = [12, ir, world.opt(a), world.opt(b), vs]
    elif m == "clear":
        desc = "n%d.modules.clear()" % ir
        ri = call(g, ml.clear); rs = call(g, l.clear); item = [13, ir]
    elif m == "reverse":
        desc = "n%d.modules.reverse()" % ir
        ri = call(g, ml.reverse); rs = call(g, l.reverse); item = [28, ir]
    elif m == "setext":
        # an extended slice with the right-hand side mostly of the slice's size: members (a rearrangement), modules of elsewhere,
        # repetitions; the built-in's placement, then moved-not-duplicated (assign_moved); the same item goes to the model
        a, b = ob(), ob()
        st = rng.choice([2, -1, -2, 3, -3, 0])
        try:
            npos = len(range(*slice(a, b, st).indices(n)))
        except ValueError:
            npos = 0
        k = npos if rng.random() < 0.8 else rng.choice([0, 1, npos + 1])
        r = rng.random()
        if r < 0.3 and len(l) >= k:
            xs = rng.sample(l, k)
        else:
            xs = [rng.choice(mods) for _ in range(k)]
        desc = "n%d.modules[%s:%s:%s] = %s" % (ir, a, b, st, xs)
        def fi(): ml[a:b:st] = [O[x] for x in xs]
        ri = call(g, fi)
        def fs(): assign_moved(l, slice(a, b, st), xs)
        rs = call(g, fs)
        if ri[0] == "ok":
            for ll in sh.lists.values():
                if ll is not l:
                    for x in xs:
                        if x in ll:
                            ll.remove(x)
        item = [32, ir, world.opt(a), world.opt(b), st, xs]
    elif m == "extslice_bad":
        # wrong-length extended slice: must fail like list and leave everything attached
        fresh = [x for x in mods if all(x not in ll for ll in sh.lists.values())][:1]
        if len(l[::2]) == len(fresh):
            fresh = [] if fresh else None
        if fresh is None:
            return None
        desc = "n%d.modules[::2] = %s" % (ir, fresh)
        def fi(): ml[::2] = [O[x] for x in fresh]
        def fs(): l[::2] = fresh
        ri = call(g, fi); rs = call(g, fs)
        if ri[0] == "ok":
            sh.sync_from_impl() if rs[0] != "ok" else None
        if ri[0] != rs[0] or (ri[0] == "err" and ri[1] != rs[1]):
            return desc, "returns/raises %s, the built-in %s" % (ri, rs)
        if ri[0] == "ok":
            # equal-length extended slice assignment succeeded in both: resync the model through observation only
            return "RESYNC", None
        return desc, None
    else:
        fns = {
            "index": (lambda: ml.index(O[v]), lambda: l.index(v)), "count": (lambda: ml.count(O[v]), lambda: l.count(v)),
            "getitem": (lambda: w.n(ml[idx]), lambda: l[idx]), "len": (lambda: len(ml), lambda: len(l)),
            "contains": (lambda: O[v] in ml, lambda: v in l), "iter": (lambda: [w.n(x) for x in ml], lambda: list(l)),
            "reversed": (lambda: [w.n(x) for x in reversed(ml)], lambda: list(reversed(l))),
        }
        if m == "index_bounds":
            if l and rng.random() < 0.7:
                v = rng.choice(l)          # mostly a module that IS in the list: the bounds decide
            # list.index(x, start[, stop]) with integer bounds of every sign, 0 and beyond the ends included
            a = rng.choice([0, 0, 1, 2, -1, -2, -5, 5, len(l), -len(l)])
            b = rng.choice([0, 0, 1, 2, 3, -1, -2, -5, 5, len(l), -len(l)])
            if rng.random() < 0.3:
                ri = call(g, lambda: ml.index(O[v], a)); rs = call(g, lambda: l.index(v, a))
                desc = "n%d.modules index(x,start) n%d/%d" % (ir, v, a)
            else:
                ri = call(g, lambda: ml.index(O[v], a, b)); rs = call(g, lambda: l.index(v, a, b))
                desc = "n%d.modules index(x,start,stop) n%d/%d/%d" % (ir, v, a, b)
        elif m == "getslice":
            a, b, st = ob(), ob(), rng.choice([None, 1, 2, -1])
            ri = call(g, lambda: ml[a:b:st]); rs = call(g, lambda: l[a:b:st])
            desc = "n%d.modules[%s:%s:%s]" % (ir, a, b, st)
            if ri[0] == "ok":
                if not isinstance(ri[1], list):
                    return desc, "slicing returns a %s, not a plain list" % type(ri[1]).__name__
                ri = ("ok", [w.n(x) for x in ri[1]])
        else:
            fi, fs = fns[m]
            ri, rs = call(g, fi), call(g, fs)
            desc = "n%d.modules %s n%d/%d" % (ir, m, v, idx)
        if ri != rs:
            return desc, "returns/raises %s, the built-in %s" % (ri, rs)
        return desc, None
    h.items.append(item)
    h.replies.append([0] if ri[0] == "ok" else [-1, world.CODE_OF_ERR.get(ri[1], 999)])
    if ri[0] != rs[0] or (ri[0] == "err" and ri[1] != rs[1]) or (ri[0] == "ok" and ri[1] is not None):
        return desc, "returns/raises %s, the built-in %s" % (ri, rs)
    return desc, None


_MISSING = object()


def step_dict(ctx, g, h, sh, rng):
    w = h.w
    bi = rng.choice(h.by_kind["ByteInterval"])
    d = w.obj[bi].symbolic_expressions
    s = sh.dicts[bi]
    keys = sorted(s)
    k = rng.choice(keys) if keys and rng.random() < 0.6 else rng.choice(worldgen.OFFS + [20, 3])
    e = rng.randrange(1, 9)
    m = rng.choice(["set", "set", "del", "pop", "popdefault", "popitem", "setdefault", "update", "updatekw", "clear", "assign", "get", "getitem",
                    "contains", "len", "keys", "items", "eq"])
    ctx.count("dict." + m)
    kvs = dict((rng.choice(worldgen.OFFS + [20, 3]), rng.randrange(1, 9)) for _ in range(rng.choice([0, 1, 2, 3])))
    E = w.expr
    en = lambda x: None if x is None else w.expr_num[id(x)]  # noqa: E731

    def clone(x, doff=0, attr=False):
        at = set(x.attributes) | ({g.SymbolicExpression.Attribute.GOT} if attr else set())
        if isinstance(x, g.SymAddrAddr):
            return g.SymAddrAddr(x.scale, x.offset + doff, x.symbol1, x.symbol2, at)
        return g.SymAddrConst(x.offset + doff, x.symbol, at)
    item = None
    if m == "set" and k in s and rng.random() < 0.4:
        # an EQUAL but distinct expression object stored at an occupied offset replaces the stored object (a dict keeps the new value)
        old_e = d[k]
        c = clone(old_e)
        kk = w.expr_num[id(old_e)]
        w.expr_num[id(c)] = kk
        w.exprs[kk] = c
        ctx.count("dict.set_equal_object")
        def fi():
            d[k] = c
            if d[k] is not c or d.get(k) is not c or dict(d.items())[k] is not c:
                raise AssertionError("the mapping still holds the previous (equal) object")
        ri, rs = call(g, fi), ("ok", None)
    elif m == "set":
        def fi(): d[k] = E(e)
        def fs(): s[k] = e
        ri, rs = call(g, fi), call(g, fs); item = [19, bi, k, e]
    elif m == "del":
        def fi(): del d[k]
        def fs(): del s[k]
        ri, rs = call(g, fi), call(g, fs); item = [20, bi, k]
    elif m == "pop":
        ri, rs = call(g, lambda: en(d.pop(k))), call(g, lambda: s.pop(k)); item = [21, bi, k]
    elif m == "popdefault":
        ri, rs = call(g, lambda: en(d.pop(k, None))), call(g, lambda: s.pop(k, None))
        item = [21, bi, k] if k in keys else None
    elif m == "popitem":
        # dict.popitem is LIFO; the property fixes iteration by offset, so the reference is "some item, removed"
        ri = call(g, lambda: (lambda kv: (kv[0], en(kv[1])))(d.popitem()))
        if ri[0] == "ok":
            kk, ee = ri[1]
            if s.get(kk, _MISSING) != ee:
                return "n%d.symbolic_expressions.popitem()" % bi, "returned an item that was not stored"
            del s[kk]
            rs = ri
        else:
            rs = call(g, dict(s).popitem)
        item = [22, bi]
    elif m == "setdefault":
        ri, rs = call(g, lambda: en(d.setdefault(k, E(e)))), call(g, lambda: s.setdefault(k, e)); item = [23, bi, k, e]
    elif m == "update":
        ri, rs = call(g, lambda: d.update({a: E(b) for a, b in kvs.items()})), call(g, lambda: s.update(kvs))
        item = [24, bi, [[a, b] for a, b in kvs.items()]]
    elif m == "updatekw":
        pairs = list(kvs.items())
        ri, rs = call(g, lambda: d.update([(a, E(b)) for a, b in pairs])), call(g, lambda: s.update(pairs))
        item = [24, bi, [[a, b] for a, b in pairs]]
    elif m == "clear":
        ri, rs = call(g, d.clear), call(g, s.clear); item = [25, bi]
    elif m == "assign":
        r = rng.random()
        others = [b2 for b2 in h.by_kind["ByteInterval"] if b2 != bi and sh.dicts[b2]]
        if r < 0.2 and s:
            # the value is this very mapping (x.symbolic_expressions = x.symbolic_expressions): nothing changes
            ctx.count("dict.assign:own-live-mapping")
            kvs = dict(s)
            def fi(): w.obj[bi].symbolic_expressions = w.obj[bi].symbolic_expressions
        elif r < 0.4 and others:
            # another interval's live mapping: its content is copied, the other interval keeps it
            src = rng.choice(others)
            ctx.count("dict.assign:another-live-mapping")
            kvs = dict(sh.dicts[src])
            def fi(): w.obj[bi].symbolic_expressions = w.obj[src].symbolic_expressions
        else:
            def fi(): w.obj[bi].symbolic_expressions = {a: E(b) for a, b in kvs.items()}
        def fs():
            new = dict(kvs)
            s.clear(); s.update(new)
        ri, rs = call(g, fi), call(g, fs); item = [26, bi, [[a, b] for a, b in kvs.items()]]
    else:
        fns = {
            "get": (lambda: en(d.get(k)), lambda: s.get(k)), "getitem": (lambda: en(d[k]), lambda: s[k]),
            "contains": (lambda: k in d, lambda: k in s), "len": (lambda: len(d), lambda: len(s)),
            "keys": (lambda: list(d.keys()), lambda: sorted(s.keys())),
            "items": (lambda: [(a, en(b)) for a, b in d.items()], lambda: sorted(s.items())),
            "eq": (lambda: (d == {a: E(b) for a, b in s.items()}, d == {a: E(b) for a, b in sorted(s.items(), reverse=True)},
                            {a: E(b) for a, b in sorted(s.items(), reverse=True)} == d, d != {a: E(b) for a, b in sorted(s.items(), reverse=True)},
                            d == {a: E(b) for a, b in list(s.items())[:-1]} if s else False,
                            # values are compared by value: equal but distinct expression objects, and ones differing in one field
                            d == {a: clone(E(b)) for a, b in s.items()}, {a: clone(E(b)) for a, b in s.items()} == d,
                            all(hash(clone(E(b))) == hash(E(b)) for b in s.values()),
                            (d == {a: clone(E(b), doff=(1 if i == 0 else 0)) for i, (a, b) in enumerate(s.items())}) if s else False,
                            (d == {a: clone(E(b), attr=(i == 0)) for i, (a, b) in enumerate(s.items())}) if s else False),
                   lambda: (True, True, True, False, False, True, True, True, False, False)),
        }
        fi, fs = fns[m]
        ri, rs = call(g, fi), call(g, fs)
    desc = "n%d.symbolic_expressions %s k=%s e=%s kvs=%s" % (bi, m, k, e, kvs)
    if item is not None:
        h.items.append(item)
        h.replies.append([0] if ri[0] == "ok" else [-1, world.CODE_OF_ERR.get(ri[1], 999)])
    if ri != rs:
        return desc, "returns/raises %s, the built-in %s" % (ri, rs)
    return desc, None


def readonly_against_model(ctx, g, rng):
    """The read-only half of the sequence interface (index with optional bounds, count, in, [i], [a:b:c], reversed, len) of ir.modules on
    lists of 0..5 modules -- built by appends, inserts at the front and moves from another IR -- against the Coq model of the built-in
    list (Model/SeqOps.v, request 50: the functions the C16_modlist_index / _getitem / _getslice theorems speak about) AND against
    the built-in list itself.  Every bound in -7..7 and None."""
    from common import model_batch, model_result
    R = list(range(-7, 8))
    opt = lambda v: [] if v is None else [v]  # noqa: E731
    reqs, metas = [], []
    for n in range(0, 6):
        for variant in range(3):
            ir, other = g.IR(), g.IR()
            ms = [g.Module(name="m%d" % i) for i in range(n)]
            order = list(range(n))
            if variant == 1:
                rng.shuffle(order)
            for i in order:
                if variant == 2 and i % 2:
                    other.modules.append(ms[i])           # arrives by a move from another IR
                if variant == 2:
                    ir.modules.insert(0, ms[i])
                else:
                    ir.modules.append(ms[i])
            extra = g.Module(name="free")
            allm = ms + [extra]
            num = {id(x): k + 1 for k, x in enumerate(allm)}
            l = [num[id(x)] for x in ir.modules]
            want_l = [k + 1 for k in (order if variant != 2 else order[::-1])]
            if l != want_l:
                ctx.add("oracle", "not-like-builtin:build", "ir.modules built by %s holds %s, the built-in list %s" % (["append", "append (shuffled)", "insert(0, .) with moves"][variant], l, want_l), {})
                continue
            qs, impl = [], []

            def out(f, conv=lambda v: v):
                try:
                    return ("ok", conv(f()))
                except Exception as e:  # noqa: BLE001
                    return ("err", exc_name(g, e))
            for x in allm:
                xi = num[id(x)]
                for a in R + [None]:
                    for b in R + [None]:
                        if a is None and b is not None:
                            continue
                        args = [v for v in (a, b) if v is not None]
                        qs.append([0, xi, opt(a), opt(b)]); impl.append((out(lambda: ir.modules.index(x, *args)), out(lambda: l.index(xi, *args)), "index(m%d%s)" % (xi, "".join(", %d" % v for v in args))))
                qs.append([1, xi]); impl.append((out(lambda: ir.modules.count(x)), out(lambda: l.count(xi)), "count(m%d)" % xi))
                qs.append([2, xi]); impl.append((out(lambda: int(x in ir.modules)), out(lambda: int(xi in l)), "m%d in" % xi))
            for i in R:
                qs.append([3, i]); impl.append((out(lambda: num[id(ir.modules[i])]), out(lambda: l[i]), "[%d]" % i))
            for a in R + [None]:
                for b in R + [None]:
                    for c in (None, 1, 2, 3, -1, -2, -3, 7, -7, 0):
                        cc = 1 if c is None else c
                        qs.append([4, opt(a), opt(b), cc]); impl.append((out(lambda: [num[id(y)] for y in ir.modules[a:b:c]]), out(lambda: l[a:b:c]), "[%s:%s:%s]" % (a, b, c)))
            qs.append([5]); impl.append((out(lambda: [num[id(y)] for y in reversed(ir.modules)]), out(lambda: list(reversed(l))), "reversed"))
            qs.append([6]); impl.append((out(lambda: len(ir.modules)), out(lambda: len(l)), "len"))
            reqs.append([50, l, qs])
            metas.append((l, qs, impl))
    replies = model_batch(reqs)
    for (l, qs, impl), rep in zip(metas, replies):
        if not isinstance(rep, list) or len(rep) != len(qs):
            ctx.add("corr", "seq-readonly-differs", "the model did not answer the %d read-only queries on %s: %r" % (len(qs), l, rep if not isinstance(rep, list) else len(rep)), {"list": l, "stream": "C16 read-only sequence protocol"})
            continue
        ctx.case("readonly-seq:%s" % l, len(l) >= 2)
        bad_o = bad_m = 0
        for q, (ri, rb, desc), mr in zip(qs, impl, rep):
            ctx.count("readonly_seq_queries")
            m = model_result(mr)
            m = (m[0], m[1]) if m[0] == "ok" else m
            if ri != rb and bad_o < 3:
                bad_o += 1
                ctx.add("oracle", "not-like-builtin:" + desc.split("(")[0].split("[")[0], "ir.modules %s %s: returns/raises %s, the built-in list %s" % (l, desc, ri, rb), {"list": l, "call": desc, "impl": repr(ri), "builtin": repr(rb)})
            if m != ri and bad_m < 3:
                bad_m += 1
                ctx.add("corr", "seq-readonly-differs", "ir.modules %s %s: returns/raises %s, the Coq model of the built-in list %s" % (l, desc, ri, m),
                        {"list": l, "query": q, "impl": repr(ri), "model": repr(m), "stream": "C16 read-only sequence protocol"})


def set_algebra_against_model(ctx, g):
    """The non-mutating half of the set interface (& | - ^ and their reflected forms, <= >= < > == != isdisjoint) of the five owning
    collections: every member set of 0..4 nodes x every operand subset of a 6-node universe (members, nodes owned elsewhere, free
    nodes), against the Coq transcription of the collections.abc.Set mixins (Model/SetAlg.v, request 51: the functions
    C16_set_operators / C16_set_comparisons speak about) AND against built-in sets.  The operand is handed over as a set or frozenset."""
    import itertools
    from common import model_batch
    makers = [
        ("sections", lambda: g.Module(name="m"), lambda i: g.Section(name="s%d" % i)),
        ("symbols", lambda: g.Module(name="m"), lambda i: g.Symbol("y%d" % i)),
        ("proxies", lambda: g.Module(name="m"), lambda i: g.ProxyBlock()),
        ("byte_intervals", lambda: g.Section(name="s"), lambda i: g.ByteInterval(size=4)),
        ("blocks", lambda: g.ByteInterval(size=64), lambda i: (g.CodeBlock if i % 2 else g.DataBlock)(size=1, offset=i)),
    ]
    reqs, metas = [], []
    for fname, mk_owner, mk_child in makers:
        for nmem in range(0, 5):
            owner, elsewhere = mk_owner(), mk_owner()
            uni = [mk_child(i) for i in range(6)]
            num = {id(x): i + 1 for i, x in enumerate(uni)}
            coll = getattr(owner, fname)
            for x in uni[:nmem]:
                coll.add(x)
            getattr(elsewhere, fname).add(uni[4])          # universe: members 1..nmem, free nodes, node 5 owned elsewhere, node 6 free
            self_ids = [num[id(x)] for x in coll]
            if sorted(self_ids) != list(range(1, nmem + 1)):
                ctx.add("oracle", "not-like-builtin:add", "%s after %d adds holds %s" % (fname, nmem, sorted(self_ids)), {})
                continue
            s = set(self_ids)
            for r in range(0, 7):
                for comb in itertools.combinations(range(1, 7), r):
                    if r >= 4 and (sum(comb) + nmem) % 3:      # all subsets up to 3 elements, a third of the larger ones
                        continue
                    o_ids = list(comb)
                    other = (frozenset if (r + nmem) % 2 else set)(uni[i - 1] for i in o_ids)
                    on = set(o_ids)

                    def ids(f):
                        try:
                            v = f()
                            if isinstance(v, g.util.SetWrapper) or not isinstance(v, (set, frozenset)):
                                return ("ok", "a %s, not a plain set" % type(v).__name__)
                            return ("ok", sorted(num[id(x)] for x in v))
                        except Exception as e:  # noqa: BLE001
                            return ("err", exc_name(g, e))

                    def val(f):
                        try:
                            return ("ok", int(f()))
                        except Exception as e:  # noqa: BLE001
                            return ("err", exc_name(g, e))
                    impl = [ids(lambda: coll & other), ids(lambda: coll | other), ids(lambda: coll - other), ids(lambda: other - coll), ids(lambda: coll ^ other),
                            val(lambda: coll <= other), val(lambda: coll >= other), val(lambda: coll < other), val(lambda: coll > other),
                            val(lambda: coll == other), val(lambda: coll != other), val(lambda: coll.isdisjoint(other))]
                    refl = [ids(lambda: other & coll), ids(lambda: other | coll), None, None, ids(lambda: other ^ coll),
                            val(lambda: other >= coll), val(lambda: other <= coll), val(lambda: other > coll), val(lambda: other < coll),
                            val(lambda: other == coll), val(lambda: other != coll), None]
                    built = [("ok", sorted(s & on)), ("ok", sorted(s | on)), ("ok", sorted(s - on)), ("ok", sorted(on - s)), ("ok", sorted(s ^ on)),
                             ("ok", int(s <= on)), ("ok", int(s >= on)), ("ok", int(s < on)), ("ok", int(s > on)), ("ok", int(s == on)), ("ok", int(s != on)),
                             ("ok", int(s.isdisjoint(on)))]
                    reqs.append([51, self_ids, o_ids])
                    metas.append((fname, self_ids, o_ids, impl, refl, built))
    replies = model_batch(reqs)
    names = ["&", "|", "-", "reflected -", "^", "<=", ">=", "<", ">", "==", "!=", "isdisjoint"]
    bad = {}
    for (fname, self_ids, o_ids, impl, refl, built), rep in zip(metas, replies):
        ctx.count("set_algebra_cases")
        ctx.case("set-algebra:%s:%s:%s" % (fname, sorted(self_ids), o_ids), len(self_ids) >= 1 and len(o_ids) >= 1)
        if not isinstance(rep, list) or len(rep) != 12:
            ctx.add("corr", "set-algebra-differs", "the model did not answer for %s %s vs %s: %r" % (fname, self_ids, o_ids, rep), {"stream": "C16 non-mutating set interface"})
            continue
        model = [("ok", sorted(x)) if isinstance(x, list) else ("ok", x) for x in rep]
        for k in range(12):
            if isinstance(rep[k], list) and len(set(rep[k])) != len(rep[k]):
                ctx.add("corr", "set-algebra-differs", "the model's result of %s lists an element twice: %s" % (names[k], rep[k]), {"stream": "C16 non-mutating set interface"})
            for which, got in (("", impl[k]), ("reflected ", refl[k])):
                if got is None:
                    continue
                if got != built[k] and bad.get(("o", fname, k), 0) < 2:
                    bad[("o", fname, k)] = bad.get(("o", fname, k), 0) + 1
                    ctx.add("oracle", "not-like-builtin:" + names[k].split()[-1], "%s with members %s, %soperator %s, operand %s: gives %s, the built-in set %s"
                            % (fname, sorted(self_ids), which, names[k], o_ids, got, built[k]), {"collection": fname, "members": self_ids, "operand": o_ids, "op": names[k]})
                if got != model[k] and bad.get(("m", fname, k), 0) < 2:
                    bad[("m", fname, k)] = bad.get(("m", fname, k), 0) + 1
                    ctx.add("corr", "set-algebra-differs", "%s with members %s, %soperator %s, operand %s: gives %s, the Coq model of the Set mixins %s"
                            % (fname, sorted(self_ids), which, names[k], o_ids, got, model[k]),
                            {"collection": fname, "members": self_ids, "operand": o_ids, "op": names[k], "stream": "C16 non-mutating set interface"})


def iterators_follow_the_collection(ctx, g):
    """A live iterator and edits in between, against the built-in's: a list iterator follows the list (an element appended after the
    iterator was taken is still yielded, a removal makes it skip, never an exception), a set or dict iterator raises RuntimeError on
    the next step after the size changed.  ir.modules with 0..4 modules x k elements consumed before the edit x every kind of edit
    (append, insert at 0, remove the element just yielded / the next one, pop, clear, the module's own `ir = None`, reverse)."""
    def play(n, k, edit, impl):
        ir = g.IR()
        ms = [g.Module(name="m%d" % i, ir=ir) for i in range(n)]
        extra = g.Module(name="x")
        allm = ms + [extra]
        l = list(range(n))
        coll = ir.modules if impl else l
        conv = (lambda m: allm.index(m)) if impl else (lambda v: v)
        out = []
        try:
            it = iter(coll)
            for _ in range(k):
                out.append(conv(next(it)))
            cur = out[-1] if out else None
            if edit == "append":
                coll.append(extra if impl else n)
            elif edit == "insert0":
                coll.insert(0, extra if impl else n)
            elif edit == "remove-current" and cur is not None:
                coll.remove(allm[cur] if impl else cur)
            elif edit == "remove-last" and len(coll):
                coll.remove(coll[-1])
            elif edit == "pop" and len(coll):
                coll.pop()
            elif edit == "clear":
                coll.clear()
            elif edit == "detach-current" and cur is not None:
                if impl:
                    allm[cur].ir = None
                else:
                    l.remove(cur)
            elif edit == "reverse":
                coll.reverse()
            for v in it:
                out.append(conv(v))
            return ("ok", out)
        except StopIteration:
            return ("ok", out + ["stop"])
        except Exception as e:  # noqa: BLE001
            return ("err", exc_name(g, e), out)
    bad = 0
    for n in range(0, 5):
        for k in range(0, n + 1):
            for edit in ("append", "insert0", "remove-current", "remove-last", "pop", "clear", "detach-current", "reverse", "none"):
                ri, rb = play(n, k, edit, True), play(n, k, edit, False)
                ctx.count("live_iterator_cases")
                if ri != rb and bad < 4:
                    bad += 1
                    ctx.add("oracle", "not-like-builtin:iter", "iter(ir.modules) over %d modules, %d consumed, then %s, then the rest: %s; the built-in list: %s" % (n, k, edit, ri, rb),
                            {"n": n, "consumed": k, "edit": edit})
    # node sets and the expression mapping: the built-ins refuse to go on after the size changed
    for fname in ("sections", "symbols", "proxies"):
        mk = {"sections": lambda i: g.Section(name="s%d" % i), "symbols": lambda i: g.Symbol("y%d" % i), "proxies": lambda i: g.ProxyBlock()}[fname]
        for edit in ("add", "discard", "none"):
            m = g.Module(name="m")
            coll = getattr(m, fname)
            for i in range(3):
                coll.add(mk(i))
            it = iter(coll)
            first = next(it)
            if edit == "add":
                coll.add(mk(9))
            elif edit == "discard":
                coll.discard(first)
            try:
                rest = len(list(it))
                got = ("ok", rest)
            except Exception as e:  # noqa: BLE001
                got = ("err", exc_name(g, e))
            want = ("ok", 2) if edit == "none" else ("err", "RuntimeError")
            ctx.count("live_iterator_cases")
            if got != want:
                ctx.add("oracle", "not-like-builtin:iter", "an iterator over %s, one element consumed, then %s, then the rest: %s; the built-in set: %s" % (fname, edit, got, want), {"collection": fname, "edit": edit})
    ctx.case("live-iterators", True)


class Idx:
    """an index object in the sense of PEP 357: it has __index__ and nothing else (no arithmetic, no comparison)"""
    def __init__(self, v):
        self.v = v

    def __index__(self):
        return self.v

    def __repr__(self):
        return "Idx(%d)" % self.v


def assign_moved(l, key, value):
    """the shadow's item / slice assignment when the values may already be in the list or repeat: list's own placement (and its
    own errors), then every value just assigned is kept at the last position it was assigned to only -- 'a node inserted while
    owned elsewhere is moved rather than duplicated', here with 'elsewhere' being this very list"""
    import operator
    new = list(l)
    if isinstance(key, slice):
        vals = list(value)
        idxs = range(*key.indices(len(l)))
        new[key] = vals
        assigned = idxs if idxs.step != 1 else range(idxs.start, idxs.start + len(vals))
    else:
        new[key] = value
        assigned = [operator.index(key) % len(l)]
    last = {new[p]: p for p in assigned}
    l[:] = [x for p, x in enumerate(new) if last.get(x, p) == p]


def exhaustive_small_list(ctx, g):
    """Every index / bound / slice argument in -4..4 (and None) on a three-module list, each mutating call on a fresh IR: the index
    arithmetic of ir.modules against the built-in list, deterministically on every run.  After a mutating call the ownership of
    all modules is checked against the list."""
    R = range(-4, 5)

    def fresh():
        ir = g.IR()
        ms = [g.Module(name="m%d" % i, ir=ir) for i in range(3)]
        return ir, ms, g.Module(name="free"), list(range(3))

    def outcome(f):
        try:
            return ("ok", f())
        except Exception as e:  # noqa: BLE001
            return ("err", exc_name(g, e))

    def judge(desc, ri, rs, ir=None, ms=None, extra=None, l=None):
        ctx.count("exhaustive_list_calls")
        if ri != rs:
            ctx.add("oracle", "not-like-builtin:" + desc.split("(")[0].split("[")[0], "ir.modules (3 modules) %s: returns/raises %s, the built-in list %s" % (desc, ri, rs),
                    {"call": desc, "impl": repr(ri), "builtin": repr(rs)})
            return
        if ir is not None:
            allm = ms + [extra]
            got = [allm.index(x) for x in ir.modules]
            owned = [i for i, x in enumerate(allm) if x.ir is ir]
            if got != l or sorted(owned) != sorted(set(l)):
                ctx.add("oracle", "not-like-builtin:" + desc.split("(")[0].split("[")[0], "ir.modules (3 modules) %s: list is %s and modules %s name the IR; the built-in gives %s"
                        % (desc, got, owned, l), {"call": desc})
    ir, ms, extra, l = fresh()
    for xi, x in enumerate(ms + [extra]):
        for a in R:
            judge("index(m%d, %d)" % (xi, a), outcome(lambda: ir.modules.index(x, a)), outcome(lambda: (l + [])[0:0] or l.index(xi, a)))
            for b in R:
                judge("index(m%d, %d, %d)" % (xi, a, b), outcome(lambda: ir.modules.index(x, a, b)), outcome(lambda: l.index(xi, a, b)))
        judge("count(m%d)" % xi, outcome(lambda: ir.modules.count(x)), outcome(lambda: l.count(xi)))
        judge("m%d in" % xi, outcome(lambda: x in ir.modules), outcome(lambda: xi in l))
    allm = ms + [extra]
    for a in list(R) + [None]:
        judge("[%s]" % a, outcome(lambda: allm.index(ir.modules[a])) if a is not None else ("ok", None), outcome(lambda: l[a]) if a is not None else ("ok", None))
        for b in list(R) + [None]:
            for st in (None, 1, 2, -1, -2, 3):
                judge("[%s:%s:%s]" % (a, b, st), outcome(lambda: [allm.index(y) for y in ir.modules[a:b:st]]), outcome(lambda: l[a:b:st]))
    # (beyond the machine word, and not integers at all: the built-in refuses -- OverflowError / IndexError / TypeError -- and
    # is left untouched; so must the module list AND the modules' ownership be)
    for i in list(R) + [1 << 63, (1 << 64) - 1, -(1 << 63) - 1, None, 1.5, "0", True]:
        for name in ("insert", "pop", "del", "setitem"):
            ir, ms, extra, l = fresh()
            allm = ms + [extra]
            if name == "insert":
                ri, rs = outcome(lambda: ir.modules.insert(i, extra)), outcome(lambda: l.insert(i, 3))
            elif name == "pop":
                ri, rs = outcome(lambda: allm.index(ir.modules.pop(i))), outcome(lambda: l.pop(i))
            elif name == "del":
                ri, rs = outcome(lambda: ir.modules.__delitem__(i)), outcome(lambda: l.__delitem__(i))
            else:
                ri, rs = outcome(lambda: ir.modules.__setitem__(i, extra)), outcome(lambda: l.__setitem__(i, 3))
            judge("%s(%r)" % (name, i), ri, rs, ir, ms, extra, l)
        if not isinstance(i, int) or isinstance(i, bool) or abs(i) > 8:
            continue
        for j in list(R) + [None]:
            for name in ("delslice", "setslice"):
                ir, ms, extra, l = fresh()
                sl = slice(i, j)
                if name == "delslice":
                    ri, rs = outcome(lambda: ir.modules.__delitem__(sl)), outcome(lambda: l.__delitem__(sl))
                else:
                    ri, rs = outcome(lambda: ir.modules.__setitem__(sl, [extra])), outcome(lambda: l.__setitem__(sl, [3]))
                judge("%s[%s:%s]" % (name, i, j), ri, rs, ir, ms, extra, l)
    # index OBJECTS (anything with __index__ is an index for the built-in): every place that takes an index or a slice part
    for v in (0, 1, -1, 2, 3, -4, 1 << 63):
        for name in ("insert", "pop", "del", "setitem", "getitem", "index-start", "index-stop", "getslice", "setslice-step1", "delslice"):
            ir, ms, extra, l = fresh()
            allm = ms + [extra]
            i = Idx(v)
            if name == "insert":
                ri, rs = outcome(lambda: ir.modules.insert(i, extra)), outcome(lambda: l.insert(i, 3))
            elif name == "pop":
                ri, rs = outcome(lambda: allm.index(ir.modules.pop(i))), outcome(lambda: l.pop(i))
            elif name == "del":
                ri, rs = outcome(lambda: ir.modules.__delitem__(i)), outcome(lambda: l.__delitem__(i))
            elif name == "setitem":
                ri, rs = outcome(lambda: ir.modules.__setitem__(i, extra)), outcome(lambda: l.__setitem__(i, 3))
            elif name == "getitem":
                ri, rs = outcome(lambda: allm.index(ir.modules[i])), outcome(lambda: l[i])
            elif name == "index-start":
                ri, rs = outcome(lambda: ir.modules.index(ms[1], i)), outcome(lambda: l.index(1, i))
            elif name == "index-stop":
                ri, rs = outcome(lambda: ir.modules.index(ms[1], 0, i)), outcome(lambda: l.index(1, 0, i))
            elif name == "getslice":
                ri, rs = outcome(lambda: [allm.index(y) for y in ir.modules[i:Idx(3):Idx(1)]]), outcome(lambda: l[i:Idx(3):Idx(1)])
            elif name == "setslice-step1":
                # (a step that CONVERTS to 1 makes an ordinary, resizing slice)
                ri, rs = outcome(lambda: ir.modules.__setitem__(slice(i, Idx(2), Idx(1)), [extra])), outcome(lambda: l.__setitem__(slice(i, Idx(2), Idx(1)), [3]))
            else:
                ri, rs = outcome(lambda: ir.modules.__delitem__(slice(i, Idx(2)))), outcome(lambda: l.__delitem__(slice(i, Idx(2))))
            judge("%s(%r)" % (name, i), ri, rs, ir, ms, extra, l)
    # values the list already holds, and values named more than once: moved, not duplicated -- kept at the last position assigned
    for k in range(3):
        for i in R:
            ir, ms, extra, l = fresh()
            ri, rs = outcome(lambda: ir.modules.__setitem__(i, ms[k])), outcome(lambda: assign_moved(l, i, k))
            judge("[%d] = m%d (a member)" % (i, k), ri, rs, ir, ms, extra, l)
    # insert(i, m) is `s[i:i] = [m]` (the sequence interface's own definition): a member is moved to where the built-in puts it
    for k in range(3):
        for i in list(R) + [5, -5]:
            ir, ms, extra, l = fresh()
            ri, rs = outcome(lambda: ir.modules.insert(i, ms[k])), outcome(lambda: assign_moved(l, slice(i, i), [k]))
            judge("insert(%d, m%d) (a member)" % (i, k), ri, rs, ir, ms, extra, l)
            ir, ms, extra, l = fresh()
            ri, rs = outcome(lambda: ir.modules.append(ms[k])), outcome(lambda: assign_moved(l, slice(3, 3), [k]))
            judge("append(m%d) (a member)" % k, ri, rs, ir, ms, extra, l)
    RHS = [[0], [2], [0, 3], [3, 3], [1, 3, 1], [2, 1, 0], [0, 0, 0], [3, 0, 3, 0]]
    for i in list(R) + [None]:
        for j in list(R) + [None]:
            for rhs in RHS:
                ir, ms, extra, l = fresh()
                allm = ms + [extra]
                ri, rs = outcome(lambda: ir.modules.__setitem__(slice(i, j), [allm[x] for x in rhs])), outcome(lambda: assign_moved(l, slice(i, j), rhs))
                judge("[%s:%s] = %s (members / repeated values)" % (i, j, rhs), ri, rs, ir, ms, extra, l)
    for sl in (slice(None, None, 2), slice(None, None, -1), slice(2, None, -2), slice(0, 3, 2), slice(1, None, 3)):
        for rhs in ([2, 0], [0, 0], [3, 3], [1, 2, 0], [2, 1, 0], [3, 0, 3], [1], [0], [3]):
            ir, ms, extra, l = fresh()
            allm = ms + [extra]
            ri, rs = outcome(lambda: ir.modules.__setitem__(sl, [allm[x] for x in rhs])), outcome(lambda: assign_moved(l, sl, rhs))
            judge("[%s:%s:%s] = %s (members / repeated values)" % (sl.start, sl.stop, sl.step, rhs), ri, rs, ir, ms, extra, l)
    # a right-hand side that is no iterable at all: the built-in raises TypeError and changes nothing
    for rhs_name in ("a module", "None", "5"):
        for sl in (slice(0, 1), slice(None, None), slice(0, 3, 2)):
            ir, ms, extra, l = fresh()
            rhs_i, rhs_b = {"a module": (extra, 3), "None": (None, None), "5": (5, 5)}[rhs_name]
            ri, rs = outcome(lambda: ir.modules.__setitem__(sl, rhs_i)), outcome(lambda: l.__setitem__(sl, rhs_b))
            judge("setslice[%s] = %s" % (sl, rhs_name), ri, rs, ir, ms, extra, l)
    for name in ("pop()", "clear()", "reverse()", "extend([free])", "+= [free]", "remove(m1)", "append(free)"):
        ir, ms, extra, l = fresh()
        f = {"pop()": (lambda: (ms + [extra]).index(ir.modules.pop()), lambda: l.pop()), "clear()": (lambda: ir.modules.clear(), lambda: l.clear()),
             "reverse()": (lambda: ir.modules.reverse(), lambda: l.reverse()), "extend([free])": (lambda: ir.modules.extend([extra]), lambda: l.extend([3])),
             "+= [free]": (lambda: ir.modules.__iadd__([extra]) and None, lambda: l.__iadd__([3]) and None),
             "remove(m1)": (lambda: ir.modules.remove(ms[1]), lambda: l.remove(1)), "append(free)": (lambda: ir.modules.append(extra), lambda: l.append(3))}[name]
        judge(name, outcome(f[0]), outcome(f[1]), ir, ms, extra, l)
    ctx.case("exhaustive-small-list", True)


def exhaustive_small_sets(ctx, g):
    """Every method and operator of the five owning node sets on a fixed small structure, with every argument shape (member,
    free node, node owned by a sibling, several, repeated, none, the receiver itself) -- each mutating call on a fresh structure,
    against the built-in set, deterministically on every run; ownership checked after every mutating call."""
    def fresh(which):
        ir = g.IR()
        m, m2 = g.Module(name="m", ir=ir), g.Module(name="m2", ir=ir)
        s, s2 = g.Section(name="s", module=m), g.Section(name="s2", module=m2)
        bi, bi2 = g.ByteInterval(size=16, section=s), g.ByteInterval(size=16, section=s2)
        mk = {"sections": lambda o: g.Section(name="x", module=o), "symbols": lambda o: g.Symbol("y", module=o), "proxies": lambda o: g.ProxyBlock(module=o),
              "byte_intervals": lambda o: g.ByteInterval(size=4, section=o), "blocks": lambda o: g.CodeBlock(size=1, byte_interval=o)}[which]
        owner, sib = {"sections": (m, m2), "symbols": (m, m2), "proxies": (m, m2), "byte_intervals": (s, s2), "blocks": (bi, bi2)}[which]
        if which == "sections":
            mem = [s, mk(owner)]
            other = s2
        elif which == "byte_intervals":
            mem = [bi, mk(owner)]
            other = bi2
        else:
            mem = [mk(owner), mk(owner)]
            other = mk(sib)
        free = mk(None)
        coll = getattr(owner, which)
        return coll, owner, getattr(sib, which), sib, {"a": mem[0], "b": mem[1], "o": other, "f": free}
    PARENT = {"sections": "module", "symbols": "module", "proxies": "module", "byte_intervals": "section", "blocks": "byte_interval"}
    ARGS = [[], ["a"], ["f"], ["o"], ["a", "f"], ["f", "f"], ["a", "b"], ["o", "f", "a"]]

    def outcome(f):
        try:
            return ("ok", f())
        except Exception as e:  # noqa: BLE001
            return ("err", exc_name(g, e))
    for which in ("sections", "symbols", "proxies", "byte_intervals", "blocks"):
        calls = []
        for x in ("a", "f", "o"):
            calls += [("add", x), ("discard", x), ("remove", x)]
        calls += [("pop", None), ("clear", None)]
        for arg in ARGS + ["SELF"]:
            calls += [(op, arg) for op in ("update", "ior", "iand", "isub", "ixor", "or", "and", "sub", "xor", "ror", "rsub", "le", "lt", "eq", "ge", "isdisjoint")]
        for op, arg in calls:
            coll, owner, sibcoll, sib, N = fresh(which)
            lab = {id(v): k for k, v in N.items()}
            sh = {"a", "b"}
            self_alias = arg == "SELF"
            objs = coll if self_alias else ([N[x] for x in arg] if isinstance(arg, list) else (N[arg] if arg else None))
            labs = set(sh) if self_alias else (set(arg) if isinstance(arg, list) else arg)

            def names(r):
                return sorted(lab.get(id(x), "?") for x in r)
            fi = {
                "add": lambda: coll.add(objs), "discard": lambda: coll.discard(objs), "remove": lambda: coll.remove(objs),
                "pop": lambda: lab[id(coll.pop())] in ("a", "b") or "bad", "clear": lambda: coll.clear(),
                "update": lambda: coll.update(objs), "ior": lambda: coll.__ior__(objs) is coll or "not self", "iand": lambda: coll.__iand__(objs) is coll or "not self",
                "isub": lambda: coll.__isub__(objs) is coll or "not self", "ixor": lambda: coll.__ixor__(objs) is coll or "not self",
                "or": lambda: names(coll | set(objs)), "and": lambda: names(coll & set(objs)), "sub": lambda: names(coll - set(objs)), "xor": lambda: names(coll ^ set(objs)),
                "ror": lambda: names(set(objs) | coll), "rsub": lambda: names(set(objs) - coll),
                "le": lambda: coll <= set(objs), "lt": lambda: coll < set(objs), "eq": lambda: coll == set(objs), "ge": lambda: coll >= set(objs),
                "isdisjoint": lambda: coll.isdisjoint(objs),
            }[op]
            fs = {
                "add": lambda: sh.add(labs), "discard": lambda: sh.discard(labs), "remove": lambda: sh.remove(labs),
                "pop": lambda: (sh.pop() in ("a", "b")) or "bad", "clear": lambda: sh.clear(),
                "update": lambda: sh.update(labs), "ior": lambda: sh.__ior__(set(labs)) is sh or "not self", "iand": lambda: sh.__iand__(set(labs)) is sh or "not self",
                "isub": lambda: sh.__isub__(set(labs)) is sh or "not self", "ixor": lambda: sh.__ixor__(set(labs)) is sh or "not self",
                "or": lambda: sorted(sh | set(labs)), "and": lambda: sorted(sh & set(labs)), "sub": lambda: sorted(sh - set(labs)), "xor": lambda: sorted(sh ^ set(labs)),
                "ror": lambda: sorted(set(labs) | sh), "rsub": lambda: sorted(set(labs) - sh),
                "le": lambda: sh <= set(labs), "lt": lambda: sh < set(labs), "eq": lambda: sh == set(labs), "ge": lambda: sh >= set(labs),
                "isdisjoint": lambda: sh.isdisjoint(labs),
            }[op]
            if op == "pop":
                ri = outcome(fi)
                if ri == ("ok", True):
                    sh.clear()
                    sh.update(names(coll))      # whichever member was taken
                rs = ("ok", True)
            else:
                ri, rs = outcome(fi), outcome(fs)
            ctx.count("exhaustive_set_calls")
            desc = "%s.%s(%s)" % (which, op, "itself" if self_alias else arg)
            if ri != rs:
                ctx.add("oracle", "not-like-builtin:" + op, "%s on members {a, b} (f free, o owned by a sibling): returns/raises %s, the built-in set %s" % (desc, ri, rs),
                        {"call": desc, "impl": repr(ri), "builtin": repr(rs)})
                continue
            got = set(names(coll))
            pa = PARENT[which]
            owners = {k: getattr(v, pa) for k, v in N.items()}
            want_owner = {k: (owner if k in sh else (sib if k == "o" else None)) for k in N}
            if got != sh or any(owners[k] is not want_owner[k] for k in N) or (("o" in sh) == (N["o"] in sibcoll)):
                ctx.add("oracle", "not-like-builtin:" + op, "%s: members are %s and parents %s; the built-in set gives %s (a node added while owned elsewhere moves)"
                        % (desc, sorted(got), {k: (None if v is None else ("owner" if v is owner else "sibling")) for k, v in owners.items()}, sorted(sh)), {"call": desc})
    ctx.case("exhaustive-small-sets", True)


def empty_and_default_operands(ctx, g):
    """EMPTINESS: the non-mutating operators with an EMPTY owning set on the left (a fresh owner, and one emptied by clear / pop / discard
    of its last member) or on the right, against operands of every form -- a plain set, a frozenset, another owner's live collection,
    an empty set.  The result is a NEW plain set with the built-in's contents: never the operand itself (editing the result edits
    nothing else), never an owning collection, and nobody's ownership changes."""
    def owners():
        m1, m2 = g.Module(name="m1"), g.Module(name="m2")
        sec1, sec2 = g.Section(name="s1", module=m1), g.Section(name="s2", module=m2)
        bi1, bi2 = g.ByteInterval(size=8, section=sec1), g.ByteInterval(size=8, section=sec2)
        return [("Module.sections", lambda: g.Module(name="e"), "sections", lambda: g.Section(name="x"), m2.sections, [sec2]),
                ("Module.symbols", lambda: g.Module(name="e"), "symbols", lambda: g.Symbol("x"), None, []),
                ("Module.proxies", lambda: g.Module(name="e"), "proxies", lambda: g.ProxyBlock(), None, []),
                ("Section.byte_intervals", lambda: g.Section(name="e"), "byte_intervals", lambda: g.ByteInterval(size=4), sec2.byte_intervals, [bi2]),
                ("ByteInterval.blocks", lambda: g.ByteInterval(size=8), "blocks", lambda: g.CodeBlock(size=1, offset=0), None, [])]
    import operator as op
    OPS = [("|", op.or_), ("&", op.and_), ("-", op.sub), ("^", op.xor)]
    for cname, mk_owner, attr, mk_elem, live, live_members in owners():
        for emptied_by in ("fresh", "clear", "pop", "discard"):
            owner = mk_owner()
            coll = getattr(owner, attr)
            if emptied_by != "fresh":
                e0 = mk_elem()
                coll.add(e0)
                {"clear": coll.clear, "pop": coll.pop, "discard": lambda: coll.discard(e0)}[emptied_by]()
            free = [mk_elem(), mk_elem()]
            if live is None:
                other_owner = mk_owner()
                lm = [mk_elem()]
                getattr(other_owner, attr).update(lm)
                lv = getattr(other_owner, attr)
            else:
                lv, lm = live, live_members
            operands = [("a plain set", set(free), free), ("a frozenset", frozenset(free), free), ("an empty set", set(), []),
                        ("another owner's live collection", lv, list(lm))]
            for oname, operand, members in operands:
                for sym, f in OPS:
                    for side in ("left", "right"):
                        ctx.count("empty_operand_cases")
                        desc = ("%s emptied by %s: %s" % (cname, emptied_by, ("coll %s %s" % (sym, oname)) if side == "left" else ("%s %s coll" % (oname, sym))))
                        before = list(members)
                        try:
                            r = f(coll, operand) if side == "left" else f(operand, coll)
                        except Exception as e:  # noqa: BLE001
                            ctx.add("oracle", "not-like-builtin:empty-operand", "%s raised %s" % (desc, exc_name(g, e)), {"case": desc})
                            continue
                        want = f(set(), set(map(id, members))) if side == "left" else f(set(map(id, members)), set())
                        bad = None
                        if r is operand or r is coll:
                            bad = "the result IS %s (editing it edits that)" % ("the operand" if r is operand else "the collection")
                        elif isinstance(r, g.util.SetWrapper) or not isinstance(r, (set, frozenset)):
                            bad = "the result is a %s, not a plain set" % type(r).__name__
                        elif set(map(id, r)) != want:
                            bad = "the result has %d elements, the built-in's %d" % (len(r), len(want))
                        elif side == "left" and type(r) is not set:
                            bad = "the result is a %s; with the collection on the left it is a plain set" % type(r).__name__
                        if bad is None and isinstance(r, set):
                            r.clear()              # the caller does what it likes with a value it was given
                            if set(map(id, operand)) != set(map(id, before)) or len(coll) != 0:
                                bad = "emptying the result changed the operand (%d members, were %d)" % (len(operand), len(before))
                            elif oname.startswith("another") and any(getattr(x, world.PARENT_ATTR[type(x).__name__ if type(x).__name__ in world.PARENT_ATTR else "CodeBlock"]) is None for x in before):
                                bad = "emptying the result detached the members of the other owner"
                        ctx.case("empty-operand:" + desc, True)
                        if bad:
                            ctx.add("oracle", "not-like-builtin:empty-operand", "%s: %s" % (desc, bad), {"case": desc})
                            break


def whole_collection_arguments(ctx, g):
    """'Move everything from there to here': a bulk operation is handed ANOTHER owner's live collection (or the receiver's own) as
    its argument.  What the built-in does with a snapshot of the argument is what must happen: every element arrives (in order, for
    the list), the other collection is left empty, nobody is lost or listed twice (the defect repaired by fix 2ca8079)."""
    def modules_case(name, f):
        ir1, ir2 = g.IR(), g.IR()
        a = [g.Module(name="a%d" % i, ir=ir1) for i in range(4)]
        b = [g.Module(name="b%d" % i, ir=ir2) for i in range(2)]
        try:
            want1, want2 = f(ir1, ir2, a, b)
        except Exception as e:  # noqa: BLE001
            ctx.add("oracle", "not-like-builtin:whole-collection", "ir.modules %s raised %s" % (name, exc_name(g, e)), {"call": name})
            return
        got1, got2 = [m.name for m in ir1.modules], [m.name for m in ir2.modules]
        owners_ok = all(m.ir is ir1 for m in ir1.modules) and all(m.ir is ir2 for m in ir2.modules)
        ctx.count("whole_collection_arguments")
        ctx.case("whole-collection:modules:" + name, True)
        if got1 != want1 or got2 != want2 or not owners_ok:
            ctx.add("oracle", "not-like-builtin:whole-collection", "ir.modules %s: the lists are %s and %s, a snapshot of the argument gives %s and %s%s"
                    % (name, got1, got2, want1, want2, "" if owners_ok else "; a listed module names another IR"), {"call": name})
    A, B = ["a0", "a1", "a2", "a3"], ["b0", "b1"]
    modules_case("ir2.modules.extend(ir1.modules)", lambda i1, i2, a, b: (i2.modules.extend(i1.modules), ([], B + A))[1])
    modules_case("ir2.modules += ir1.modules", lambda i1, i2, a, b: (i2.modules.__iadd__(i1.modules), ([], B + A))[1])
    modules_case("ir2.modules[1:1] = ir1.modules", lambda i1, i2, a, b: (i2.modules.__setitem__(slice(1, 1), i1.modules), ([], ["b0"] + A + ["b1"]))[1])
    modules_case("ir2.modules[:] = ir1.modules", lambda i1, i2, a, b: (i2.modules.__setitem__(slice(None), i1.modules), ([], A))[1])
    modules_case("ir1.modules.extend(ir1.modules)", lambda i1, i2, a, b: (i1.modules.extend(i1.modules), (A, B))[1])
    modules_case("ir1.modules[:] = reversed(ir1.modules)", lambda i1, i2, a, b: (i1.modules.__setitem__(slice(None), reversed(i1.modules)), (A[::-1], B))[1])
    modules_case("IR(modules=ir1.modules)", lambda i1, i2, a, b: (g.IR(modules=i1.modules), ([], B))[1])

    def sets_case(name, f):
        ir = g.IR()
        m1, m2 = g.Module(name="m1", ir=ir), g.Module(name="m2", ir=ir)
        s1 = [g.Section(name="s%d" % i, module=m1) for i in range(5)]
        s2 = [g.Section(name="t%d" % i, module=m2) for i in range(2)]
        y1 = [g.Symbol("y%d" % i, module=m1) for i in range(5)]
        try:
            want1, want2 = f(m1, m2)
        except Exception as e:  # noqa: BLE001
            ctx.add("oracle", "not-like-builtin:whole-collection", "%s raised %s" % (name, exc_name(g, e)), {"call": name})
            return
        got1 = sorted(x.name for x in list(m1.sections) + list(m1.symbols))
        got2 = sorted(x.name for x in list(m2.sections) + list(m2.symbols))
        owners_ok = all(x.module is m1 for x in list(m1.sections) + list(m1.symbols)) and all(x.module is m2 for x in list(m2.sections) + list(m2.symbols))
        ctx.count("whole_collection_arguments")
        ctx.case("whole-collection:sets:" + name, True)
        if got1 != sorted(want1) or got2 != sorted(want2) or not owners_ok:
            ctx.add("oracle", "not-like-builtin:whole-collection", "%s: the owners hold %s and %s, a snapshot of the argument gives %s and %s%s"
                    % (name, got1, got2, sorted(want1), sorted(want2), "" if owners_ok else "; a member names another owner"), {"call": name})
    S, T, Y = ["s%d" % i for i in range(5)], ["t0", "t1"], ["y%d" % i for i in range(5)]
    sets_case("m2.sections.update(m1.sections)", lambda m1, m2: (m2.sections.update(m1.sections), (Y, T + S))[1])
    sets_case("m2.sections |= m1.sections", lambda m1, m2: (m2.sections.__ior__(m1.sections), (Y, T + S))[1])
    sets_case("m2.sections ^= m1.sections", lambda m1, m2: (m2.sections.__ixor__(m1.sections), (Y, T + S))[1])
    sets_case("m2.sections.update(m1.sections, m1.sections)", lambda m1, m2: (m2.sections.update(m1.sections, m1.sections), (Y, T + S))[1])
    sets_case("m2.symbols.update(m1.symbols)", lambda m1, m2: (m2.symbols.update(m1.symbols), (S, T + Y))[1])
    sets_case("m1.sections |= m1.sections", lambda m1, m2: (m1.sections.__ior__(m1.sections), (S + Y, T))[1])
    sets_case("m1.sections -= m1.sections", lambda m1, m2: (m1.sections.__isub__(m1.sections), (Y, T))[1])
    sets_case("Module(sections=m1.sections)", lambda m1, m2: (g.Module(name="n", sections=m1.sections), (Y, T))[1])


def d4_stream(ctx, g):
    """the recorded defect: assigning into ir.modules an element that is elsewhere in the same list, and reverse()"""
    for shape in ("setitem-same-list", "setslice-same-list", "setslice-repeated-value"):
        ir = g.IR()
        ms = [g.Module(name=str(i), ir=ir) for i in range(3)]
        if shape == "setitem-same-list":
            r = call(g, lambda: ir.modules.__setitem__(2, ms[0]))
        elif shape == "setslice-same-list":
            r = call(g, lambda: ir.modules.__setitem__(slice(2, 3), [ms[0]]))
        else:
            ms.append(g.Module(name="n"))
            r = call(g, lambda: ir.modules.__setitem__(slice(0, 1), [ms[3], ms[3]]))
        lst = list(ir.modules)
        consistent = all(m.ir is ir for m in lst) and len(set(map(id, lst))) == len(lst) \
            and all((m in lst) == (m.ir is ir) for m in ms) and all((ir.get_by_uuid(m.uuid) is m) == (m in lst) for m in ms)
        ctx.case("d4:" + shape, True)
        if not consistent:
            ctx.add("oracle", "listwrapper-" + shape,
                    "ir.modules %s with 3 modules: %s; list is %s, .ir set for %s" %
                    ({"setitem-same-list": "[2] = modules[0]", "setslice-same-list": "[2:3] = [modules[0]]", "setslice-repeated-value": "[0:1] = [n, n]"}[shape], r, [ms.index(m) for m in lst], [m.ir is ir for m in ms]),
                    {"shape": shape, "result": repr(r)})


def run(ctx):
    g = gtirb_from_repo.load()
    import lookups as _lk
    _lk.failed_bulk_scenario(ctx, g, ctx.rng, 40 if ctx.quick else 800, 'not-like-builtin:failed-bulk')
    _lk.failed_bulk_blocks(ctx, g, ctx.rng, 40 if ctx.quick else 800, 'not-like-builtin:failed-bulk-blocks')
    rng = ctx.rng
    nh, ln = (50, 60) if ctx.quick else (1000, 120)
    hists = []
    for _ in range(nh):
        h = worldgen.Hist(g, rng, {})
        h.setup_pool()
        h.build_some_structure(rng.choice([0.4, 0.8]))
        sh = Shadows(h)
        sh.sync_from_impl()
        for _ in range(ln):
            r = rng.random()
            if rng.random() < 0.02:
                h.emit([49, rng.choice([0, 0, 2, 4, 5])])          # the history continues on a copy of the whole world
                ctx.count("world_continued_on_a_copy")
            res = step_set(ctx, g, h, sh, rng) if r < 0.45 else step_list(ctx, g, h, sh, rng) if r < 0.75 else step_dict(ctx, g, h, sh, rng)
            if res is None:
                continue
            desc, problem = res
            if desc == "RESYNC":
                break
            ctx.count("calls")
            if problem is None:
                problem = check_contents(ctx, h, sh, desc, len(h.items))
            if problem:
                head = desc.split("(")[0]
                op = head.split(" ")[1] if " " in head else head.split(".")[-1]
                ctx.add("oracle", "not-like-builtin:" + op, "%s: %s" % (desc, problem), {"call": desc, "problem": problem, "items": h.items})
                break
        h.observe_forest()
        hists.append(h)
        ctx.case(repr(h.items), True)
    d4_stream(ctx, g)
    whole_collection_arguments(ctx, g)
    empty_and_default_operands(ctx, g)
    # members replaced by their equal-UUID twins of another load through the list interface (item / slice assignment, append,
    # remove): contents, UUID tables and the exceptions of later calls against Model/TwinCache.v
    import twinleg
    for _ in range(25 if ctx.quick else 500):
        twinleg.modules_scenario(ctx, g, ctx.rng, 20 if ctx.quick else 40, "not-like-builtin:twin-replacement")
    exhaustive_small_list(ctx, g)
    readonly_against_model(ctx, g, ctx.rng)
    set_algebra_against_model(ctx, g)
    iterators_follow_the_collection(ctx, g)
    exhaustive_small_sets(ctx, g)
    worldgen.compare(ctx, hists, "wrappers", "C16 collection correspondence")
    ctx.cov["histories"] = nh
    ctx.cov["traces_validated_against_impl"] = nh
    ctx.cov["rule"] = ("histories of %d calls drawn from MutableSet / MutableSequence / MutableMapping (all methods incl. mixins, operators with plain "
                       "sets on either side, slices, out-of-range indices, missing elements) in lock-step with built-in shadows" % ln)
    ctx.sample({"history_tail": hists[0].items[-5:]})


def replay(ctx, path):
    import replaylib
    return replaylib.replay_file(path)
