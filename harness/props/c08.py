"""C08 -- AuxData bytes follow the shared wire format of the other GTIRB APIs.
Direct oracle: an independent encoder written from AuxData.md (auxval.oracle_encode) must produce the very
bytes the implementation produces, and its bytes must decode (by the implementation) to the same value.
Correspondence: bytes of the extracted Coq format model; non-canonical but legal encodings produced by the
model (set element / mapping key listed twice, bool byte other than 0/1) must decode as the model says.
Thorough tier adds the repository's Java codec (harness/java) as a second implementation."""
import json

import auxval
import gtirb_from_repo
from auxval import OracleError, canon, oracle_encode, to_sx, type_str
from codec_cases import expected_after_roundtrip, features, gen_cases, impl_decode, impl_encode
from common import exc_name, model_batch, model_result, zs

LEVEL = "proof"
TRUSTED = (
    "the Coq format model (Model/Codec.v, spec_table) was written from AuxData.md / AuxData.hpp and stands in for the "
    "C++ and Lisp implementations, which cannot be built here",
    "harness/auxval.py oracle_encode is a second independent statement of the format",
)


def instance_isolation(ctx, g):
    """`codecs` is a per-instance table ("Codecs can be added or overridden using this dictionary"): customising a private
    Serialization() must not change the bytes AuxData.serializer -- or any other instance -- writes for the built-in type names."""
    import io
    S = g.serialization.Serialization

    def enc(ser, v, tn):
        buf = io.BytesIO()
        try:
            ser.encode(buf, v, tn)
            return ("ok", buf.getvalue().hex())
        except Exception as e:  # noqa: BLE001
            return ("err", exc_name(g, e))
    probes = [(1 << 40, "Addr"), ([1, 2], "sequence<Addr>"), ("é", "string"), ({"k": 1 << 33}, "mapping<string,uint64_t>"), (7, "zz_private")]
    before = [enc(g.AuxData.serializer, v, tn) for v, tn in probes]
    mine = S()
    saved = dict(mine.codecs)
    try:
        mine.codecs["Addr"] = mine.codecs["uint8_t"]
        mine.codecs["uint64_t"] = mine.codecs["uint16_t"]
        mine.codecs["zz_private"] = mine.codecs["uint8_t"]
        after = [enc(g.AuxData.serializer, v, tn) for v, tn in probes]
        fresh = [enc(S(), v, tn) for v, tn in probes]
        ctx.case("instance-isolation", True)
        ctx.count("instance_isolation_probes", len(probes))
        for (v, tn), b, a, f in zip(probes, before, after, fresh):
            if a != b or f != b:
                ctx.add("oracle", "codec-table-shared", "after a PRIVATE Serialization() instance was customised, type %s is written as %s by AuxData.serializer and %s by a "
                        "fresh instance (before: %s)" % (tn, a, f, b), {"type_name": tn, "before": b, "after": a, "fresh": f})
    finally:
        # undo, in case the table IS shared, so that nothing leaks into other streams
        mine.codecs.clear()
        mine.codecs.update(saved)


def decoded_values_are_fresh(ctx, g, cases):
    """Decoding the same bytes twice gives two INDEPENDENT values: every mutable container inside the first result is edited (an
    element appended / added / stored), the second result -- and a third decode afterwards -- still is the value the bytes encode.
    Empty containers included: an empty list handed out twice must be two lists."""
    import codec_cases as _cc

    def grow(v, depth=0):
        n = 0
        if isinstance(v, list):
            for x in list(v):
                n += grow(x, depth + 1)
            v.append(v[0] if v else 7)
            n += 1
        elif isinstance(v, set):
            for x in list(v):
                n += grow(x, depth + 1)
            v.add(("zz-sentinel", depth))
            n += 1
        elif isinstance(v, dict):
            for x in list(v.values()):
                n += grow(x, depth + 1)
            v[("zz-sentinel", depth)] = 7
            n += 1
        elif isinstance(v, tuple):
            for x in v:
                n += grow(x, depth + 1)
        elif isinstance(v, g.serialization.Variant):
            n += grow(v.val, depth + 1)
        return n
    fixed = [(("sequence", [("uint8_t", [])]), []), (("sequence", [("sequence", [("string", [])])]), [[], []]),
             (("mapping", [("string", []), ("sequence", [("UUID", [])])]), {"a": [], "b": []}), (("set", [("uint8_t", [])]), set()),
             (("mapping", [("uint8_t", []), ("set", [("string", [])])]), {1: set(), 2: set()}), (("tuple", [("sequence", [("uint8_t", [])]), ("sequence", [("uint8_t", [])])]), ([], []))]
    env = cases[0][2]
    todo = [(t, v, env) for t, v in fixed] + [c for c in cases if c[0][1]][:: max(1, len(cases) // 200)]
    for t, v, env_ in todo:
        tn = type_str(t)
        enc = _cc.impl_encode(g, v, tn, reform=False)
        if enc[0] != "ok":
            continue
        d1, d2 = _cc.impl_decode(g, enc[1], tn, env_), _cc.impl_decode(g, enc[1], tn, env_)
        if d1[0] != "ok" or d2[0] != "ok":
            continue
        try:
            before = canon(to_sx(d2[1], env_, t))
            edits = grow(d1[1])
        except Exception:  # noqa: BLE001
            continue
        if not edits:
            continue
        ctx.count("decoded_values_edited")
        ctx.case("fresh" + tn + repr(before), True)
        d3 = _cc.impl_decode(g, enc[1], tn, env_)
        try:
            after2 = canon(to_sx(d2[1], env_, t))
            after3 = canon(to_sx(d3[1], env_, t)) if d3[0] == "ok" else d3
        except Exception as e:  # noqa: BLE001
            after2 = after3 = "unreadable (%s)" % type(e).__name__
        if after2 != before or after3 != before:
            ctx.add("oracle", "cross-decode", "type %s: after the containers of one decoded value were edited, %s of the same bytes reads %s (the bytes encode %s)"
                    % (tn, "a second, earlier decode" if after2 != before else "a later decode", str(after2 if after2 != before else after3)[:160], str(before)[:160]),
                    {"type_name": tn, "bytes": enc[1].hex()})


def after_failed_encode(ctx, g):
    """A save that fails part-way through a table (a later element of the wrong type, out of range, of an unknown inner type) leaves
    nothing behind: the next tables written by the process are exactly the documented encoding of their values."""
    import io
    IRm = gtirb_from_repo.msg("IR")
    bad_tables = [([-1, (1 << 63) - 1, "three"], "sequence<int64_t>"), ({"a": 1, "b": 1 << 70}, "mapping<string,uint8_t>"),
                  ([[1, 2], [3, "x"]], "sequence<sequence<uint16_t>>"), ([1, 2, 3], "sequence<zz_unknown>"), (("s", 2.5), "tuple<string,uint32_t>")]
    good = [([1, 2, 3], "sequence<uint16_t>", (3).to_bytes(8, "little") + b"\x01\0\x02\0\x03\0"), ("ok", "string", (2).to_bytes(8, "little") + b"ok"),
            (7, "int64_t", (7).to_bytes(8, "little"))]
    for bv, bt in bad_tables:
        ir = g.IR()
        m = g.Module(name="m", ir=ir)
        m.aux_data["bad"] = g.AuxData(bv, bt)
        try:
            ir.save_protobuf_file(io.BytesIO())
            failed = False
        except Exception:  # noqa: BLE001
            failed = True
        ctx.count("failed_saves" if failed else "bad_table_saved_anyway")
        del m.aux_data["bad"]
        for k, (v, tn, want) in enumerate(good):
            (ir if k % 2 else m).aux_data["g%d" % k] = g.AuxData(v, tn)
        ctx.case("after-failed-encode:" + bt, True)
        try:
            buf = io.BytesIO()
            ir.save_protobuf_file(buf)
            p = IRm()
            p.ParseFromString(buf.getvalue()[8:])
        except Exception as e:  # noqa: BLE001
            ctx.add("oracle", "bytes-differ-from-format", "after a save that failed on a %s table, saving well-typed tables raises %s" % (bt, exc_name(g, e)), {"type_name": bt})
            continue
        for k, (v, tn, want) in enumerate(good):
            e = (p if k % 2 else p.modules[0]).aux_data["g%d" % k]
            if bytes(e.data) != want or e.type_name != tn:
                ctx.add("oracle", "bytes-differ-from-format", "after a save that failed part-way through a %s table, the %s table %r is written as %s; the format prescribes %s"
                        % (bt, tn, v, bytes(e.data).hex(), want.hex()), {"type_name": tn, "bytes": bytes(e.data).hex(), "failed_table": bt})


WIDER = {"uint8_t": "uint16_t", "uint16_t": "uint32_t", "uint32_t": "uint64_t", "int8_t": "int16_t", "int16_t": "int32_t", "int32_t": "int64_t"}


def widen(t):
    """the same type tree with every integer leaf one size wider (every value of the old type is a value of the new one, with
    other bytes), or None when nothing changes"""
    nm, subs = t
    if nm in WIDER:
        return (WIDER[nm], [])
    new = [widen(x) for x in subs]
    if all(x is None for x in new):
        return None
    return (nm, [n if n is not None else o for n, o in zip(new, subs)])


def through_saved_files(ctx, g, cases):
    """The bytes of a table as they END UP IN A FILE: tables on an IR and on its modules are saved, the written message is parsed
    with the schema classes and every table's bytes and type name compared with the independent encoder; the file is loaded and
    the tables are saved again -- untouched, after a read, and given a wider integer type WITHOUT being read (the bytes in the new
    file must be the encoding of the value under the new name, not the old bytes under it)."""
    import io
    IRm = gtirb_from_repo.msg("IR")
    todo = []
    for (t, v, env) in cases:
        try:
            bs = bytes(oracle_encode(t, v, env))
        except OracleError:
            continue
        todo.append((t, v, env, bs))
        if len(todo) >= (400 if ctx.quick else 3000):
            break
    if not todo:
        return
    env = todo[0][2]
    ir = env.ir
    holders = [ir] + list(ir.modules)
    keys = {}
    for k, (t, v, env_, bs) in enumerate(todo):
        h = holders[k % len(holders)]
        key = "t%d" % k
        try:
            h.aux_data[key] = g.AuxData(v, type_str(t))
        except Exception as e:  # noqa: BLE001
            ctx.add("oracle", "bytes-differ-from-format", "AuxData(value, %s) raises %s" % (type_str(t), exc_name(g, e)), {"type_name": type_str(t)})
            continue
        keys[key] = (k % len(holders), t, v, bs)

    def tables(msg):
        out = dict(("0:" + k, a) for k, a in msg.aux_data.items())
        for i, m in enumerate(msg.modules):
            for k, a in m.aux_data.items():
                out["%d:%s" % (i + 1, k)] = a
        return out

    def save(x, what):
        buf = io.BytesIO()
        try:
            x.save_protobuf_file(buf)
        except Exception as e:  # noqa: BLE001
            ctx.add("oracle", "bytes-differ-from-format", "%s: save raises %s" % (what, exc_name(g, e)), {"stage": what})
            return None, None
        msg = IRm()
        msg.ParseFromString(buf.getvalue()[8:])
        return buf.getvalue(), tables(msg)

    def judge(tabs, expect, what, exact=True):
        for key, (hi, t, v, bs) in keys.items():
            want_tn, want_bs = expect(key, t, v, bs)
            a = tabs.get("%d:%s" % (hi, key))
            ctx.count("tables_in_files_checked")
            same = a is not None and a.type_name == want_tn and bytes(a.data) == want_bs
            if not same and not exact and a is not None and a.type_name == want_tn:
                # a table that was read is written from the decoded value: element order and merged repetitions aside
                try:
                    t_now = retyped_now.get(key, t)
                    got_c, end = auxval.wire_canon(t_now, bytes(a.data))
                    same = end == len(a.data) and got_c == auxval.wire_canon(t_now, want_bs)[0]
                except Exception:  # noqa: BLE001
                    same = False
            if not same:
                ctx.add("oracle", "bytes-differ-from-format", "%s: the table of type %s is written as (%s, %s), the format prescribes (%s, %s)"
                        % (what, type_str(t), a.type_name if a is not None else None, bytes(a.data).hex()[:60] if a is not None else None, want_tn, want_bs.hex()[:60]),
                        {"stage": what, "type_name": type_str(t), "value_sx": to_sx(v, env, t)})
                return False
        return True
    retyped_now = {}
    data, tabs = save(ir, "first save")
    if tabs is None or not judge(tabs, lambda key, t, v, bs: (type_str(t), bs), "first save"):
        for key in keys:
            holders[keys[key][0]].aux_data.pop(key, None)
        return
    try:
        for stage in ("untouched", "read", "retyped-unread"):
            ir2 = g.IR.load_protobuf_file(io.BytesIO(data))
            hs2 = [ir2] + list(ir2.modules)
            retyped = {}
            for key, (hi, t, v, bs) in keys.items():
                ad = hs2[hi].aux_data[key]
                if stage == "read":
                    ad.data
                elif stage == "retyped-unread":
                    t2 = widen(t)
                    if t2 is not None:
                        ad.type_name = type_str(t2)
                        retyped[key] = t2
                        ctx.count("tables_retyped_without_read")

            def expect(key, t, v, bs):
                if key in retyped:
                    return type_str(retyped[key]), bytes(oracle_encode(retyped[key], v, env))
                return type_str(t), bs
            retyped_now.clear()
            retyped_now.update(retyped)
            _, tabs2 = save(ir2, "saved again after load (%s)" % stage)
            if tabs2 is None or not judge(tabs2, expect, "saved again after load (%s)" % stage, exact=(stage == "untouched")):
                break
    finally:
        for key in keys:
            holders[keys[key][0]].aux_data.pop(key, None)


def run(ctx):
    g = gtirb_from_repo.load()
    n = 1500 if ctx.quick else 25000
    cases, env = gen_cases(ctx, g, n)
    for tn_, why_ in getattr(env, "unbuildable", [])[:3]:
        ctx.add("oracle", "bytes-differ-from-format", "type %s is a type of the grammar, but a Python value of it cannot even be built: %s" % (tn_, why_), {"type_name": tn_})
    ctx.count("types_without_python_value", len(getattr(env, "unbuildable", [])))
    reqs, meta = [], []
    for (t, v, env) in cases:
        tn = type_str(t)
        enc = impl_encode(g, v, tn)
        vs = to_sx(v, env, t)
        for f in features(t, v):
            ctx.count("type:" + f)
        ctx.case(tn + repr(canon(vs)), bool(t[1]) or t[0] in ("string", "float", "double", "UUID", "Offset"))
        try:
            orc = ("ok", bytes(oracle_encode(t, v, env)))
        except OracleError as e:
            orc = ("err", str(e))
        if enc != orc:
            ctx.add("oracle", "bytes-differ-from-format", "type %s: bytes differ from the documented format" % tn,
                    {"type_name": tn, "value_sx": vs, "impl": _b(enc), "format_oracle": _b(orc)})
        if orc[0] == "ok":
            # bytes of the independent encoder must decode to the same value
            dec = impl_decode(g, orc[1], tn, env)
            exp = canon(expected_after_roundtrip(t, v, env))
            if dec[0] != "ok" or canon(to_sx(dec[1], env, t)) != exp:
                ctx.add("oracle", "cross-decode", "type %s: bytes of the independent encoder do not decode to the value" % tn,
                        {"type_name": tn, "value_sx": vs, "bytes": orc[1].hex(), "decoded": repr(dec)[:300]})
        reqs.append([2, zs(tn), vs])
        meta.append((tn, vs, enc))
    # non-canonical but legal encodings, produced by the model
    nc = []
    for (t, v, env) in cases:
        vs = to_sx(v, env, t)
        tn = type_str(t)
        if t[0] == "set" and len(v) >= 1:
            nc.append((tn, [8, vs[1] + [vs[1][0]]], "set element listed twice", t))
        if t[0] == "mapping" and len(v) >= 1:
            k0, x0 = vs[1][0]
            nc.append((tn, [9, vs[1] + [[k0, vs[1][-1][1]]]], "mapping key listed twice", t))
        if t[0] == "sequence" and t[1][0][0] == "set" and len(v) >= 1 and len(v[0]) >= 1:
            inner = vs[1][0]
            nc.append((tn, [7, [[8, inner[1] + inner[1]]] + vs[1][1:]], "nested set listed twice", t))
    nc = nc[: (300 if ctx.quick else 4000)]
    nc_reqs = [[2, zs(tn), vs] for tn, vs, _, _ in nc]
    replies = model_batch(reqs + nc_reqs)
    it = iter(replies)
    for (tn, vs, enc) in meta:
        m = model_result(next(it))
        mm = ("ok", bytes(m[1])) if m[0] == "ok" else m
        if mm != enc:
            ctx.add("corr", "encode-differs", "type %s: implementation and Coq format model bytes differ" % tn,
                    {"type_name": tn, "value_sx": vs, "impl": _b(enc), "model": _b(mm), "stream": "C08 byte-for-byte correspondence"})
    # second round: decode the model's non-canonical bytes with both
    nc_bytes = []
    for (tn, vs, why, t_) in nc:
        m = model_result(next(it))
        if m[0] == "ok":
            nc_bytes.append((tn, bytes(m[1]), why, t_))
    # bool bytes other than 0/1
    for b in (2, 0x80, 0xFF):
        nc_bytes.append(("bool", bytes([b]), "bool byte 0x%02x" % b, None))
        nc_bytes.append(("sequence<bool>", (3).to_bytes(8, "little") + bytes([0, b, 1]), "bool byte 0x%02x in a sequence" % b, None))
    replies = model_batch([[4, zs(tn), list(bs), env.getter] for tn, bs, _, _ in nc_bytes])
    for (tn, bs, why, t_), rep in zip(nc_bytes, replies):
        ctx.count("noncanonical:" + why.split(" 0x")[0])
        m = model_result(rep)
        dec = impl_decode(g, bs, tn, env)
        if m[0] == "ok":
            good = dec[0] == "ok" and canon(m[1]) == canon(to_sx(dec[1], env, t_)) and m[2] == 0
        else:
            good = dec[0] == "err" and dec[1] == m[1]
        ctx.case("nc" + tn + bs.hex(), True)
        if not good:
            ctx.add("corr", "noncanonical-decode-differs", "type %s (%s): implementation and model decode differently" % (tn, why),
                    {"type_name": tn, "bytes": bs.hex(), "impl": repr(dec)[:300], "model": repr(m)[:300], "stream": "C08 non-canonical decode"})
    if not ctx.quick:
        try:
            import javaleg
            javaleg.run(ctx, g, cases, env)
        except ImportError:
            ctx.count("java_leg_unavailable")
    ctx.cov["traces_validated_against_impl"] = len(meta) + len(nc_bytes)
    through_saved_files(ctx, g, cases)
    decoded_values_are_fresh(ctx, g, cases)
    instance_isolation(ctx, g)
    after_failed_encode(ctx, g)
    import codec_cases as _cc
    for _k, _v in _cc.FORMS.items():
        ctx.count("encode_value_form:" + _k, _v)
    ctx.cov["rule"] = ("same generator as C07; every case compared byte for byte with two independent encoders (Python oracle from "
                       "AuxData.md, Coq model); non-trivial = container or string/float/UUID/Offset; distinct = (type, canonical value)")
    for (tn, vs, enc) in meta[300:303]:
        ctx.sample({"type_name": tn, "value_sx": vs, "bytes": enc[1].hex() if enc[0] == "ok" else enc[1]})


def _b(r):
    return (r[0], r[1].hex()) if r[0] == "ok" and isinstance(r[1], (bytes, bytearray)) else r


def replay(ctx, path):
    import replaylib
    return replaylib.replay_file(path)
