"""C09 -- after load every reference is the attached object itself.
Identity is observed on the implementation (`is` between the object reached through a reference and the one reached through
containment / get_by_uuid) for files from the reader stream (messages built directly from the descriptors, several references to
one node) and from the writer (IRs built through the API, AuxData naming attached / detached / unknown UUIDs at IR and module level).
Rejection: every reference of a valid message is, one at a time, made dangling or ill-typed -> DeserializationError, as
Model/Proto.v's reader decides (resolve / fresh)."""
import json

import content
import faults
import gtirb_from_repo
import irgen
import protocheck

LEVEL = "proof"
TRUSTED = ("object identity is a fact about CPython allocation: it is observed (exploration), the theorems speak about UUID-level resolution",)


def run(ctx):
    g = gtirb_from_repo.load()
    ctx.scope = {"allow": ("roundtrip:aux-identity", "roundtrip:identity", "roundtrip:load-raised", "accepted:", "wrong-class:", "reader:incoherent", "reader:hang", "reader:outcome", "reader:model-died", "tables:node-resolution", "tables:read-raised", "tables:save-load-raised")}
    cov = irgen.Cov(ctx)
    enums = protocheck.schema_enums()
    n_rt, n_r, n_f = (40, 60, 25) if ctx.quick else (800, 1500, 400)
    batch = protocheck.Batch()
    for i in range(n_rt):
        ir, auxinfo = irgen.gen_ir(g, ctx.rng, cov)
        try:
            bs = protocheck.save_bytes(ir)
        except Exception:  # noqa: BLE001
            continue
        protocheck.roundtrip_stream(ctx, g, batch, ir, auxinfo, bs, "ID%d" % i)       # includes identity_check and AuxData identity
        ctx.case(repr(bs), len(auxinfo) > 0 or len(bs) > 100)
    nfaults = 0
    for i in range(n_r):
        m = irgen.gen_message(ctx.rng, enums, cov, version=g.version.PROTOBUF_VERSION)
        r = protocheck.reader_stream(ctx, g, batch, m, "IDR%d" % i)            # identity_check on the loaded IR
        ctx.case(repr(m), len(faults.ref_sites(m)) > 0)
        ctx.count("references_in_messages", len(faults.ref_sites(m)))
        if i < n_f:
            # 'each UUID denotes one object': a UUID defined twice (siblings, any two nodes, three nodes, a node and its ancestor)
            dups = [f for f in faults.structural_faults(m, ctx.rng, enums) if f[0].startswith(("dup-", "triple-"))]
            for sig, fm, want in faults.reference_faults(m, ctx.rng) + dups:
                r = protocheck.reader_stream(ctx, g, batch, fm, "F%d:%s" % (i, sig), expect_coherent=False)
                nfaults += 1
                ctx.count("fault:" + sig.split(":")[0])
                if r is None:
                    continue
                outcome = r[0]
                if outcome[0] == 0:
                    ctx.add("oracle", "accepted:" + sig.split("->")[0], "a file whose %s is accepted instead of being rejected" % sig, {"tag": sig, "file": r[2].hex()})
                elif outcome[1] != want:
                    ctx.add("oracle", "wrong-class:" + sig.split("->")[0], "a file whose %s is rejected with %s, not %s" % (sig, outcome[1], want),
                            {"tag": sig, "file": r[2].hex()})
    # AuxData UUID / Offset entries across modules (tables of every size on every container, naming earlier / same / later modules)
    from props import c07 as _c07
    _c07.cross_module_tables(ctx, g, ctx.rng, 6 if ctx.quick else 120)
    batch.run()
    ctx.cov["faults_injected"] = nfaults
    ctx.cov["traces_validated_against_impl"] = n_rt + n_r + nfaults
    ctx.cov["rule"] = ("%d API-built IRs round-tripped and %d directly built messages loaded: identity of referents, entry points, CFG endpoints, expression symbols and AuxData "
                       "UUID/Offset entries against get_by_uuid/containment; for %d messages every reference site made dangling, ill-typed (a node of an inadmissible kind), or of "
                       "length 0/15/17, one at a time" % (n_rt, n_r, min(n_f, n_r)))
    ctx.sample({"fault_kinds": ["dangling:referent", "illtyped:entry_point->DataBlock", "reflen15:edge-source"]})


def replay(ctx, path):
    import replaylib
    return replaylib.replay_file(path)
