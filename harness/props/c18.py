"""C18 -- deep_eq is exact structural equality.
Pairs: an IR and its save/load copy (different insertion orders), the copy after ONE perturbation drawn from the full catalogue
(every compared field of every kind, every add/remove of a child, edge, expression, flag, attribute, AuxData key, every UUID), and
perturbations that must NOT matter (AuxData values / type names, module order, iteration order).
Direct oracle: equality of the observable contents (content_of: public attributes only; children as sets; AuxData keys only).
Correspondence: ir_deq of Model/DeepEq.v in both directions, and its specification `norm a = norm b`."""
import io
import json
import uuid as uuidlib

import content
import gtirb_from_repo
import irgen
import protocheck
from common import exc_name

LEVEL = "proof"
TRUSTED = ("sorted()/zip/set equality are CPython's; UUIDs of siblings are pairwise distinct (the premise under which sorting by UUID aligns children)",)


def spec_canon(c):
    """what deep_eq documents as compared: module order and AuxData values/type names are not"""
    cc = content.canon_content(c)
    mods = sorted(([*m[:12], sorted([k for k, _, _ in m[12]])] for m in cc[2]), key=lambda m: m[0])
    return [cc[0], cc[1], mods, cc[3], sorted([k for k, _, _ in cc[4]])]


def nodes_by_uuid(ir):
    return {n.uuid: n for n in content.reach(ir)}


def perturbations(g, rng, ir, choose=None):
    """list of (name, function applying ONE change to ir); each returns False when not applicable.
    `choose` picks the element a change is applied to (default: random)"""
    P = []
    mods = list(ir.modules)
    secs = [s for m in mods for s in m.sections]
    bis = [b for s in secs for b in s.byte_intervals]
    blocks = [b for bi in bis for b in bi.blocks]
    syms = [y for m in mods for y in m.symbols]
    prox = [p for m in mods for p in m.proxies]
    exprs = [(bi, k) for bi in bis for k in bi.symbolic_expressions]
    edges = list(ir.cfg)
    new_uuid = lambda: uuidlib.UUID(int=rng.getrandbits(128))  # noqa: E731

    def setattr_(o, a, v):
        def f():
            if getattr(o, a) == v:
                return False
            setattr(o, a, v)
        return f

    def pick(l):
        if not l:
            return None
        return choose(l) if choose else rng.choice(l)
    P.append(("ir.uuid", setattr_(ir, "uuid", new_uuid())))
    P.append(("ir.version", setattr_(ir, "version", ir.version + 1)))
    P.append(("ir.aux-key-added", lambda: ir.aux_data.__setitem__("zz-new", g.AuxData(1, "uint8_t"))))
    if ir.aux_data:
        P.append(("ir.aux-key-removed", lambda: ir.aux_data.pop(next(iter(ir.aux_data)))))
    P.append(("ir.module-added", lambda: ir.modules.append(g.Module(name="extra"))))
    # the same kinds of change with values at the EDGE of each field's domain (the only difference is an empty string, a zero,
    # the zero-valued enum member, an empty container): a comparison that looks at truthiness instead of equality misses exactly these
    P.append(("ir.aux-key-empty-string-added", lambda: (False if "" in ir.aux_data else ir.aux_data.__setitem__("", g.AuxData(0, "uint8_t")))))
    P.append(("ir.version->0", setattr_(ir, "version", 0)))
    P.append(("ir.module-added-all-defaults", lambda: ir.modules.append(g.Module(name=""))))
    # the block a module's entry point NAMES, when it lives in ANOTHER module: the module holding the reference differs from its copy
    # (entry points are compared deeply), although nothing inside that module changed
    for m_ in mods:
        ep = m_.entry_point
        if ep is not None and ep.module is not m_:
            top = (1 << 64) - 1          # (the fields are uint64: stay inside, a catalogue entry must leave the IR savable)
            P.append(("entry-block-in-another-module.size", setattr_(ep, "size", ep.size + 1 if ep.size < top else ep.size - 1)))
            P.append(("entry-block-in-another-module.offset", setattr_(ep, "offset", ep.offset + 1 if ep.offset < top else ep.offset - 1)))
            P.append(("entry-block-in-another-module.decode_mode",
                      setattr_(ep, "decode_mode", [d for d in g.CodeBlock.DecodeMode if d != ep.decode_mode][0])))
            break
    m = pick(mods)
    if m is not None:
        P.append(("module.aux-key-empty-string-added", lambda: (False if "" in m.aux_data else m.aux_data.__setitem__("", g.AuxData(0, "uint8_t")))))
        P.append(("module.name->empty", setattr_(m, "name", "")))
        P.append(("module.binary_path->empty", setattr_(m, "binary_path", "")))
        P.append(("module.preferred_addr->0", setattr_(m, "preferred_addr", 0)))
        P.append(("module.rebase_delta->0", setattr_(m, "rebase_delta", 0)))
        P.append(("module.isa->zero-member", setattr_(m, "isa", g.Module.ISA(0))))
        P.append(("module.file_format->zero-member", setattr_(m, "file_format", g.Module.FileFormat(0))))
        P.append(("module.byte_order->zero-member", setattr_(m, "byte_order", g.Module.ByteOrder(0))))
        P.append(("module.section-added-all-defaults", lambda: m.sections.add(g.Section(name=""))))
        P.append(("module.symbol-added-all-defaults", lambda: m.symbols.add(g.Symbol(""))))
    s0 = pick(secs)
    if s0 is not None:
        P.append(("section.name->empty", setattr_(s0, "name", "")))
        if s0.flags:
            P.append(("section.flags->empty", lambda: s0.flags.clear()))
        if g.Section.Flag(0) not in s0.flags:
            P.append(("section.zero-flag-added", lambda: s0.flags.add(g.Section.Flag(0))))
        P.append(("section.interval-added-all-defaults", lambda: s0.byte_intervals.add(g.ByteInterval())))
    b0 = pick(blocks)
    if b0 is not None:
        P.append(("block.size->0", setattr_(b0, "size", 0)))
        P.append(("block.offset->0", setattr_(b0, "offset", 0)))
        if isinstance(b0, g.CodeBlock):
            P.append(("block.decode_mode->zero-member", setattr_(b0, "decode_mode", g.CodeBlock.DecodeMode(0))))
    bi0 = pick(bis)
    if bi0 is not None:
        P.append(("interval.address->0", setattr_(bi0, "address", 0)))
        P.append(("interval.address->none", setattr_(bi0, "address", None)))
        P.append(("interval.block-added-all-defaults", lambda: bi0.blocks.add(g.DataBlock())))
        if len(bi0.contents):
            P.append(("interval.contents->empty", lambda: setattr(bi0, "initialized_size", 0)))

            def zero_byte():
                if bi0.contents[0] == 0:
                    return False
                bi0.contents[0] = 0
            P.append(("interval.contents-byte->0", zero_byte))
    y0 = pick(syms)
    if y0 is not None:
        P.append(("symbol.name->empty", setattr_(y0, "name", "")))
        P.append(("symbol.at_end->false", setattr_(y0, "at_end", False)))
    xk0 = pick(exprs)
    if xk0 is not None:
        e0 = xk0[0].symbolic_expressions[xk0[1]]
        P.append(("expression.offset->0", setattr_(e0, "offset", 0)))
        if isinstance(e0, g.SymAddrAddr):
            P.append(("expression.scale->0", setattr_(e0, "scale", 0)))
        if e0.attributes:
            P.append(("expression.attributes->empty", lambda: e0.attributes.clear()))
        za = g.SymbolicExpression.Attribute(0) if 0 in [a.value for a in g.SymbolicExpression.Attribute] else 0
        if za not in e0.attributes:
            P.append(("expression.zero-attribute-added", lambda: e0.attributes.add(za)))
        if xk0[1] != 0 and 0 not in xk0[0].symbolic_expressions:
            P.append(("interval.expression-moved-to-0", lambda: xk0[0].symbolic_expressions.__setitem__(0, xk0[0].symbolic_expressions.pop(xk0[1]))))
    m = pick(mods)
    if m is not None:
        P.append(("ir.module-removed", lambda: ir.modules.remove(m)))
        P.append(("module.uuid", setattr_(m, "uuid", new_uuid())))
        P.append(("module.name", setattr_(m, "name", m.name + "x")))
        P.append(("module.binary_path", setattr_(m, "binary_path", m.binary_path + "/b")))
        P.append(("module.isa", setattr_(m, "isa", [x for x in g.Module.ISA if x != m.isa][0])))
        P.append(("module.file_format", setattr_(m, "file_format", [x for x in g.Module.FileFormat if x != m.file_format][1])))
        P.append(("module.byte_order", setattr_(m, "byte_order", [x for x in g.Module.ByteOrder if x != m.byte_order][0])))
        P.append(("module.preferred_addr", setattr_(m, "preferred_addr", m.preferred_addr ^ 1)))
        P.append(("module.rebase_delta", setattr_(m, "rebase_delta", m.rebase_delta - 1 if m.rebase_delta > 0 else m.rebase_delta + 1)))
        P.append(("module.aux-key-added", lambda: m.aux_data.__setitem__("zz-new", g.AuxData(1, "uint8_t"))))
        if m.aux_data:
            P.append(("module.aux-key-removed", lambda: m.aux_data.pop(next(iter(m.aux_data)))))
        P.append(("module.proxy-added", lambda: m.proxies.add(g.ProxyBlock())))
        P.append(("module.section-added", lambda: m.sections.add(g.Section(name="new"))))
        P.append(("module.symbol-added", lambda: m.symbols.add(g.Symbol("new"))))
        cbs = list(m.code_blocks)
        if m.entry_point is not None:
            P.append(("module.entry-unset", setattr_(m, "entry_point", None)))
            others = [b for b in cbs if b is not m.entry_point]
            if others:
                P.append(("module.entry-changed", setattr_(m, "entry_point", others[0])))
        elif cbs:
            P.append(("module.entry-set", setattr_(m, "entry_point", cbs[0])))
    p = pick(prox)
    if p is not None:
        P.append(("proxy.uuid", setattr_(p, "uuid", new_uuid())))
        if not any(e.source is p or e.target is p for e in edges) and not any(y.referent is p for y in syms):
            P.append(("module.proxy-removed", lambda: p.module.proxies.discard(p)))
    s = pick(secs)
    if s is not None:
        P.append(("section.uuid", setattr_(s, "uuid", new_uuid())))
        P.append(("section.name", setattr_(s, "name", s.name + "x")))
        fl = [f for f in g.Section.Flag if f not in s.flags]
        if fl:
            P.append(("section.flag-added", lambda: s.flags.add(fl[0])))
        if s.flags:
            P.append(("section.flag-removed", lambda: s.flags.discard(next(iter(s.flags)))))
        P.append(("section.interval-added", lambda: s.byte_intervals.add(g.ByteInterval(size=1))))
        if not list(s.byte_intervals):
            P.append(("module.section-removed", lambda: s.module.sections.discard(s)))
    bi = pick(bis)
    if bi is not None:
        P.append(("interval.uuid", setattr_(bi, "uuid", new_uuid())))
        P.append(("interval.address", setattr_(bi, "address", 0 if bi.address is None else (None if bi.address == 0 else bi.address ^ 8))))
        P.append(("interval.size", setattr_(bi, "size", bi.size + 1 if bi.size < (1 << 64) - 1 else bi.size - 1)))
        if len(bi.contents):
            def chg():
                bi.contents[0] ^= 0x55
            P.append(("interval.contents-byte", chg))
            P.append(("interval.contents-shorter", lambda: setattr(bi, "initialized_size", len(bi.contents) - 1)))
        elif bi.size:
            P.append(("interval.contents-longer", lambda: setattr(bi, "initialized_size", 1)))
        P.append(("interval.block-added", lambda: bi.blocks.add(g.DataBlock(size=1))))
        if not list(bi.blocks) and not bi.symbolic_expressions:
            P.append(("section.interval-removed", lambda: bi.section.byte_intervals.discard(bi)))
        ms = list(bi.module.symbols) if bi.module else []
        if ms:
            free = [k for k in (3, 5, 77, 1 << 40) if k not in bi.symbolic_expressions]
            P.append(("interval.expression-added", lambda: bi.symbolic_expressions.__setitem__(free[0], g.SymAddrConst(0, ms[0]))))
    b = pick(blocks)
    if b is not None:
        P.append(("block.uuid", setattr_(b, "uuid", new_uuid())))
        P.append(("block.size", setattr_(b, "size", b.size ^ 1)))
        P.append(("block.offset", setattr_(b, "offset", b.offset ^ 1)))
        if isinstance(b, g.CodeBlock):
            P.append(("block.decode_mode", setattr_(b, "decode_mode", [x for x in g.CodeBlock.DecodeMode if x != b.decode_mode][0])))
        referenced = any(e.source is b or e.target is b for e in edges) or any(y.referent is b for y in syms) or any(mm.entry_point is b for mm in mods)
        if not referenced:
            P.append(("interval.block-removed", lambda: b.byte_interval.blocks.discard(b)))

            def swap_kind():
                parent = b.byte_interval
                parent.blocks.discard(b)
                nb = g.DataBlock(size=b.size, offset=b.offset, uuid=b.uuid) if isinstance(b, g.CodeBlock) else g.CodeBlock(size=b.size, offset=b.offset, uuid=b.uuid)
                parent.blocks.add(nb)
            P.append(("block.kind", swap_kind))
    y = pick(syms)
    if y is not None:
        P.append(("symbol.uuid", setattr_(y, "uuid", new_uuid())))
        P.append(("symbol.name", setattr_(y, "name", y.name + "x")))
        P.append(("symbol.at_end", setattr_(y, "at_end", not y.at_end)))
        if y.referent is not None:
            P.append(("symbol.referent->value0", lambda: setattr(y, "value", 0)))
            P.append(("symbol.referent->none", lambda: setattr(y, "referent", None)))
            ob = [x for x in (blocks + prox) if x is not y.referent]
            if ob:
                P.append(("symbol.referent-changed", lambda: setattr(y, "referent", ob[0])))
        elif y.value is not None:
            P.append(("symbol.value-changed", lambda: setattr(y, "value", y.value ^ 1)))
            P.append(("symbol.value->none", lambda: setattr(y, "value", None)))
        else:
            P.append(("symbol.none->value0", lambda: setattr(y, "value", 0)))
            if blocks:
                P.append(("symbol.none->referent", lambda: setattr(y, "referent", blocks[0])))
        used = any(y in list(e.symbols) for bb in bis for e in bb.symbolic_expressions.values())
        if not used:
            P.append(("module.symbol-removed", lambda: y.module.symbols.discard(y)))
    if len(mods) >= 2:
        # count-preserving changes of WHO CONTAINS WHAT: two children of the same kind exchange their modules
        ma, mb = mods[0], mods[1]
        for attr, nm in (("sections", "section"), ("symbols", "symbol"), ("proxies", "proxy")):
            xa, xb = pick(list(getattr(ma, attr))), pick(list(getattr(mb, attr)))
            if xa is not None and xb is not None:
                def swap_owner(xa=xa, xb=xb, ma=ma, mb=mb):
                    xa.module = mb
                    xb.module = ma
                P.append(("%s.swapped-between-modules" % nm, swap_owner))
        sa, sb = pick([x for x in secs if len(x.byte_intervals)]), None
        if sa is not None:
            sb = pick([x for x in secs if x is not sa and len(x.byte_intervals)])
        if sa is not None and sb is not None:
            ba, bb = next(iter(sa.byte_intervals)), next(iter(sb.byte_intervals))

            def swap_bi(ba=ba, bb=bb, sa=sa, sb=sb):
                ba.section = sb
                bb.section = sa
            P.append(("interval.swapped-between-sections", swap_bi))
    xk = pick(exprs)
    if xk is not None:
        xb, k = xk
        e = xb.symbolic_expressions[k]
        P.append(("expression.offset", setattr_(e, "offset", e.offset ^ 1)))
        if isinstance(e, g.SymAddrAddr):
            P.append(("expression.scale", setattr_(e, "scale", e.scale ^ 1)))
            if e.symbol1 is not e.symbol2:
                def swap():
                    e.symbol1, e.symbol2 = e.symbol2, e.symbol1
                P.append(("expression.symbols-swapped", swap))
            P.append(("expression.kind", lambda: xb.symbolic_expressions.__setitem__(k, g.SymAddrConst(e.offset, e.symbol1, e.attributes))))
        else:
            os_ = [z for z in xb.module.symbols if z is not e.symbol]
            if os_:
                P.append(("expression.symbol", setattr_(e, "symbol", os_[0])))
            P.append(("expression.kind", lambda: xb.symbolic_expressions.__setitem__(k, g.SymAddrAddr(1, e.offset, e.symbol, e.symbol, e.attributes))))
        na = [a for a in g.SymbolicExpression.Attribute if a not in e.attributes]
        P.append(("expression.attribute-added", lambda: e.attributes.add(na[0])))
        P.append(("expression.unknown-attribute-added", lambda: e.attributes.add(31337)))
        if e.attributes:
            P.append(("expression.attribute-removed", lambda: e.attributes.discard(next(iter(e.attributes)))))
        P.append(("interval.expression-removed", lambda: xb.symbolic_expressions.pop(k)))
        free_mv = [kk for kk in (k + 1, k + 2, k + 3, k - 1, k - 2, k - 3) if kk not in xb.symbolic_expressions and 0 <= kk < (1 << 64)]
        P.append(("interval.expression-moved", lambda: xb.symbolic_expressions.__setitem__(free_mv[0], xb.symbolic_expressions.pop(k))))
    cfgn = [x for x in blocks if isinstance(x, g.CodeBlock)] + prox
    if cfgn:
        T = g.Edge.Type
        ne = g.Edge(cfgn[0], cfgn[-1], g.Edge.Label(T.Sysret, True, True))
        P.append(("cfg.edge-added", lambda: (False if ne in ir.cfg else ir.cfg.add(ne))))
    ed = pick(edges)
    if ed is not None:
        P.append(("cfg.edge-removed", lambda: ir.cfg.discard(ed)))

        def relabel(newlab):
            def f():
                ne2 = g.Edge(ed.source, ed.target, newlab)
                if ne2 in ir.cfg:
                    return False
                ir.cfg.discard(ed)
                ir.cfg.add(ne2)
            return f
        T = g.Edge.Type
        if ed.label is None:
            P.append(("cfg.label-none->all-default", relabel(g.Edge.Label(T.Branch, False, False))))
        else:
            P.append(("cfg.label->none", relabel(None)))
            P.append(("cfg.label.type", relabel(g.Edge.Label([t for t in T if t != ed.label.type][0], ed.label.conditional, ed.label.direct))))
            P.append(("cfg.label.conditional", relabel(g.Edge.Label(ed.label.type, not ed.label.conditional, ed.label.direct))))
            P.append(("cfg.label.direct", relabel(g.Edge.Label(ed.label.type, ed.label.conditional, not ed.label.direct))))
        ot = [x for x in cfgn if x is not ed.target]
        if ot:
            def retarget():
                ne3 = g.Edge(ed.source, ot[0], ed.label)
                if ne3 in ir.cfg:
                    return False
                ir.cfg.discard(ed)
                ir.cfg.add(ne3)
            P.append(("cfg.edge-target", retarget))
    return P


def neutral_changes(g, rng, ir):
    """changes deep_eq must ignore"""
    N = []
    for cont in [ir] + list(ir.modules):
        for k in list(cont.aux_data):
            N.append(("aux-value+type:" + k, lambda cont=cont, k=k: cont.aux_data.__setitem__(k, g.AuxData("changed", "string"))))
    if len(ir.modules) >= 2:
        N.append(("module-order", lambda: ir.modules.reverse()))

    def reinsert_edges():
        es = list(ir.cfg)
        rng.shuffle(es)
        ir.cfg.clear()
        ir.cfg.update(es)
    N.append(("cfg-insertion-order", reinsert_edges))

    def reinsert_children():
        for m in ir.modules:
            for coll in (m.sections, m.symbols, m.proxies):
                xs = list(coll)
                rng.shuffle(xs)
                for x in xs:
                    coll.discard(x)
                for x in xs:
                    coll.add(x)
            for s_ in m.sections:
                for coll in [s_.byte_intervals] + [b.blocks for b in s_.byte_intervals]:
                    xs = list(coll)
                    rng.shuffle(xs)
                    for x in xs:
                        coll.discard(x)
                    for x in xs:
                        coll.add(x)
    N.append(("children-insertion-order", reinsert_children))

    def edge_history():
        # edges that were added and removed again leave no trace in what deep_eq compares (the graph library may keep their
        # endpoints as isolated vertices, the edge set is the same); also lookups and index builds, which only read
        cfgn = [b for b in ir.cfg_nodes]
        T = g.Edge.Type
        for _ in range(3):
            if not cfgn:
                break
            e = g.Edge(rng.choice(cfgn), rng.choice(cfgn), g.Edge.Label(T.Sysret, True, True))
            if e not in ir.cfg:
                ir.cfg.add(e)
                ir.cfg.discard(e)
        for p in (g.ProxyBlock(), g.ProxyBlock()):
            e = g.Edge(p, p, None)
            ir.cfg.add(e)
            ir.cfg.remove(e)
        list(ir.byte_blocks_on(0))
        for sec in ir.sections:
            sec.address, sec.size
    N.append(("edge-history:added-and-removed-edges", edge_history))
    return N


def node_spec(g, x):
    """What deep_eq documents as compared for a node of each kind, as a value: own attributes, children by UUID order, and the
    nodes reached through references (a symbol's referent, an expression's symbols, a module's entry point) compared deeply."""
    if x is None:
        return None
    if isinstance(x, g.ProxyBlock):
        return ("P", x.uuid.int)
    if isinstance(x, g.CodeBlock):
        return ("C", x.uuid.int, x.offset, x.size, x.decode_mode.value)
    if isinstance(x, g.DataBlock):
        return ("D", x.uuid.int, x.offset, x.size)
    if isinstance(x, g.Symbol):
        return ("Y", x.uuid.int, x.name, bool(x.at_end), x.value, node_spec(g, x.referent))
    if isinstance(x, g.SymAddrConst):
        return ("AC", x.offset, node_spec(g, x.symbol), tuple(sorted({int(a) if isinstance(a, int) else a.value for a in x.attributes})))
    if isinstance(x, g.SymAddrAddr):
        return ("AA", x.scale, x.offset, node_spec(g, x.symbol1), node_spec(g, x.symbol2),
                tuple(sorted({int(a) if isinstance(a, int) else a.value for a in x.attributes})))
    if isinstance(x, g.ByteInterval):
        return ("BI", x.uuid.int, x.address, bytes(x.contents), x.size,
                tuple(sorted((node_spec(g, b) for b in x.blocks), key=lambda t: t[1])),
                tuple(sorted((k, node_spec(g, e)) for k, e in x.symbolic_expressions.items())))
    if isinstance(x, g.Section):
        return ("S", x.uuid.int, x.name, tuple(sorted(f.value for f in x.flags)),
                tuple(sorted((node_spec(g, b) for b in x.byte_intervals), key=lambda t: t[1])))
    if isinstance(x, g.Module):
        return ("M", x.uuid.int, x.name, x.binary_path, x.isa.value, x.byte_order.value, x.file_format.value, x.preferred_addr, x.rebase_delta,
                tuple(sorted(x.aux_data)), node_spec(g, x.entry_point),
                tuple(sorted((node_spec(g, n) for n in x.proxies), key=lambda t: t[1])),
                tuple(sorted((node_spec(g, n) for n in x.sections), key=lambda t: t[1])),
                tuple(sorted((node_spec(g, n) for n in x.symbols), key=lambda t: t[1])))
    return None


def cfg_spec(g, ir):
    return sorted((repr(node_spec(g, e.source)), repr(node_spec(g, e.target)),
                   repr(None if e.label is None else (e.label.type.value, bool(e.label.conditional), bool(e.label.direct)))) for e in ir.cfg)


def node_level_pairs(ctx, g, a, b, tag, what):
    """every node of a against the node of b with the same UUID and class: deep_eq both ways must equal equality of node_spec;
    and the two CFGs against each other directly (CFG.deep_eq)"""
    try:
        want = sorted(map(repr, cfg_spec(g, a))) == sorted(map(repr, cfg_spec(g, b)))
        xy, yx, other = a.cfg.deep_eq(b.cfg), b.cfg.deep_eq(a.cfg), a.cfg.deep_eq(list(a.cfg))
        ctx.count("cfg_pairs:" + ("equal" if want else "different"))
        if xy is not want or yx is not want or other is not False:
            ctx.add("oracle", "deep_eq-cfg", "after %s the two CFGs are %s (edges with deeply compared endpoints and labels), but a.cfg.deep_eq(b.cfg)=%s, "
                    "b.cfg.deep_eq(a.cfg)=%s, cfg.deep_eq(a list)=%s" % (what, "equal" if want else "different", xy, yx, other), {"tag": tag, "what": what})
    except Exception as e:  # noqa: BLE001
        ctx.add("oracle", "deep_eq-raised:cfg", "CFG.deep_eq raised %s after %s" % (exc_name(g, e), what), {"tag": tag})
    na, nb = nodes_by_uuid(a), nodes_by_uuid(b)
    for u, x in na.items():
        y = nb.get(u)
        if y is None or type(x) is not type(y) or isinstance(x, g.IR):
            continue
        try:
            want = node_spec(g, x) == node_spec(g, y)
            xy, yx = x.deep_eq(y), y.deep_eq(x)
        except Exception as e:  # noqa: BLE001
            ctx.add("oracle", "deep_eq-raised:node", "%s.deep_eq raised %s after %s" % (type(x).__name__, exc_name(g, e), what), {"tag": tag})
            continue
        ctx.count("node_pairs:" + type(x).__name__ + (":equal" if want else ":different"))
        if xy is not want or yx is not want:
            ctx.add("oracle", "deep_eq-node:%s" % type(x).__name__,
                    "after %s the two %s nodes %s are %s in what deep_eq compares, but x.deep_eq(y)=%s, y.deep_eq(x)=%s"
                    % (what, type(x).__name__, x.uuid, "equal" if want else "different", xy, yx),
                    {"tag": tag, "what": what, "node": str(x.uuid), "kind": type(x).__name__,
                     "a": protocheck.save_bytes(a).hex() if _can_save(a) else None})


def _can_save(x):
    try:
        protocheck.save_bytes(x)
        return True
    except Exception:  # noqa: BLE001
        return False


def full_ir(g):
    """one of everything deep_eq compares, so that EVERY kind of the catalogue is applicable on every run"""
    A = g.SymbolicExpression.Attribute
    T = g.Edge.Type
    ir = g.IR()
    ir.aux_data["t"] = g.AuxData([1, 2], "sequence<uint8_t>")
    m1 = g.Module(name="one", binary_path="/bin/one", isa=g.Module.ISA.X64, file_format=g.Module.FileFormat.ELF,
                  byte_order=g.Module.ByteOrder.Little, preferred_addr=4096, rebase_delta=-8, ir=ir)
    m2 = g.Module(name="two", ir=ir)
    m1.aux_data["k"] = g.AuxData("v", "string")
    s1 = g.Section(name="text", flags={g.Section.Flag.Readable, g.Section.Flag.Executable}, module=m1)
    s2 = g.Section(name="data", flags={g.Section.Flag.Writable}, module=m1)
    s3 = g.Section(name="other", module=m2)
    b1 = g.ByteInterval(address=4096, size=32, contents=b"\x01\x02\x03\x04", section=s1)
    b2 = g.ByteInterval(address=None, size=16, contents=b"zz", section=s1)
    b3 = g.ByteInterval(address=0, size=8, section=s2)
    b4 = g.ByteInterval(address=64, size=8, contents=b"q", section=s3)
    c1 = g.CodeBlock(size=2, offset=0, decode_mode=g.CodeBlock.DecodeMode.Thumb, byte_interval=b1)
    c2 = g.CodeBlock(size=1, offset=4, byte_interval=b1)
    d1 = g.DataBlock(size=4, offset=8, byte_interval=b1)
    d2 = g.DataBlock(size=0, offset=0, byte_interval=b2)
    c3 = g.CodeBlock(size=1, offset=0, byte_interval=b3)
    c4 = g.CodeBlock(size=1, offset=0, byte_interval=b4)
    p1, p2 = g.ProxyBlock(module=m1), g.ProxyBlock(module=m2)
    y1 = g.Symbol("code", payload=c1, module=m1)
    y2 = g.Symbol("proxy", payload=p1, at_end=True, module=m1)
    y3 = g.Symbol("value", payload=77, module=m1)
    y4 = g.Symbol("none", module=m1)
    y5 = g.Symbol("unused", payload=d1, module=m1)
    y6 = g.Symbol("far", payload=c4, module=m2)
    b1.symbolic_expressions[0] = g.SymAddrAddr(2, 3, y1, y2, {A.GOT})
    b1.symbolic_expressions[4] = g.SymAddrConst(5, y3, {A.PLT, 31337})
    b1.symbolic_expressions[8] = g.SymAddrAddr(1, 0, y3, y4)
    b2.symbolic_expressions[0] = g.SymAddrConst(0, y1)
    b3.symbolic_expressions[2] = g.SymAddrAddr(4, -1, y4, y1, {A.PCREL})
    b4.symbolic_expressions[1] = g.SymAddrConst(9, y6)
    m1.entry_point = c1
    m2.entry_point = c2          # (a code block of the EARLIER module m1: an entry point across modules)
    L = g.Edge.Label
    for e in (g.Edge(c1, c2, L(T.Branch, True, False)), g.Edge(c1, c2, L(T.Fallthrough)), g.Edge(c1, c2, None), g.Edge(c2, p1, L(T.Call)),
              g.Edge(c3, c3, None), g.Edge(p2, c4, L(T.Return, False, False)), g.Edge(c4, c1, L(T.Syscall))):
        ir.cfg.add(e)
    return ir


def compare_edit_compare(ctx, g):
    """REPETITION: deep_eq is asked, then BOTH sides are edited in the same place -- each gets one new child, the two newcomers
    differing in exactly one compared field, so that counts stay equal -- and deep_eq is asked again: the second answer depends on the
    structures as they are now, not on anything the first comparison left behind.  Every level (IR, module, section, interval) is
    compared both times, in both directions."""
    import uuid as uuidlib
    T, A = g.Edge.Type, g.SymbolicExpression.Attribute
    U = uuidlib.UUID(int=0x5EED5EED5EED5EED5EED5EED5EED5EED)

    def first(it):
        return sorted(it, key=lambda n: n.uuid.int)[0]

    def sites(ir):
        m = first(ir.modules)
        sec = first(m.sections)
        bi = first(b for b in sec.byte_intervals if b.address is not None)
        return m, sec, bi
    def add_at(kind, ir, st, side):
        m, sec, bi = st
        if kind == "block.size":
            g.CodeBlock(uuid=U, offset=20, size=1 + side, byte_interval=bi)
        elif kind == "block.offset":
            g.DataBlock(uuid=U, offset=20 + side, size=1, byte_interval=bi)
        elif kind == "block.kind":
            (g.CodeBlock if side else g.DataBlock)(uuid=U, offset=20, size=1, byte_interval=bi)
        elif kind == "block.uuid":
            g.DataBlock(uuid=uuidlib.UUID(int=U.int + side), offset=20, size=1, byte_interval=bi)
        elif kind == "interval.size":
            g.ByteInterval(uuid=U, address=512, size=4 + side, section=sec)
        elif kind == "interval.address":
            g.ByteInterval(uuid=U, address=512 + side, size=4, section=sec)
        elif kind == "section.name":
            g.Section(uuid=U, name="new%d" % side, module=m)
        elif kind == "symbol.name":
            g.Symbol("new%d" % side, uuid=U, module=m)
        elif kind == "symbol.value":
            g.Symbol("new", uuid=U, payload=7 + side, module=m)
        elif kind == "proxy.uuid":
            g.ProxyBlock(uuid=uuidlib.UUID(int=U.int + side), module=m)
        elif kind == "expression.attributes":
            bi.symbolic_expressions[28] = g.SymAddrConst(1, first(m.symbols), {A.GOT} if side else set())
        elif kind == "edge.label":
            blk = first(k for k in bi.blocks if isinstance(k, g.CodeBlock))
            ir.cfg.add(g.Edge(blk, blk, g.Edge.Label(T.Call, bool(side), False)))
        elif kind == "aux-key":
            m.aux_data["new%d" % side] = g.AuxData(1, "uint8_t")
        elif kind == "module.name":
            ir.modules.append(g.Module(uuid=U, name="new%d" % side))
    kinds = ["block.size", "block.offset", "block.kind", "block.uuid", "interval.size", "interval.address", "section.name", "symbol.name",
             "symbol.value", "proxy.uuid", "expression.attributes", "edge.label", "aux-key", "module.name"]

    def verdicts(pairs):
        return [(nm, x.deep_eq(y), y.deep_eq(x)) for nm, x, y in pairs]
    for kind in kinds:
        a = full_ir(g)
        b = copy_of(g, a)
        ctx.case("compare-edit-compare:" + kind, True)
        ctx.count("compare_edit_compare")
        try:
            # (the places are fixed BEFORE the edit: the same four pairs of objects are compared both times)
            pairs = [("IR", a, b)] + [(nm, x, y) for nm, x, y in zip(("module", "section", "interval"), sites(a), sites(b))]
            sa, sb = sites(a), sites(b)
            before = verdicts(pairs)
            add_at(kind, a, sa, 0)
            add_at(kind, b, sb, 1)
            after = verdicts(pairs)
        except Exception as e:  # noqa: BLE001
            ctx.add("oracle", "deep_eq-raised:" + kind, "compare / edit both sides (%s) / compare raised %s" % (kind, exc_name(g, e)), {"kind": kind})
            continue
        if any(v is not True or w is not True for _, v, w in before):
            ctx.add("oracle", "deep_eq-wrong:save/load copy", "an IR and its save/load copy: %s" % before, {"kind": kind})
            continue
        # the newcomers differ: the IR, and every level that contains the place of the edit, must now differ
        level = {"block": 3, "interval": 2, "section": 1, "symbol": 1, "proxy": 1, "expression": 3, "edge": 0, "aux-key": 1, "module": 0}[kind.split(".")[0]]
        for i, (nm, v, w) in enumerate(after):
            want = not (i <= level)
            if v is not want or w is not want:
                ctx.add("oracle", "deep_eq-wrong:" + kind, "deep_eq was asked (True), then both sides got one new child differing in %s, then it was asked again: "
                        "%s.deep_eq gives %s / %s, expected %s" % (kind, nm, v, w, want), {"kind": kind, "level": nm})
                break


def copy_of(g, ir):
    return protocheck.load_bytes(g, protocheck.save_bytes(ir))


def twins_from_shared_arguments(ctx, g, rng, judge_pair):
    """Two IRs with the same UUIDs built through the API from the SAME mutable argument objects (one bytearray, one flags set, one
    attributes set, one AuxData map, one list of children per kind is never shared -- nodes have one parent): equal at first; an
    in-place edit of ONE side's part (a byte, a flag, an attribute, a table added) makes them different, and an edit of the caller's
    own argument objects afterwards changes neither."""
    import uuid as uuidlib
    for rd in range(6):
        U = [uuidlib.UUID(int=rng.getrandbits(128)) for _ in range(8)]
        buf = bytearray(b"\x01\x02\x03\x04")
        flags = {g.Section.Flag.Readable}
        attrs = {g.SymbolicExpression.Attribute(1)} if 1 in [a.value for a in g.SymbolicExpression.Attribute] else set()
        aux = {"t": g.AuxData([1], "sequence<uint8_t>")}

        def build():
            ir = g.IR(uuid=U[0], aux_data=aux)
            m = g.Module(name="m", uuid=U[1], ir=ir, aux_data=aux)
            sec = g.Section(name="s", uuid=U[2], flags=flags, module=m)
            bi = g.ByteInterval(uuid=U[3], size=8, contents=buf, address=0, section=sec)
            g.CodeBlock(uuid=U[4], size=2, offset=0, byte_interval=bi)
            y = g.Symbol("y", uuid=U[5], module=m)
            bi.symbolic_expressions[1] = g.SymAddrConst(0, y, attrs)
            return ir, m, sec, bi
        (a, ma, sa, bia), (b, mb, sb, bib) = build(), build()
        judge_pair(a, b, "T%d" % rd, "twins built from the same argument objects")
        edits = [("a byte of one side's contents edited in place", lambda: bia.contents.__setitem__(0, bia.contents[0] ^ 0xFF)),
                 ("one side's interval grown through initialized_size", lambda: setattr(bia, "initialized_size", 6)),
                 ("a flag added to one side's section", lambda: sa.flags.add(g.Section.Flag.Writable)),
                 ("an attribute added to one side's expression", lambda: bia.symbolic_expressions[1].attributes.add(4242)),
                 ("a table added to one side's module", lambda: ma.aux_data.__setitem__("extra", g.AuxData(1, "uint8_t"))),
                 ("a table added to one side's IR", lambda: a.aux_data.__setitem__("extra", g.AuxData(1, "uint8_t")))]
        what, f = edits[rd % len(edits)]
        try:
            f()
        except Exception as e:  # noqa: BLE001
            ctx.add("oracle", "deep_eq-raised:shared-arguments", "%s raised %s" % (what, exc_name(g, e)), {})
            continue
        ctx.count("shared_argument_twins")
        judge_pair(a, b, "T%d'" % rd, what)
        # the caller's own objects, edited after both constructions: neither IR may follow
        (c, _, _, bic), (d, _, _, bid) = build(), build()
        before = (bytes(bic.contents), bytes(bid.contents))
        buf[1] ^= 0x55
        flags.add(g.Section.Flag.Executable)
        attrs.add(777)
        aux["later"] = g.AuxData(2, "uint8_t")
        if (bytes(bic.contents), bytes(bid.contents)) != before:
            ctx.add("oracle", "deep_eq-wrong:shared-arguments", "editing the caller's bytearray after construction changed the stored bytes of an interval built from it", {})
        judge_pair(c, d, "T%d''" % rd, "the caller's argument objects edited after both constructions")
        buf[1] ^= 0x55
        flags.discard(g.Section.Flag.Executable)
        attrs.discard(777)
        aux.pop("later", None)


def defaults_are_independent(ctx, g):
    """DEFAULTS: two nodes constructed with everything omitted are two nodes.  Every mutable thing the first one holds is edited IN
    PLACE (its flags, its tables, its collections, its bytes); the second one, and a third constructed afterwards, still compare equal
    -- both ways -- to a node constructed with every default spelled out, and differ from the first wherever a compared field was
    edited."""
    import uuid as uuidlib
    U = uuidlib.UUID(int=77)
    F = g.Section.Flag if hasattr(g.Section, "Flag") else g.SectionFlag
    cases = [
        ("Section", lambda: g.Section(uuid=U), lambda: g.Section(name="", byte_intervals=(), flags=set(), uuid=U),
         [("flags.add", lambda x: x.flags.add(list(F)[0]), True)]),
        ("Module", lambda: g.Module(name="m", uuid=U), lambda: g.Module(name="m", uuid=U, aux_data={}, sections=(), symbols=(), proxies=()),
         [("aux_data[k] = table", lambda x: x.aux_data.__setitem__("k", g.AuxData(1, "uint8_t")), True)]),
        ("IR", lambda: g.IR(uuid=U), lambda: g.IR(uuid=U, modules=(), aux_data={}, cfg=()),
         [("aux_data[k] = table", lambda x: x.aux_data.__setitem__("k", g.AuxData(1, "uint8_t")), True),
          ("cfg.add", lambda x: x.cfg.add(g.Edge(g.ProxyBlock(uuid=uuidlib.UUID(int=5)), g.ProxyBlock(uuid=uuidlib.UUID(int=6)))), True)]),
        ("ByteInterval", lambda: g.ByteInterval(uuid=U), lambda: g.ByteInterval(uuid=U, address=None, size=None, contents=b"", blocks=(), symbolic_expressions={}),
         [("symbolic_expressions[0] = e", lambda x: x.symbolic_expressions.__setitem__(0, g.SymAddrConst(0, g.Symbol("y", uuid=uuidlib.UUID(int=9)))), True),
          ("contents.extend", lambda x: x.contents.extend(b"ab"), True)]),
        ("Symbol", lambda: g.Symbol("y", uuid=U), lambda: g.Symbol("y", uuid=U, payload=None, at_end=False), []),
    ]
    for cname, mk, mk_explicit, edits in cases:
        for ename, edit, compared in edits or [("nothing", lambda x: None, False)]:
            ctx.count("independent_default_cases")
            ctx.case("defaults:%s:%s" % (cname, ename), True)
            try:
                a, b = mk(), mk()
                edit(a)
                c = mk()
                ref = mk_explicit()
                for nm, x in (("a second node built with the same omissions", b), ("a node built afterwards", c)):
                    if not (x.deep_eq(ref) and ref.deep_eq(x)):
                        ctx.add("oracle", "deep_eq-wrong:defaults", "%s with its arguments omitted, after %s on ANOTHER such node: %s no longer compares equal to one built with every default spelled out"
                                % (cname, ename, nm), {"class": cname, "edit": ename})
                        break
                    if compared and (x.deep_eq(a) or a.deep_eq(x)):
                        ctx.add("oracle", "deep_eq-wrong:defaults", "%s with its arguments omitted: after %s on one node, %s still compares equal to it (the edit reached both, or is not seen)"
                                % (cname, ename, nm), {"class": cname, "edit": ename})
                        break
            except Exception as e:  # noqa: BLE001
                ctx.add("oracle", "deep_eq-wrong:defaults", "%s with its arguments omitted, %s: %s" % (cname, ename, exc_name(g, e)), {"class": cname, "edit": ename})


def run(ctx):
    g = gtirb_from_repo.load()
    defaults_are_independent(ctx, g)
    cov = irgen.Cov(ctx)
    n = 40 if ctx.quick else 1200
    per_ir = 6 if ctx.quick else 10
    batch = protocheck.Batch()
    seen_kinds = {}

    def judge_pair(a, b, tag, what):
        ca, cb = content.content_of(g, a), content.content_of(g, b)
        want = spec_canon(ca) == spec_canon(cb)
        try:
            ab, ba = a.deep_eq(b), b.deep_eq(a)
        except Exception as e:  # noqa: BLE001
            ctx.add("oracle", "deep_eq-raised:" + what, "deep_eq raised %s after %s" % (exc_name(g, e), what), {"tag": tag})
            return
        ctx.count("pairs:" + ("equal" if want else "different"))
        if ab is not want or ba is not want:
            ctx.add("oracle", "deep_eq-wrong:" + what, "after %s the contents are %s but a.deep_eq(b)=%s, b.deep_eq(a)=%s" % (what, "equal" if want else "different", ab, ba),
                    {"tag": tag, "a": protocheck.save_bytes(a).hex() if safe_save(a) else None, "what": what})

        def cont(rep):
            if isinstance(rep, tuple) or rep[0] != 0:
                ctx.add("corr", "deep_eq:model-failed", "model failed", {"tag": tag})
                return
            _, mab, mba, na, nb = rep
            if bool(mab) != bool(ab) or bool(mba) != bool(ba):
                ctx.add("corr", "deep_eq:model:" + what, "after %s: implementation %s/%s, model %s/%s" % (what, ab, ba, mab, mba), {"tag": tag, "what": what})
            if (na == nb) != want:
                ctx.add("corr", "deep_eq:spec:" + what, "the model's specification (norm a = norm b) says %s, the content oracle %s" % (na == nb, want), {"tag": tag})
        batch.ask([43, ca, cb], cont)

    def safe_save(x):
        try:
            protocheck.save_bytes(x)
            return True
        except Exception:  # noqa: BLE001
            return False
    twins_from_shared_arguments(ctx, g, ctx.rng, judge_pair)
    # the whole catalogue on a fixed IR holding one of everything, every element of every collection in turn
    fixed = full_ir(g)
    judge_pair(fixed, copy_of(g, fixed), "F", "save/load copy of the fixed IR")
    fixed_kinds = set()
    for idx in range(6):
        choose = lambda l, idx=idx: l[idx % len(l)]  # noqa: E731
        for nm, _ in perturbations(g, ctx.rng, copy_of(g, fixed), choose):
            cp = copy_of(g, fixed)
            todo = dict(perturbations(g, ctx.rng, cp, choose))
            if nm not in todo:
                continue
            # the SAME pair of objects is compared before the change (equal) and after it: a verdict remembered from the first
            # comparison must not survive the change
            try:
                warm = fixed.deep_eq(cp) and cp.deep_eq(fixed)
                na0, nb0 = nodes_by_uuid(fixed), nodes_by_uuid(cp)
                for u0, x0 in na0.items():
                    if u0 in nb0 and not isinstance(x0, g.IR):
                        warm = x0.deep_eq(nb0[u0]) and nb0[u0].deep_eq(x0) and warm
                fixed.cfg.deep_eq(cp.cfg)
                if warm is not True:
                    ctx.add("oracle", "deep_eq-wrong:save/load copy", "the fixed IR and its save/load copy are not deep_eq (whole or node by node)", {"tag": "F"})
            except Exception as e:  # noqa: BLE001
                ctx.add("oracle", "deep_eq-raised:node", "deep_eq raised %s on a save/load copy" % exc_name(g, e), {"tag": "F"})
            try:
                if todo[nm]() is False:
                    continue
            except Exception:  # noqa: BLE001
                continue
            if spec_canon(content.content_of(g, cp)) == spec_canon(content.content_of(g, fixed)):
                continue
            fixed_kinds.add(nm)
            judge_pair(fixed, cp, "F%d:%s" % (idx, nm), nm)
            node_level_pairs(ctx, g, fixed, cp, "F%d:%s" % (idx, nm), nm)
            ctx.case("F%d:%s" % (idx, nm), True)
            ctx.count("fixed_ir_perturbations")
    ctx.cov["perturbation_kinds_on_fixed_ir"] = len(fixed_kinds)
    compare_edit_compare(ctx, g)
    i = 0
    while i < n:
        ir, _ = irgen.gen_ir(g, ctx.rng, cov, n_modules=ctx.rng.choice([1, 2, 3]))
        if protocheck.is_d7(g, ir):
            continue
        i += 1
        base = copy_of(g, ir)
        judge_pair(ir, base, "E%d" % i, "save/load copy")
        ctx.case("E%d" % i + repr(content.content_of(g, ir))[:4000], True)
        # node level: reflexivity, symmetry, other kinds and non-nodes
        na, nb = nodes_by_uuid(ir), nodes_by_uuid(base)
        for u, x in na.items():
            yv = nb.get(u)
            for other, want in ((x, True), (yv, True), (None, False), (42, False), (ir if x is not ir else next(iter(ir.modules), None), False)):
                if other is None and want:
                    continue
                try:
                    r = x.deep_eq(other)
                except Exception as e:  # noqa: BLE001
                    ctx.add("oracle", "deep_eq-raised:node", "%s.deep_eq(%s) raised %s" % (type(x).__name__, type(other).__name__, exc_name(g, e)), {})
                    continue
                if r is not want and not (other is ir and x is ir):
                    ctx.add("oracle", "deep_eq-node:%s" % type(x).__name__, "%s.deep_eq(%s) = %s, expected %s" % (type(x).__name__, type(other).__name__, r, want), {})
            ctx.count("node_level_calls", 4)
        # one perturbation at a time, each on a fresh copy
        cat = perturbations(g, ctx.rng, base)
        names = [nm for nm, _ in cat]
        # prefer kinds exercised least so far
        names.sort(key=lambda nm: (seen_kinds.get(nm, 0), ctx.rng.random()))
        for nm in names[:per_ir]:
            cp = copy_of(g, ir)
            todo = dict(perturbations(g, ctx.rng, cp))
            if nm not in todo:
                continue
            try:
                if todo[nm]() is False:
                    continue
            except Exception:  # noqa: BLE001
                continue
            if spec_canon(content.content_of(g, cp)) == spec_canon(content.content_of(g, ir)):
                ctx.count("perturbation_without_effect")
                continue
            seen_kinds[nm] = seen_kinds.get(nm, 0) + 1
            judge_pair(ir, cp, "P%d:%s" % (i, nm), nm)
            node_level_pairs(ctx, g, ir, cp, "P%d:%s" % (i, nm), nm)
            ctx.case("P%d:%s" % (i, nm), True)
        for nm, f in neutral_changes(g, ctx.rng, copy_of(g, ir))[:0]:
            pass
        cp = copy_of(g, ir)
        for nm, f in neutral_changes(g, ctx.rng, cp):
            f()
            ctx.count("neutral:" + nm.split(":")[0])
        judge_pair(ir, cp, "N%d" % i, "changes that are not compared (AuxData values and type names, module order)")
    batch.run()
    for k, v in sorted(seen_kinds.items()):
        ctx.count("perturbation:" + k, v)
    ctx.cov["perturbation_kinds_exercised"] = len(seen_kinds)
    ctx.cov["traces_validated_against_impl"] = ctx.cov["evaluations"]
    ctx.cov["rule"] = ("%d random self-contained IRs; each compared with its save/load copy (different insertion orders), with copies after one perturbation each (least-exercised "
                       "kinds first, %d per IR, catalogue of ~75 kinds covering every compared field of every class), and with a copy whose AuxData values/type names and module order "
                       "were changed; node-level reflexivity/symmetry/other-kind/non-node calls for every node; non-trivial = every pair" % (n, per_ir))
    ctx.sample({"perturbation_kinds": sorted(seen_kinds)[:12]})


def replay(ctx, path):
    import replaylib
    return replaylib.replay_file(path)
