"""C02 -- writer and reader each agree with the protobuf schema field by field.
W: random self-contained IRs built through the public API -> save -> bytes parsed with the SCHEMA-BUILT classes -> compared field by
   field with to_proto(content_of(IR)) of Model/Proto.v (content_of reads public attributes only); header compared literally;
   vertex list and AuxData bytes judged by direct oracles.
R: messages built DIRECTLY from the descriptors (never through gtirb's writer), every declared enum constant, defaults and
   non-defaults, presence flags both ways, unknown attribute numbers, references in stage order -> load -> content_of ->
   compared with from_proto(message) of Model/Proto.v.
Both under the upb and the pure-Python protobuf backend (separate subprocesses in the thorough tier)."""
import json

import content
import gtirb_from_repo
import irgen
import protocheck

LEVEL = "proof"
TRUSTED = ("the protobuf runtime's wire codec, range checks and presence rules (messages are compared after parsing with classes built from /repo/proto)",)


def enum_sweep_messages(enums):
    """one message per declared constant of every schema enum (C02: 'every enum constant the schema defines is accepted')"""
    ub = content.ub
    out = []
    for name, nums in sorted(enums.items()):
        for v in nums:
            cb, sy, bi, sec, mod, ir = 11, 12, 13, 14, 15, 16
            dm = v if name == "DecodeMode" else 0
            flags = [v] if name == "SectionFlag" else []
            attrs = [v] if name == "SymAttribute" else []
            lab = [0, 1, v] if name == "EdgeType" else []
            m = [ub(mod), [], 0, 0, v if name == "FileFormat" else 0, v if name == "ISA" else 0, [109],
                 [[ub(sy), [], [115], 0]], [],
                 [[ub(sec), [46], [[ub(bi), [[0, [0, ub(cb), 1, dm]]], [[0, [0, 0, ub(sy)], attrs]], 0, 0, 4, []]], flags]],
                 [], [], v if name == "ByteOrder" else 0]
            out.append(("enum:%s=%d" % (name, v), [ub(ir), [m], [], 4, [], [[ub(cb), ub(cb), lab]]]))
    return out


def run(ctx):
    g = gtirb_from_repo.load()
    cov = irgen.Cov(ctx)
    enums = protocheck.schema_enums()
    nw, nr = (60, 120) if ctx.quick else (1500, 3000)
    batch = protocheck.Batch()
    for i in range(nw):
        ir, auxinfo = irgen.gen_ir(g, ctx.rng, cov)
        bs = protocheck.writer_stream(ctx, g, batch, ir, auxinfo, "W%d" % i)
        ctx.case(repr(bs), bs is not None and len(bs) > 60)
    for tag, m in enum_sweep_messages(enums):
        r = protocheck.reader_stream(ctx, g, batch, m, tag)
        ctx.case(tag, True)
        if r and r[0][0] != 0:
            ctx.add("oracle", "reader:enum-rejected", "%s: a constant the schema defines is rejected with %s" % (tag, r[0][1]), {"tag": tag, "file": r[2].hex()})
        ctx.count("enum_constants_swept")
    for i in range(nr):
        m = irgen.gen_message(ctx.rng, enums, cov, version=g.version.PROTOBUF_VERSION)
        r = protocheck.reader_stream(ctx, g, batch, m, "R%d" % i)
        ctx.case(repr(m), r is not None and len(m[1]) > 0)
        if r and r[0][0] != 0:
            ctx.add("oracle", "reader:valid-rejected", "a schema-valid, referentially closed message is rejected with %s" % r[0][1], {"tag": "R%d" % i, "file": r[2].hex()})
    batch.run()
    ctx.cov["traces_validated_against_impl"] = nw + nr
    ctx.cov["backend"] = gtirb_from_repo.backend() if hasattr(gtirb_from_repo, "backend") else "default"
    ctx.cov["rule"] = ("W: %d random self-contained IRs (0-3 modules, random construction orders, boundary values 0 / 2^64-1 / -2^63, address None vs 0, value 0, label None vs "
                       "all-false, non-ASCII names, unknown attribute numbers, every enum constant by random choice, AuxData with node references); R: one message per declared enum "
                       "constant plus %d random schema-valid closed messages built directly from the descriptors; non-trivial = at least one module" % (nw, nr))
    ctx.sample({"writer_tag": "W0", "reader_first": "enum sweep then random messages"})


def replay(ctx, path):
    import replaylib
    return replaylib.replay_file(path)
