"""C02 -- writer and reader each agree with the protobuf schema field by field.
W: random self-contained IRs built through the public API -> save -> bytes parsed with the SCHEMA-BUILT classes -> compared field by
   field with to_proto(content_of(IR)) of Model/Proto.v (content_of reads public attributes only); header compared literally;
   vertex list and AuxData bytes judged by direct oracles.
R: messages built DIRECTLY from the descriptors (never through gtirb's writer), every declared enum constant, defaults and
   non-defaults, presence flags both ways, unknown attribute numbers, references in stage order -> load -> content_of ->
   compared with from_proto(message) of Model/Proto.v.
Both under the upb and the pure-Python protobuf backend (separate subprocesses in the thorough tier)."""
import json

import content
import gtirb_from_repo
import irgen
import protocheck
from common import exc_name

LEVEL = "proof"
TRUSTED = ("the protobuf runtime's wire codec, range checks and presence rules (messages are compared after parsing with classes built from /repo/proto)",)


def enum_sweep_messages(enums):
    """one message per declared constant of every schema enum (C02: 'every enum constant the schema defines is accepted')"""
    ub = content.ub
    out = []
    for name, nums in sorted(enums.items()):
        for v in nums:
            cb, sy, bi, sec, mod, ir = 11, 12, 13, 14, 15, 16
            dm = v if name == "DecodeMode" else 0
            flags = [v] if name == "SectionFlag" else []
            attrs = [v] if name == "SymAttribute" else []
            lab = [0, 1, v] if name == "EdgeType" else []
            m = [ub(mod), [], 0, 0, v if name == "FileFormat" else 0, v if name == "ISA" else 0, [109],
                 [[ub(sy), [], [115], 0]], [],
                 [[ub(sec), [46], [[ub(bi), [[0, [0, ub(cb), 1, dm]]], [[0, [0, 0, ub(sy)], attrs]], 0, 0, 4, []]], flags]],
                 [], [], v if name == "ByteOrder" else 0]
            out.append(("enum:%s=%d" % (name, v), [ub(ir), [m], [], 4, [], [[ub(cb), ub(cb), lab]]]))
    return out


def run(ctx):
    g = gtirb_from_repo.load()
    ctx.scope = {"deny": ("reader:cannot-resave", "loaded")}
    cov = irgen.Cov(ctx)
    enums = protocheck.schema_enums()
    nw, nr = (60, 120) if ctx.quick else (1500, 3000)
    batch = protocheck.Batch()
    for i in range(nw):
        ir, auxinfo = irgen.gen_ir(g, ctx.rng, cov)
        bs = protocheck.writer_stream(ctx, g, batch, ir, auxinfo, "W%d" % i)
        ctx.case(repr(bs), bs is not None and len(bs) > 60)
        if bs is not None and i % 2 == 0:
            # the same IR written AGAIN after in-place edits of the objects it already holds (one to three changes from the catalogue
            # of C18: every compared field of every class): each field of the second file carries the attribute's value as it is now
            from props import c18
            applied = []
            for _ in range(ctx.rng.choice([1, 2, 3])):
                P = [(nm, f) for nm, f in c18.perturbations(g, ctx.rng, ir) if not any(w in nm for w in ("aux", "removed", "swapped", "module-added", "uuid"))]
                if not P:
                    break
                nm, f = ctx.rng.choice(P)
                try:
                    if f() is not False:
                        applied.append(nm)
                except Exception:  # noqa: BLE001
                    pass
            if applied and not protocheck.is_d7(g, ir):
                ctx.count("second_save_after_edits")
                n0 = len(ctx.findings) if hasattr(ctx, "findings") else None
                bs2 = protocheck.writer_stream(ctx, g, batch, ir, auxinfo, "W%d after %s" % (i, "+".join(applied)))
                ctx.case(repr(bs2), True)
        if bs is not None and i % 3 == 1 and not protocheck.is_d7(g, ir):
            # the same IR written again after a HISTORY of its CFG that leaves the structure as it was: edges are added -- between its
            # own nodes, to a proxy that belongs to nothing, to a block that joins for the occasion -- and removed again (discard,
            # remove, -=, ^=; not clear), the visiting block leaves.  What is written depends on what the IR holds now, not on
            # what its graph once touched: the vertex list names the CFG nodes of the IR, neither more nor fewer
            rng = ctx.rng
            nodes = list(ir.cfg_nodes)
            bis = [bi for m in ir.modules for sec in m.sections for bi in sec.byte_intervals]
            stranger = g.ProxyBlock()
            visitor = g.CodeBlock(size=0, offset=0)
            if bis:
                visitor.byte_interval = rng.choice(bis)
            pool = nodes + [stranger] + ([visitor] if bis else [])
            added = []
            for _ in range(rng.choice([1, 2, 3, 4])):
                a, b = rng.choice(pool), rng.choice(pool)
                e = g.Edge(a, b, rng.choice([None, g.EdgeLabel(g.EdgeType.Branch, False, True)]))
                if e not in ir.cfg:
                    ir.cfg.add(e)
                    added.append(e)
            how = rng.choice(["discard", "remove", "isub", "ixor"])
            if how == "isub":
                ir.cfg -= set(added)
            elif how == "ixor":
                ir.cfg ^= set(added)
            else:
                for e in added:
                    getattr(ir.cfg, how)(e)
            visitor.byte_interval = None
            ctx.count("second_save_after_cfg_history:" + how)
            bs3 = protocheck.writer_stream(ctx, g, batch, ir, auxinfo, "W%d after a CFG history (%d edges added and removed by %s)" % (i, len(added), how))
            ctx.case(repr(bs3), True)
    enum_by_name_oracle(ctx, g)
    aux_field_scenarios(ctx, g)
    forward_references(ctx, g)
    for tag, m in enum_sweep_messages(enums):
        r = protocheck.reader_stream(ctx, g, batch, m, tag)
        ctx.case(tag, True)
        if r and r[0][0] != 0:
            ctx.add("oracle", "reader:enum-rejected", "%s: a constant the schema defines is rejected with %s" % (tag, r[0][1]), {"tag": tag, "file": r[2].hex()})
        ctx.count("enum_constants_swept")
    for i in range(nr):
        m = irgen.gen_message(ctx.rng, enums, cov, version=g.version.PROTOBUF_VERSION)
        r = protocheck.reader_stream(ctx, g, batch, m, "R%d" % i)
        ctx.case(repr(m), r is not None and len(m[1]) > 0)
        if r and r[0][0] != 0:
            ctx.add("oracle", "reader:valid-rejected", "a schema-valid, referentially closed message is rejected with %s" % r[0][1], {"tag": "R%d" % i, "file": r[2].hex()})
    batch.run()
    ctx.cov["traces_validated_against_impl"] = nw + nr
    ctx.cov["backend"] = gtirb_from_repo.backend() if hasattr(gtirb_from_repo, "backend") else "default"
    ctx.cov["rule"] = ("W: %d random self-contained IRs (0-3 modules, random construction orders, boundary values 0 / 2^64-1 / -2^63, address None vs 0, value 0, label None vs "
                       "all-false, non-ASCII names, unknown attribute numbers, every enum constant by random choice, AuxData with node references); R: one message per declared enum "
                       "constant plus %d random schema-valid closed messages built directly from the descriptors; non-trivial = at least one module" % (nw, nr))
    ctx.sample({"writer_tag": "W0", "reader_first": "enum sweep then random messages"})


def forward_references(ctx, g):
    """Known finding (recorded, not repaired; the same single-pass, module-by-module decoding as D7): a referentially closed message in
    which a reference of module N names a node defined in a LATER module -- an entry point, a symbol referent, the symbol of a
    symbolic expression -- is rejected with DeserializationError, although every reference resolves inside the message (the library's
    own writer produces such messages).  The mirrored message (the later module referring to the earlier one) loads (control)."""
    import io
    for kind in ("entry-point", "symbol-referent", "expression-symbol"):
        for forward in (True, False):
            ir = g.IR()
            a, b = g.Module(name="a", ir=ir), g.Module(name="b", ir=ir)
            src, dst = (a, b) if forward else (b, a)
            bi_src = g.ByteInterval(size=8, section=g.Section(name="s", module=src))
            bi_dst = g.ByteInterval(size=8, section=g.Section(name="s", module=dst))
            blk = g.CodeBlock(size=1, byte_interval=bi_dst)
            if kind == "entry-point":
                src.entry_point = blk
            elif kind == "symbol-referent":
                g.Symbol("callee", payload=blk, module=src)
            else:
                bi_src.symbolic_expressions[0] = g.SymAddrConst(0, g.Symbol("y", module=dst))
            buf = io.BytesIO()
            ir.save_protobuf_file(buf)
            ctx.case("forward-reference:%s:%s" % (kind, forward), True)
            try:
                ir2 = g.IR.load_protobuf_file(io.BytesIO(buf.getvalue()))
                ok = ir.deep_eq(ir2)
                if not ok:
                    ctx.add("oracle", "reader-field:cross-module-reference", "a message with a cross-module %s loads, but not to the same content" % kind, {"file": buf.getvalue().hex()})
            except Exception as e:  # noqa: BLE001
                ctx.add("oracle", "forward-reference-later-module" if forward else "reader:closed-message-rejected",
                        "a referentially closed message whose %s in module %s names a node of %s module is rejected with %s"
                        % (kind, "1" if forward else "2", "a LATER" if forward else "an EARLIER", exc_name(g, e)), {"kind": kind, "file": buf.getvalue().hex()})


def aux_field_scenarios(ctx, g):
    """the aux_data entries of the written message carry the table's CURRENT type name and the encoding of its CURRENT value under
    that name -- also for a table that came from a file and was given another type name (without / after being read), at IR and at
    module level"""
    import io
    IRm = gtirb_from_repo.msg("IR")
    cases = [([1, 2, 3], "sequence<uint8_t>", "sequence<uint16_t>", (3).to_bytes(8, "little") + b"\x01\0\x02\0\x03\0"),
             (7, "uint8_t", "int32_t", (7).to_bytes(4, "little")),
             ({"k": 1}, "mapping<string,int16_t>", "mapping<string,uint64_t>", (1).to_bytes(8, "little") + (1).to_bytes(8, "little") + b"k" + (1).to_bytes(8, "little")),
             ([], "sequence<uint8_t>", "sequence<string>", (0).to_bytes(8, "little"))]
    for where in ("ir", "module"):
        for read_first in (False, True):
            for v, t1, t2, want in cases:
                ir = g.IR()
                m = g.Module(name="m", ir=ir)
                (ir if where == "ir" else m).aux_data["t"] = g.AuxData(v, t1)
                ir2 = g.IR.load_protobuf_file(io.BytesIO(protocheck.save_bytes(ir)))
                cont = ir2 if where == "ir" else next(iter(ir2.modules))
                ad = cont.aux_data["t"]
                if read_first:
                    ad.data
                ad.type_name = t2
                ctx.case("aux-field:%s:%s:%s->%s" % (where, read_first, t1, t2), True)
                ctx.count("aux_field_scenarios")
                try:
                    p = IRm()
                    p.ParseFromString(protocheck.save_bytes(ir2)[8:])
                    e = (p if where == "ir" else p.modules[0]).aux_data["t"]
                    got = (e.type_name, bytes(e.data))
                except Exception as ex:  # noqa: BLE001
                    got = ("raised", exc_name(g, ex))
                if got != (t2, want):
                    ctx.add("oracle", "writer:aux-bytes", "a loaded %s-level table of type %s, given the type name %s %s, is written as %s %s; its value %r under its "
                            "current type name encodes to %s" % (where, t1, t2, "after being read" if read_first else "without being read", got[0],
                                                                 got[1].hex() if isinstance(got[1], bytes) else got[1], v, want.hex()),
                            {"type_name": t2, "was": t1, "read_first": read_first, "level": where})


def enum_by_name_oracle(ctx, g):
    """Each direction on its own against the schema's NAME -> number table (descriptors built from /repo/proto): a module / section /
    block / edge / expression carrying the member named N is WRITTEN with the number the schema gives the constant N is named
    after, and a foreign message carrying that number is READ as the member named N.  (Comparing with member.value would agree with
    itself; two members with exchanged numbers still round-trip.)"""
    import io
    pool = gtirb_from_repo.pool()
    sch = {}
    for fname in ("CFG", "CodeBlock", "Module", "Section", "SymbolicExpression"):
        for name, ed in pool.FindFileByName(fname + ".proto").enum_types_by_name.items():
            sch[name] = {v.name: v.number for v in ed.values}

    def schema_number(ename, pyname):
        tbl = sch[ename]
        hits = [n for sn, n in tbl.items() if sn == pyname or sn.endswith("_" + pyname) or sn == pyname + "Endian"]
        return hits[0] if len(set(hits)) == 1 else None
    IRm = gtirb_from_repo.msg("IR")

    def build(isa=None, ff=None, bo=None, flag=None, dm=None, et=None, attr=None):
        ir = g.IR()
        kw = {}
        if isa is not None:
            kw["isa"] = isa
        if ff is not None:
            kw["file_format"] = ff
        if bo is not None:
            kw["byte_order"] = bo
        m = g.Module(name="m", ir=ir, **kw)
        s = g.Section(name="s", module=m, flags=({flag} if flag is not None else set()))
        bi = g.ByteInterval(size=8, section=s)
        cb = g.CodeBlock(size=1, byte_interval=bi, **({"decode_mode": dm} if dm is not None else {}))
        y = g.Symbol("y", module=m)
        if attr is not None:
            bi.symbolic_expressions[0] = g.SymAddrConst(0, y, {attr})
        if et is not None:
            ir.cfg.add(g.Edge(cb, cb, g.Edge.Label(et)))
        return ir
    sites = [
        ("ISA", g.Module.ISA, "isa", lambda p: p.modules[0].isa, lambda ir: next(iter(ir.modules)).isa),
        ("FileFormat", g.Module.FileFormat, "ff", lambda p: p.modules[0].file_format, lambda ir: next(iter(ir.modules)).file_format),
        ("ByteOrder", g.Module.ByteOrder, "bo", lambda p: p.modules[0].byte_order, lambda ir: next(iter(ir.modules)).byte_order),
        ("SectionFlag", g.Section.Flag, "flag", lambda p: list(p.modules[0].sections[0].section_flags)[0],
         lambda ir: next(iter(next(iter(next(iter(ir.modules)).sections)).flags))),
        ("DecodeMode", g.CodeBlock.DecodeMode, "dm", lambda p: p.modules[0].sections[0].byte_intervals[0].blocks[0].code.decode_mode,
         lambda ir: next(iter(ir.code_blocks)).decode_mode),
        ("EdgeType", g.Edge.Type, "et", lambda p: p.cfg.edges[0].label.type, lambda ir: next(iter(ir.cfg)).label.type),
        ("SymAttribute", g.SymbolicExpression.Attribute, "attr",
         lambda p: list(p.modules[0].sections[0].byte_intervals[0].symbolic_expressions[0].attribute_flags)[0],
         lambda ir: next(iter(next(iter(ir.byte_intervals)).symbolic_expressions[0].attributes))),
    ]
    for ename, cls, kwname, read_field, read_attr in sites:
        for pyname, member in cls.__members__.items():
            want = schema_number(ename, pyname)
            ctx.case("enum-by-name:%s.%s" % (ename, pyname), True)
            ctx.count("enum_members_by_name")
            if want is None:
                ctx.add("oracle", "enum-name:unmatched", "%s.%s is named after no (or several) constants of the schema enum %s" % (cls.__name__, pyname, ename),
                        {"enum": ename, "member": pyname})
                continue
            try:
                ir = build(**{kwname: member})
                bs = protocheck.save_bytes(ir)
                p = IRm()
                p.ParseFromString(bs[8:])
                got = read_field(p)
            except Exception as e:  # noqa: BLE001
                ctx.add("oracle", "enum-name:writer", "saving an IR that uses %s.%s raised %s" % (cls.__name__, pyname, exc_name(g, e)), {"enum": ename, "member": pyname})
                continue
            if got != want:
                ctx.add("oracle", "enum-name:writer", "%s.%s is written as %d; the schema constant it is named after has number %d" % (cls.__name__, pyname, got, want),
                        {"enum": ename, "member": pyname, "file": bs.hex(), "written": got, "schema": want})
            # reader: the same message with the schema's number for that name (built at message level)
            try:
                if kwname == "isa":
                    p.modules[0].isa = want
                elif kwname == "ff":
                    p.modules[0].file_format = want
                elif kwname == "bo":
                    p.modules[0].byte_order = want
                elif kwname == "flag":
                    del p.modules[0].sections[0].section_flags[:]
                    p.modules[0].sections[0].section_flags.append(want)
                elif kwname == "dm":
                    p.modules[0].sections[0].byte_intervals[0].blocks[0].code.decode_mode = want
                elif kwname == "et":
                    p.cfg.edges[0].label.type = want
                else:
                    se = p.modules[0].sections[0].byte_intervals[0].symbolic_expressions[0]
                    del se.attribute_flags[:]
                    se.attribute_flags.append(want)
                f = bs[:8] + p.SerializeToString()
                ir2 = g.IR.load_protobuf_file(io.BytesIO(f))
                back = read_attr(ir2)
            except Exception as e:  # noqa: BLE001
                ctx.add("oracle", "enum-name:reader", "a message carrying the schema number %d of %s (%s) is not loaded: %s" % (want, ename, pyname, exc_name(g, e)),
                        {"enum": ename, "member": pyname})
                continue
            if getattr(back, "name", None) not in (pyname,) and back is not member:
                ctx.add("oracle", "enum-name:reader", "schema number %d of enum %s is read as %r; the constant with that number is the one %s.%s is named after"
                        % (want, ename, back, cls.__name__, pyname), {"enum": ename, "member": pyname, "file": f.hex()})


def replay(ctx, path):
    import replaylib
    return replaylib.replay_file(path)
