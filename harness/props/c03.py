"""C03 -- UUID lookup finds exactly the nodes currently attached to that IR.
Direct oracle: world.oracle_cache (get_by_uuid vs reachability through the public containment attributes, for every
IR and every UUID of the pool plus never-used ones) after every operation, and on IRs produced by load.
Correspondence: the per-IR table of Model/World.v queried for the same UUIDs."""
import io
import json

import gtirb_from_repo
import world
import worldgen

LEVEL = "proof"
TRUSTED = ("dict semantics of the per-IR table are CPython's; UUIDs in one history are pairwise distinct (the property's premise)",)


def gen_history(g, rng, length):
    h = worldgen.Hist(g, rng, {})
    h.setup_pool()
    h.build_some_structure(rng.choice([0.3, 0.7, 0.9]))
    for _ in range(length):
        r = rng.random()
        n0 = len(h.items)
        if r < 0.35:
            h.op_setparent()
        elif r < 0.7:
            h.op_set()
        elif r < 0.95:
            h.op_mods()
        else:
            h.op_new_with_children()
        if len(h.items) == n0:
            continue
        bad = world.oracle_cache(h.w, h.uuids + [1, (1 << 128) - 1])
        if bad:
            h.problems.append((len(h.items) - 1, bad))
            break
        if rng.random() < 0.5:
            h.observe_cache()
    h.observe_cache()
    return h


def load_stream(ctx, g, h):
    """save every IR of the final state, load it twice: each copy must answer for exactly its own nodes"""
    import uuid as uuidlib
    for n in h.by_kind["IR"]:
        ir = h.w.obj[n]
        buf = io.BytesIO()
        try:
            ir.save_protobuf_file(buf)
        except Exception:  # noqa: BLE001
            continue           # not self-contained (e.g. symbol referent outside): outside this stream
        try:
            copies = [g.IR.load_protobuf_file(io.BytesIO(buf.getvalue())) for _ in range(2)]
        except Exception:  # noqa: BLE001
            ctx.count("load_skipped_not_self_contained")
            continue
        for cp in copies:
            r = world.reach(g, cp)
            by = {x.uuid.int: x for x in r}
            for u in h.uuids + [1]:
                got = cp.get_by_uuid(uuidlib.UUID(int=u))
                ctx.count("load_lookups")
                if got is not by.get(u):
                    ctx.add("oracle", "loaded-cache", "after load get_by_uuid(%x) is %r, containment gives %r" % (u, got, by.get(u)),
                            {"file": buf.getvalue().hex(), "uuid": "%x" % u})
        # no leakage between the two copies
        for x in world.reach(g, copies[0]):
            y = copies[1].get_by_uuid(x.uuid)
            if y is x:
                ctx.add("oracle", "leak-between-irs", "a node of one loaded copy is found through the other", {"file": buf.getvalue().hex()})


def run(ctx):
    g = gtirb_from_repo.load()
    nh, ln = (60, 30) if ctx.quick else (1200, 60)
    hists = []
    for _ in range(nh):
        h = gen_history(g, ctx.rng, ln)
        hists.append(h)
        ctx.case(repr(h.items), True)
        for it in h.items:
            if it[0] == 43:
                ctx.count("get_by_uuid_observations")
            elif it[0] != 1:
                ctx.count("mutations")
        for (idx, bad) in h.problems:
            ctx.add("oracle", "cache-wrong:item%d" % h.items[idx][0], "after %s: %s" % (h.items[idx], "; ".join(bad[:3])),
                    {"items": h.items[: idx + 1], "problems": bad[:10]})
        if not h.problems:
            load_stream(ctx, g, h)
    for shape in ("setitem-same-list", "setslice-same-list"):
        w, us = world.d4_probe(g, shape)
        bad = world.oracle_cache(w, us)
        ctx.case("d4:" + shape, True)
        if bad:
            ctx.add("oracle", "listwrapper-" + shape, "ir.modules assignment of a module already in the same list: " + "; ".join(bad[:2]),
                    {"shape": shape, "problems": bad})
    worldgen.compare(ctx, hists, "cache", "C03 uuid table correspondence")
    import loadedworld
    lh = loadedworld.stream(ctx, g, ctx.rng, 12 if ctx.quick else 300, 15 if ctx.quick else 30, "loaded")
    ctx.cov["histories_continued_from_loaded_files"] = len(lh)
    ctx.cov["histories"] = nh
    ctx.cov["traces_validated_against_impl"] = nh
    ctx.cov["rule"] = ("random attach/detach/move histories of %d ops over 2 IRs (pool as C04), get_by_uuid observed for every pool UUID on every IR; "
                       "final states saved and loaded twice; one evaluation = one history" % ln)
    ctx.sample({"history_prefix": hists[0].items[24:30]})


def replay(ctx, path):
    import replaylib
    return replaylib.replay_file(path)
