"""C03 -- UUID lookup finds exactly the nodes currently attached to that IR.
Direct oracle: world.oracle_cache (get_by_uuid vs reachability through the public containment attributes, for every
IR and every UUID of the pool plus never-used ones) after every operation, and on IRs produced by load.
Correspondence: the per-IR table of Model/World.v queried for the same UUIDs."""
import io
import json

import gtirb_from_repo
import world
import worldgen
from common import exc_name

LEVEL = "proof"
TRUSTED = ("dict semantics of the per-IR table are CPython's; UUIDs in one history are pairwise distinct (the property's premise)",)


def gen_history(g, rng, length):
    h = worldgen.Hist(g, rng, {})
    h.setup_pool()
    h.build_some_structure(rng.choice([0.3, 0.7, 0.9]))
    for _ in range(length):
        r = rng.random()
        n0 = len(h.items)
        if r < 0.35:
            h.op_setparent()
        elif r < 0.7:
            h.op_set()
        elif r < 0.95:
            h.op_mods()
        else:
            h.op_new_with_children()
        if getattr(h, "dead", False):
            h.problems.append((len(h.items) - 1, ["a constructor given children raised (%s): the children it had taken are left attached to an object that was never returned" % (h.ctor_error,)]))
            break
        if len(h.items) == n0:
            continue
        bad = world.oracle_cache(h.w, h.uuids + [1, (1 << 128) - 1])
        if bad:
            h.problems.append((len(h.items) - 1, bad))
            break
        if rng.random() < 0.5:
            h.observe_cache()
    h.observe_cache()
    return h


def load_stream(ctx, g, h):
    """save every IR of the final state, load it twice: each copy must answer for exactly its own nodes"""
    import uuid as uuidlib
    for n in h.by_kind["IR"]:
        ir = h.w.obj[n]
        buf = io.BytesIO()
        try:
            ir.save_protobuf_file(buf)
        except Exception:  # noqa: BLE001
            continue           # not self-contained (e.g. symbol referent outside): outside this stream
        try:
            copies = [g.IR.load_protobuf_file(io.BytesIO(buf.getvalue())) for _ in range(2)]
        except Exception:  # noqa: BLE001
            ctx.count("load_skipped_not_self_contained")
            continue
        for cp in copies:
            r = world.reach(g, cp)
            by = {x.uuid.int: x for x in r}
            for u in h.uuids + [1]:
                got = cp.get_by_uuid(uuidlib.UUID(int=u))
                ctx.count("load_lookups")
                if got is not by.get(u):
                    ctx.add("oracle", "loaded-cache", "after load get_by_uuid(%x) is %r, containment gives %r" % (u, got, by.get(u)),
                            {"file": buf.getvalue().hex(), "uuid": "%x" % u})
        # no leakage between the two copies
        for x in world.reach(g, copies[0]):
            y = copies[1].get_by_uuid(x.uuid)
            if y is x:
                ctx.add("oracle", "leak-between-irs", "a node of one loaded copy is found through the other", {"file": buf.getvalue().hex()})


def deepcopy_stream(ctx, g, h):
    """'independently for every IR in the process': copy.deepcopy(ir) gives another IR of the process (where the library supports
    it at all).  The copy answers for exactly its own nodes, right after the copy and after a module was detached from the copy and
    another one from the original; nothing of one is found through the other."""
    import copy
    for n in h.by_kind["IR"]:
        ir = h.w.obj[n]
        try:
            cp = copy.deepcopy(ir)
        except Exception:  # noqa: BLE001
            ctx.count("deepcopy_unsupported")
            continue
        ctx.count("deepcopies")

        def exact(which, x, stage):
            r = world.reach(g, x)
            mine = {id(y) for y in r}
            for y in r:
                got = x.get_by_uuid(y.uuid)
                if got is not y:
                    return "%s, %s: get_by_uuid(uuid of its own %s) gives %s" % (which, stage, type(y).__name__, "None" if got is None else
                                                                              ("a node of the other IR" if id(got) not in mine else "another node"))
            return None
        bad = exact("the deep copy", cp, "right after copy.deepcopy") or exact("the original", ir, "after it was deep-copied")
        if not bad and len(cp.modules) and len(ir.modules):
            gone_cp, gone_ir = cp.modules[0], ir.modules[-1]
            cp.modules.remove(gone_cp)
            bad = exact("the deep copy", cp, "after a module was removed from the copy") or exact("the original", ir, "after a module was removed from the copy")
            if not bad and cp.get_by_uuid(gone_cp.uuid) is not None:
                bad = "the deep copy still finds the module removed from it"
            cp.modules.append(gone_cp)
            bad = bad or exact("the deep copy", cp, "after the module was appended to the copy again")
        if bad:
            ctx.add("oracle", "deepcopy-cache", bad, {"items": h.items})
        else:
            ctx.count("twin_swaps_by_one_operator", world.twin_swaps(
                g, ir, cp, ctx.rng, lambda p: ctx.add("oracle", "twin-swap-cache", p, {"items": h.items})))


def any_block_scenario(ctx, g, rng, rounds):
    """Containment is by `interval.blocks`, whatever the class of a member: bare gtirb.ByteBlock objects and user subclasses of the
    block classes, proxies, symbols, sections and modules take part in whole-subtree attaches, detaches and moves at every level;
    after each step every IR answers get_by_uuid exactly for what it contains."""
    class MyCode(g.CodeBlock):
        pass

    class MyByte(g.ByteBlock):
        pass

    class MySym(g.Symbol):
        pass
    for rd in range(rounds):
        irs = [g.IR(), g.IR()]
        mods = [g.Module(name="m%d" % i) for i in range(3)]
        secs = [g.Section(name="s%d" % i) for i in range(3)]
        bis = [g.ByteInterval(size=32, address=rng.choice([None, 0, 64])) for _ in range(3)]
        blocks = [cls(size=2, offset=4 * i) for i, cls in enumerate((g.CodeBlock, g.DataBlock, g.ByteBlock, MyCode, MyByte, g.ByteBlock))]
        others = [g.ProxyBlock(), MySym("y"), g.Symbol("z")]
        everything = irs + mods + secs + bis + blocks + others
        steps = []

        def check(what):
            steps.append(what)
            for k, ir in enumerate(irs):
                inside = {id(x): x for x in world.reach(g, ir)}
                for x in everything:
                    got = ir.get_by_uuid(x.uuid)
                    want = x if id(x) in inside else None
                    if got is not want:
                        ctx.add("oracle", "any-block-cache", "after %s: ir%d.get_by_uuid(uuid of a %s) gives %s, containment gives %s"
                                % (what, k, type(x).__name__, type(got).__name__ if got is not None else None, type(want).__name__ if want is not None else None),
                                {"steps": list(steps)})
                        return False
            return True
        ok = True
        # most of the structure exists before any module meets an IR, so that whole populated subtrees are attached and moved
        for b in blocks:
            if rng.random() < 0.8:
                b.byte_interval = rng.choice(bis)
        for bi in bis:
            if rng.random() < 0.8:
                bi.section = rng.choice(secs)
        for sec in secs:
            if rng.random() < 0.8:
                sec.module = rng.choice(mods)
        for o in others:
            if rng.random() < 0.7:
                o.module = rng.choice(mods)
        if not check("initial structure (no module in an IR yet)"):
            continue
        for st in range(14):
            r = rng.random() if st % 2 else 0.7 + 0.3 * rng.random()
            try:
                if r < 0.3:
                    b, bi = rng.choice(blocks), rng.choice(bis + [None])
                    if rng.random() < 0.5 or bi is None:
                        b.byte_interval = bi
                    else:
                        bi.blocks.update(x for x in [b, rng.choice(blocks)])
                    what = "a %s joins interval %s" % (type(b).__name__, bi is not None and bis.index(bi))
                elif r < 0.45:
                    bi, s = rng.choice(bis), rng.choice(secs + [None])
                    bi.section = s
                    what = "interval -> section %s" % (s is not None and secs.index(s))
                elif r < 0.6:
                    s, m = rng.choice(secs), rng.choice(mods + [None])
                    s.module = m
                    what = "section -> module %s" % (m is not None and mods.index(m))
                elif r < 0.7:
                    o, m = rng.choice(others), rng.choice(mods + [None])
                    o.module = m
                    what = "%s -> module %s" % (type(o).__name__, m is not None and mods.index(m))
                else:
                    m, ir = rng.choice(mods), rng.choice(irs)
                    q = rng.random()
                    if q < 0.3:
                        m.ir = rng.choice([ir, None])
                        what = "module.ir assigned"
                    elif q < 0.5:
                        ir.modules.append(m)
                        what = "modules.append"
                    elif q < 0.65:
                        ir.modules.insert(0, m)
                        what = "modules.insert"
                    elif q < 0.8 and m in ir.modules:
                        ir.modules.remove(m)
                        what = "modules.remove"
                    elif q < 0.9:
                        del ir.modules[:]
                        what = "del modules[:]"
                    else:
                        ir.modules.extend(iter([m, rng.choice(mods)]))
                        what = "modules.extend"
            except Exception as e:  # noqa: BLE001
                ctx.add("oracle", "any-block-cache", "step raised %s" % type(e).__name__, {"steps": list(steps)})
                ok = False
                break
            ctx.count("any_block_steps")
            if not check(what):
                ok = False
                break
        ctx.case("any-block:%d:%s" % (rd, steps), True)


def accepted_files_have_exact_table(ctx, g, rng, n):
    """'... and for IRs produced by loading a file': whatever file load ACCEPTS.  Messages in which one node carries the UUID of another
    (an ancestor, a sibling, a node of another module) are handed to the loader; refusing them is the loader's business (C17), but an
    IR that comes back must have an exact UUID table: every node reachable through containment is found under its UUID, and under no
    UUID a node that is not reachable."""
    import content
    import faults
    import irgen
    import protocheck
    enums = protocheck.schema_enums()
    cov = irgen.Cov(ctx)
    hdr = bytes(list(b"GTIRB\0\0") + [g.version.PROTOBUF_VERSION])
    for i in range(n):
        m = irgen.gen_message(rng, enums, cov, version=g.version.PROTOBUF_VERSION)
        if not m[1]:
            continue
        for sig, fm, want in faults.structural_faults(m, rng, enums):
            if not sig.startswith("dup-"):
                continue
            try:
                bs = hdr + content.sx_to_msg(fm).SerializeToString()
            except Exception:  # noqa: BLE001
                continue
            ctx.case("dupfile:" + sig + repr(fm), True)
            try:
                ir = protocheck.load_bytes(g, bs)
            except BaseException as e:  # noqa: BLE001
                if isinstance(e, (KeyboardInterrupt, SystemExit)):
                    raise
                ctx.count("duplicate_uuid_file:refused")
                continue
            ctx.count("duplicate_uuid_file:accepted")
            try:
                nodes = content.reach(ir)
                for nd in nodes:
                    got = ir.get_by_uuid(nd.uuid)
                    if got is not nd:
                        ctx.add("oracle", "loaded-table-inexact", "load accepted a file (%s) and returned an IR in which get_by_uuid(uuid of the attached %s) gives %s"
                                % (sig.split("=")[0], type(nd).__name__, "None" if got is None else "another node, a " + type(got).__name__), {"tag": sig, "file": bs.hex()})
                        break
            except Exception as e:  # noqa: BLE001
                ctx.add("oracle", "loaded-table-inexact", "load accepted a file (%s) whose IR cannot be walked: %s" % (sig, exc_name(g, e)), {"tag": sig, "file": bs.hex()})


def run(ctx):
    g = gtirb_from_repo.load()
    accepted_files_have_exact_table(ctx, g, ctx.rng, 10 if ctx.quick else 200)
    any_block_scenario(ctx, g, ctx.rng, 30 if ctx.quick else 600)
    nh, ln = (60, 30) if ctx.quick else (1200, 60)
    hists = []
    for _ in range(nh):
        h = gen_history(g, ctx.rng, ln)
        hists.append(h)
        ctx.case(repr(h.items), True)
        for it in h.items:
            if it[0] == 43:
                ctx.count("get_by_uuid_observations")
            elif it[0] != 1:
                ctx.count("mutations")
        for (idx, bad) in h.problems:
            ctx.add("oracle", "cache-wrong:item%d" % h.items[idx][0], "after %s: %s" % (h.items[idx], "; ".join(bad[:3])),
                    {"items": h.items[: idx + 1], "problems": bad[:10]})
        if not h.problems:
            load_stream(ctx, g, h)
            deepcopy_stream(ctx, g, h)
    for shape in ("setitem-same-list", "setslice-same-list", "setslice-repeated-value"):
        w, us = world.d4_probe(g, shape)
        bad = world.oracle_cache(w, us)
        ctx.case("d4:" + shape, True)
        if bad:
            ctx.add("oracle", "listwrapper-" + shape, "ir.modules assignment of a module already in the same list / named twice in the assigned list: " + "; ".join(bad[:2]),
                    {"shape": shape, "problems": bad})
    worldgen.compare(ctx, hists, "cache", "C03 uuid table correspondence")
    # equal UUIDs in different IRs (outside World.v's guard): Model/TwinCache.v against two loads of one file
    import twinleg
    twinleg.run(ctx, g, ctx.rng, 40 if ctx.quick else 800, 25 if ctx.quick else 40, "twin-cache-model")
    for _ in range(40 if ctx.quick else 800):
        twinleg.modules_scenario(ctx, g, ctx.rng, 20 if ctx.quick else 40, "twin-cache-model")
    import loadedworld
    lh = loadedworld.stream(ctx, g, ctx.rng, 12 if ctx.quick else 300, 15 if ctx.quick else 30, "loaded", what={"cache", "forest"})
    ctx.cov["histories_continued_from_loaded_files"] = len(lh)
    ctx.cov["histories"] = nh
    ctx.cov["traces_validated_against_impl"] = nh
    ctx.cov["rule"] = ("random attach/detach/move histories of %d ops over 2 IRs (pool as C04), get_by_uuid observed for every pool UUID on every IR; "
                       "final states saved and loaded twice; one evaluation = one history" % ln)
    ctx.sample({"history_prefix": hists[0].items[24:30]})


def replay(ctx, path):
    import replaylib
    return replaylib.replay_file(path)
