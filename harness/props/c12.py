"""C12 -- deferred index maintenance is unobservable.
One edit history is replayed under several placements of additional lookups (none before the end, one after every step,
random, bursts every k steps so that pending edits are <, = and > the collection size); the final answers of a fixed battery
of lookups must be identical across all placements (direct oracle) and equal a fresh scan; each placement is also replayed
on Model/World.v, whose lazy trees take the same build / rebuild / replay branches."""
import json

import gtirb_from_repo
import lookups
import world
import worldgen

LEVEL = "proof"
TRUSTED = ("intervaltree.IntervalTree is modelled as a finite set of (begin, end, data) triples (Model/LazyTree.v)",)
POOL = {"IR": 1, "Module": 2, "Section": 2, "ByteInterval": 4, "CodeBlock": 4, "DataBlock": 4, "ProxyBlock": 0, "Symbol": 1}
METHODS = ["blocks_on", "blocks_at", "blocks_on_offset", "blocks_at_offset", "byte_intervals_on", "byte_intervals_at",
           "sections_on", "sections_at", "extent"]
WEIGHTS = {"setparent": 3, "set": 3, "attr": 5, "mods": 1}


def replay_with(g, rng, base, schedule, battery):
    """schedule: function(step index) -> number of extra lookups to issue after that step"""
    h = worldgen.Hist(g, rng, {})
    # adopt the numbering of the base history
    for it in base:
        h.emit(it)
        if it[0] in (1, 51):
            h.by_kind[world.KINDS[it[2]]].append(it[1])
    return h


def run(ctx):
    g = gtirb_from_repo.load()
    lookups.repeated_events(ctx, g, 'schedule-final-wrong')
    lookups.many_members(ctx, g, 'schedule-final-wrong')
    rng = ctx.rng
    nh, ln = (40, 40) if ctx.quick else (600, 80)
    all_hists = []
    for hi in range(nh):
        base_h = worldgen.Hist(g, rng, {"pool": POOL, "setm": lookups.EDIT_SETM, "huge_rate": 0.15})
        base_h.setup_pool()
        base_h.build_some_structure(0.85)
        aimed = []
        for _ in range(ln):
            r = rng.random()
            if r < 0.15:
                lookups.burst(base_h, rng)
            elif r < 0.19:
                aimed += lookups.grow_edit(base_h, rng)
                ctx.count("grow_through_initialized_size")
            elif r < 0.25:
                aimed += lookups.edit_move_edit(base_h, rng)
                ctx.count("edit_move_edit_batches")
            else:
                lookups.edit_step(base_h, rng, WEIGHTS)
        if rng.random() < 0.5:
            # ... and as one of the very last edits, when the schedules that issued lookups have their indexes built
            aimed = lookups.grow_edit(base_h, rng)
            ctx.count("grow_through_initialized_size_last")
            for _ in range(rng.choice([0, 0, 1])):
                lookups.edit_step(base_h, rng, WEIGHTS)
        base = list(base_h.items)
        # fixed battery drawn from the final state (plus the lookups aimed at parts that grew through initialized_size)
        n0 = len(base_h.items)
        lookups.battery(base_h, rng, METHODS, 40)
        battery = base_h.items[n0:] + aimed[-40:]
        schedules = {
            "none": lambda i: 0,
            "every": lambda i: 1,
            "every2": lambda i: 1 if i % 2 == 0 else 0,
            "every5": lambda i: 2 if i % 5 == 0 else 0,
            "every9": lambda i: 3 if i % 9 == 0 else 0,
            "random": None,
            "late": lambda i: 2 if i > len(base) - 8 else 0,
        }
        finals = {}
        for sname, sched in schedules.items():
            h = worldgen.Hist(g, rng, {})
            for i, it in enumerate(base):
                h.emit(it)
                if it[0] in (1, 51):
                    h.by_kind[world.KINDS[it[2]]].append(it[1])
                    continue
                k = sched(i) if sched else rng.choice([0, 0, 0, 1, 3])
                for _ in range(k):
                    # an extra lookup: either a query or a bare index refresh
                    if rng.random() < 0.5:
                        qr = h.op_query(METHODS)
                        if qr is not None:
                            # "the answer to any lookup depends only on the current structure": also the extra ones in the middle
                            badq = world.oracle_query(h.w, qr[0], qr[1])
                            if badq:
                                ctx.add("oracle", "schedule-intermediate-wrong:m%d" % qr[0][2], "placement %s, lookup %s issued in the middle of the history: %s"
                                        % (sname, qr[0], badq[0]), {"items": h.items, "problems": badq})
                    else:
                        owners = h.by_kind["ByteInterval"] + h.by_kind["Section"]
                        h.emit([27, rng.choice(owners)])
                    ctx.count("extra_lookups:" + sname)
            # a copy of the world (deep copy / pickle round trip, alternating per history) taken NOW -- before the final battery,
            # with whatever index events this placement has left pending -- must answer the battery exactly as the original
            # does: which lookups were issued before the copy was made is as unobservable on the copy as on the original
            how = "deepcopy" if hi % 2 == 0 else "pickle"
            w2 = world.copy_world(h.w, how) or world.copy_world(h.w, "deepcopy")
            fin = []
            for q in battery:
                rep = h.emit(q)
                fin.append(rep)
            finals[sname] = fin
            if w2 is not None:
                ctx.count("copies_queried:" + how)
                finc = [w2.run(q) for q in battery]
                if finc != fin:
                    k = next(i for i in range(len(fin)) if finc[i] != fin[i])
                    ctx.add("oracle", "schedule-dependent:copy:m%d" % battery[k][2],
                            "placement %s: a %s of the world taken before the final lookups answers %s with %s, the original answers %s"
                            % (sname, how, battery[k], finc[k], fin[k]), {"items": h.items, "battery": battery, "placement": sname, "copy": how})
            all_hists.append(h)
            ctx.case(sname + repr(h.items), True)
            # fresh-scan oracle on the final answers
            for q, rep in zip(battery, fin):
                bad = world.oracle_query(h.w, q, rep)
                if bad:
                    ctx.add("oracle", "schedule-final-wrong:m%d" % q[2], "placement %s, lookup %s: %s" % (sname, q, bad[0]),
                            {"items": h.items, "problems": bad})
                    break
        ref = finals["none"]
        for sname, fin in finals.items():
            if fin != ref:
                k = next(i for i in range(len(ref)) if fin[i] != ref[i])
                ctx.add("oracle", "schedule-dependent:m%d" % battery[k][2],
                        "lookup %s answers %s when lookups are placed '%s' but %s when none are issued before the end" % (battery[k], fin[k], sname, ref[k]),
                        {"base_history": base, "battery": battery, "placement": sname})
    worldgen.compare(ctx, all_hists, "lazy-index", "C12 schedule correspondence")
    ctx.cov["histories"] = nh
    ctx.cov["schedules_per_history"] = 7
    ctx.cov["traces_validated_against_impl"] = len(all_hists)
    ctx.cov["rule"] = ("%d edit histories of %d steps x 7 placements of extra lookups, 40 final lookups each; one evaluation = one (history, placement); "
                       "distinct = distinct item list" % (nh, ln))
    ctx.sample({"base_history_tail": all_hists[0].items[-45:-40]})


def replay(ctx, path):
    import replaylib
    return replaylib.replay_file(path)
