"""C07 -- every AuxData value survives encode then decode unchanged.
Direct oracle: decode(encode(v)) == v (floats bit for bit, float32 after rounding, UUID leaves resolved
through the IR), alone and embedded (tuple with sentinel, sequence of two) to observe exact consumption.
Correspondence: implementation bytes/values vs the extracted Coq codec."""
import io
import json

import auxval
import gtirb_from_repo
from auxval import canon, to_sx, type_str
from codec_cases import expected_after_roundtrip, features, gen_cases, impl_decode, impl_encode
from common import ImplTimeout, exc_name, model_batch, model_result, time_limit, zs

LEVEL = "proof"
TRUSTED = (
    "CPython conversions assumed, not proved: str.encode/bytes.decode agree with Model/Utf8.v (compared on every case), "
    "struct.pack/unpack('<d') are the identity on bit patterns, struct '<f' rounds as Model/Float32.v round32/widen32 "
    "(compared on every case against a rational-arithmetic oracle)",
    "theorem domain for `float`: inputs exactly representable in binary32 (wt premise); rounding of other doubles is "
    "checked by correspondence only",
)
SENT = 0x0123456789ABCDEF


def read_table(ad):
    """AuxData.data under the time limit of the codec calls (a misaligned stream can make a decoder loop over a count of 2^60);
    after six timeouts of a run the remaining reads are not attempted"""
    import codec_cases as _cc
    if _cc.HANGS["n"] >= 6:
        raise ImplTimeout()
    try:
        with time_limit(5):
            return ad.data
    except ImplTimeout:
        _cc.HANGS["n"] += 1
        raise



def customise_a_private_serializer(ctx, g):
    """INDEPENDENCE of defaults: an application builds its OWN Serialization() and customises it the documented way (its `codecs`
    table: a codec replaced, one removed, one added).  That is about that instance: the serializer every AuxData table uses, and any
    Serialization() built later, still speak the grammar of the property.  (Run LAST: were the tables shared, nothing after it would mean anything.)"""
    import io
    ser = g.serialization

    class Upper(ser.Codec):
        @staticmethod
        def decode(raw_bytes, serialization, subtypes, get_by_uuid=None):
            return "PRIVATE"

        @staticmethod
        def encode(out, val, serialization, subtypes, **kw):
            out.write(b"PRIVATE")
    try:
        mine = ser.Serialization()
        for k in ("string", "Addr", "uint8_t", "sequence", "UUID"):
            mine.codecs[k] = Upper
        mine.codecs.pop("variant", None)
        mine.codecs.pop("mapping", None)
        mine.codecs["private"] = Upper
        buf = io.BytesIO()
        mine.encode(buf, "x", "string")
        if buf.getvalue() != b"PRIVATE":
            ctx.add("oracle", "roundtrip", "a codec registered on a private Serialization instance is not used by that instance", {"type_name": "string"})
        ctx.count("private_serializer_customised")
    except Exception as e:  # noqa: BLE001
        ctx.count("private_serializer_customisation_refused:" + exc_name(g, e))
    other = ser.Serialization()
    for who, S in (("the serializer of AuxData", g.AuxData.serializer), ("a Serialization() built afterwards", other)):
        for tn, v, bs in (("string", "h\u00e9", (3).to_bytes(8, "little") + "h\u00e9".encode()), ("uint8_t", 7, b"\x07"),
                          ("sequence<uint8_t>", [1], (1).to_bytes(8, "little") + b"\x01"), ("mapping<uint8_t,uint8_t>", {1: 2}, (1).to_bytes(8, "little") + b"\x01\x02")):
            buf = io.BytesIO()
            try:
                S.encode(buf, v, tn)
                got = (buf.getvalue(), S.decode(bs, tn))
            except Exception as e:  # noqa: BLE001
                got = exc_name(g, e)
            ctx.case("after-private-customisation:%s:%s" % (who, tn), True)
            if got != (bs, v):
                ctx.add("oracle", "roundtrip", "after ANOTHER Serialization instance was customised, %s encodes / decodes type %s as %r (expected %r)" % (who, tn, got, (bs, v)),
                        {"type_name": tn, "who": who})


def run(ctx):
    g = gtirb_from_repo.load()
    n = 1500 if ctx.quick else 25000
    cases, env = gen_cases(ctx, g, n)
    for tn_, why_ in getattr(env, "unbuildable", [])[:3]:
        ctx.add("oracle", "encode-fails", "type %s is a type of the grammar, but a Python value of it cannot even be built: %s" % (tn_, why_), {"type_name": tn_})
    ctx.count("types_without_python_value", len(getattr(env, "unbuildable", [])))
    reqs, meta = [], []
    hangs = 0
    for (t, v, env) in cases:
        if hangs >= 3:
            ctx.count("skipped_after_hangs")
            continue
        tn = type_str(t)
        enc = impl_encode(g, v, tn)
        vs = to_sx(v, env, t)
        rec = {"tn": tn, "t": t, "v": v, "vs": vs, "enc": enc}
        for f in features(t, v):
            ctx.count("type:" + f)
        nontriv = bool(t[1]) or t[0] in ("string", "float", "double", "UUID", "Offset")
        ctx.case(tn + repr(canon(vs)), nontriv)
        # --- direct oracle on the implementation
        if enc[0] == "ok":
            bs = enc[1]
            dec = impl_decode(g, bs, tn, env)
            rec["dec"] = dec
            if dec[0] == "err" and dec[1] in ("HANG", "MemoryError"):
                hangs += 1
            exp = canon(expected_after_roundtrip(t, v, env))
            if dec[0] != "ok" or canon(to_sx(dec[1], env, t)) != exp:
                got = dec[1] if dec[0] == "err" else canon(to_sx(dec[1], env, t))
                ctx.add("oracle", "roundtrip", "type %s: decode(encode(v)) != v" % tn,
                        {"type_name": tn, "value_sx": vs, "bytes": bs.hex(), "decoded": got, "expected": exp})
            # exact consumption: embedded before a sentinel and twice in a sequence
            tn2 = "tuple<%s,uint64_t>" % tn
            e2 = impl_encode(g, (v, SENT), tn2)
            if e2[0] == "ok":
                d2 = impl_decode(g, e2[1], tn2, env)
                ok2 = d2[0] == "ok" and isinstance(d2[1], tuple) and len(d2[1]) == 2 and d2[1][1] == SENT \
                    and canon(to_sx(d2[1][0], env, t)) == exp and e2[1] == bs + SENT.to_bytes(8, "little")
                if not ok2:
                    ctx.add("oracle", "consumption", "type %s: value followed by a sentinel does not decode back" % tn,
                            {"type_name": tn2, "value_sx": vs, "bytes": e2[1].hex()})
            tn3 = "sequence<%s>" % tn
            e3 = impl_encode(g, [v, v], tn3)
            if e3[0] == "ok":
                d3 = impl_decode(g, e3[1], tn3, env)
                ok3 = d3[0] == "ok" and isinstance(d3[1], list) and len(d3[1]) == 2 \
                    and all(canon(to_sx(x, env, t)) == exp for x in d3[1])
                if not ok3:
                    ctx.add("oracle", "consumption", "type %s: two copies in a sequence do not decode back" % tn,
                            {"type_name": tn3, "value_sx": vs, "bytes": e3[1].hex()})
            # identity of resolved nodes
            if dec[0] == "ok" and t[0] == "UUID":
                u = v.uuid if isinstance(v, g.Node) else v
                want = env.ir.get_by_uuid(u)
                if (want is not None and dec[1] is not want) or (want is None and dec[1] != u):
                    ctx.add("oracle", "resolution", "UUID leaf did not come back as the node object / plain UUID",
                            {"type_name": tn, "value_sx": vs})
            ctx.count("impl_encode_ok")
        else:
            ctx.count("impl_encode_" + enc[1])
            # inside the value domain the encoder must not fail, except float32 overflow which is a documented OverflowError
            if not (enc[1] == "OverflowError" and "float" in features(t, v)):
                ctx.add("oracle", "encode-fails", "type %s: a value of the type does not encode (%s)" % (tn, enc[1]),
                        {"type_name": tn, "value_sx": vs, "error": enc[1]})
        # --- model requests
        reqs.append([2, zs(tn), vs])
        reqs.append([9, zs(tn), vs, env.getter])
        rec["ask_dec"] = enc[0] == "ok" and not (rec["dec"][0] == "err" and rec["dec"][1] in ("HANG", "MemoryError"))
        if rec["ask_dec"]:
            reqs.append([4, zs(tn), list(enc[1]), env.getter])
        meta.append(rec)
    # malformed stream: out-of-range integers and float32 overflow (error classes must agree)
    mal = []
    for nm, (k, signed) in auxval.INTS.items():
        lo, hi = (-(1 << (8 * k - 1)), (1 << (8 * k - 1)) - 1) if signed else (0, (1 << (8 * k)) - 1)
        for x in (lo - 1, hi + 1, -(1 << 70), 1 << 70):
            mal.append((nm, x))
    for x in (1e39, -1e39, 3.4028235677973366e38, 1.7976931348623157e308):
        mal.append(("float", x))
    mal_reqs = [[2, zs(tn), to_sx(v, env)] for tn, v in mal]
    replies = model_batch(reqs + mal_reqs)
    it = iter(replies)
    in_domain = 0
    for rec in meta:
        tn, vs, enc = rec["tn"], rec["vs"], rec["enc"]
        m_enc = model_result(next(it))
        m_wt = next(it)
        if m_wt == 1:
            in_domain += 1
        m_enc_n = ("ok", bytes(m_enc[1])) if m_enc[0] == "ok" else m_enc
        if m_enc_n != enc:
            ctx.add("corr", "encode-differs", "type %s: implementation and model encodings differ" % tn,
                    {"type_name": tn, "value_sx": vs, "impl": _b(enc), "model": _b(m_enc_n), "stream": "C07/C08 encode correspondence"})
        if rec["ask_dec"]:
            m_dec = model_result(next(it))
            dec = rec["dec"]
            if m_dec[0] == "ok":
                mv, mrest, mre = m_dec[1], m_dec[2], model_result(m_dec[3])
                # re-encoding the decoded value gives the original bytes back only inside the theorem's domain: a set / mapping holding
                # both a node and the plain UUID naming it is written with a repeated element, which the decoder collapses
                good = dec[0] == "ok" and canon(mv) == canon(to_sx(dec[1], env, rec["t"])) and mrest == 0 \
                    and mre[0] == "ok" and (bytes(mre[1]) == enc[1] or m_wt != 1)
            else:
                good = dec[0] == "err" and dec[1] == m_dec[1]
            if not good:
                ctx.add("corr", "decode-differs", "type %s: implementation and model decodings differ" % tn,
                        {"type_name": tn, "bytes": enc[1].hex(), "impl": repr(dec)[:300], "model": repr(m_dec)[:300],
                         "stream": "C07 decode correspondence"})
    for (tn, v) in mal:
        m = model_result(next(it))
        im = impl_encode(g, v, tn)
        ctx.count("malformed_" + (im[1] if im[0] == "err" else "ok"))
        mm = ("ok", bytes(m[1])) if m[0] == "ok" else m
        if mm != im:
            ctx.add("corr", "encode-error-differs", "type %s value %r: implementation %s, model %s" % (tn, v, _b(im), _b(mm)),
                    {"type_name": tn, "value": repr(v), "impl": _b(im), "model": _b(mm), "stream": "C07 malformed encode correspondence"})
    resolution_stream(ctx, g)
    ctx.cov["in_theorem_domain"] = in_domain
    ctx.cov["traces_validated_against_impl"] = len(meta) + len(mal)
    cross_module_tables(ctx, g, ctx.rng, 6 if ctx.quick else 120)
    through_loaded_tables(ctx, g, cases, env)
    mapping_in_hashable_position(ctx, g)
    deep_nesting(ctx, g)
    import codec_cases as _cc
    for _k, _v in _cc.FORMS.items():
        ctx.count("encode_value_form:" + _k, _v)
    customise_a_private_serializer(ctx, g)
    ctx.cov["rule"] = ("leaf boundary catalogue + random type trees (depth<=5) with random values; non-trivial = container type or "
                       "string/float/UUID/Offset leaf; distinct = distinct (type name, canonical value); in_theorem_domain counts cases "
                       "for which the Coq predicate wt (premise of decode_encode) evaluates to true")
    for rec in meta[200:204]:
        ctx.sample({"type_name": rec["tn"], "value_sx": rec["vs"], "bytes": rec["enc"][1].hex() if rec["enc"][0] == "ok" else rec["enc"][1]})


def through_loaded_tables(ctx, g, cases, env0):
    """decode(encode(v)) = v along the route the API itself takes: the value is encoded by saving an IR and decoded, lazily, by reading
    AuxData.data of the loaded IR.  The bytes in the file were produced under the type name the table had when it was saved; they are
    decoded under THAT name also when `type_name` is reassigned between the load and the first read (the new name only governs how
    the value is written next) -- a widened integer type, then a save and a second load, still gives the value."""
    widen = [("sequence<uint8_t>", [1, 2, 250], "sequence<uint16_t>"), ("mapping<string,int32_t>", {"k": -5, "j": 7}, "mapping<string,int64_t>"),
             ("tuple<uint8_t,int8_t>", (200, -3), "tuple<uint64_t,int64_t>"), ("set<uint16_t>", {1, 513}, "set<uint32_t>"),
             ("variant<uint8_t,string>", g.serialization.Variant(0, 9), "variant<uint16_t,string>"), ("uint8_t", 7, "Addr")]
    for tn, v, tn2 in widen:
        for retype_first in (False, True):
            ir = g.IR()
            m = g.Module(name="m", ir=ir)
            m.aux_data["t"] = g.AuxData(v, tn)
            ctx.case("loaded-table:%s:%s" % (tn, retype_first), True)
            ctx.count("loaded_table_roundtrips")
            try:
                buf = io.BytesIO()
                ir.save_protobuf_file(buf)
                t = g.IR.load_protobuf_file(io.BytesIO(buf.getvalue())).modules[0].aux_data["t"]
                if retype_first:
                    t.type_name = tn2
                got = read_table(t)
                if not retype_first:
                    t.type_name = tn2
                ir2 = g.IR()
                m2 = g.Module(name="m", ir=ir2)
                m2.aux_data["t"] = t
                buf2 = io.BytesIO()
                ir2.save_protobuf_file(buf2)
                t3 = g.IR.load_protobuf_file(io.BytesIO(buf2.getvalue())).modules[0].aux_data["t"]
                got3, tn3 = read_table(t3), t3.type_name
            except Exception as e:  # noqa: BLE001
                ctx.add("oracle", "roundtrip", "a %s table saved, loaded, %s: %s" % (tn, "retyped to %s and then read" % tn2 if retype_first else "read and then retyped to %s" % tn2, exc_name(g, e)),
                        {"type_name": tn, "new_type_name": tn2, "retype_first": retype_first})
                continue
            if got != v or type(got) is not type(v) or got3 != v or tn3 != tn2:
                ctx.add("oracle", "roundtrip", "a %s table holding %r, saved and loaded, %s reads %r; written under %s and loaded again it reads %r (%s)"
                        % (tn, v, "retyped to %s before the first read," % tn2 if retype_first else "read, then retyped to %s," % tn2, got, tn2, got3, tn3),
                        {"type_name": tn, "new_type_name": tn2, "retype_first": retype_first})
    # a sample of the generated cases along the same route (no retyping)
    for (t, v, env) in cases[:: max(1, len(cases) // 150)]:
        tn = type_str(t)
        enc = impl_encode(g, v, tn)
        if enc[0] != "ok":
            continue
        ir = env.ir
        key = "zz-c07-roundtrip"
        try:
            ir.aux_data[key] = g.AuxData(v, tn)
            buf = io.BytesIO()
            ir.save_protobuf_file(buf)
            ir2 = g.IR.load_protobuf_file(io.BytesIO(buf.getvalue()))
            # every third time the loaded IR is COPIED before the table is read (copy.deepcopy / a pickle round trip): the table
            # of the copy decodes against the copy's nodes
            route = ("loaded", "deep copy of the loaded IR", "pickle round trip of the loaded IR")[ctx.cov["distribution"].get("loaded_table_roundtrips", 0) % 3]
            if route.startswith("deep"):
                import copy
                ir2 = copy.deepcopy(ir2)
            elif route.startswith("pickle"):
                import pickle
                ir2 = pickle.loads(pickle.dumps(ir2))
            got = read_table(ir2.aux_data[key])
        except Exception as e:  # noqa: BLE001
            ctx.count("loaded_table_route_skipped:" + exc_name(g, e))
            continue
        finally:
            ir.aux_data.pop(key, None)
        ctx.count("loaded_table_roundtrips")
        ctx.count("loaded_table_route:" + route)
        import protocheck as _pc
        for nd in _pc.walk_nodes(g, got):
            if ir2.get_by_uuid(nd.uuid) is not nd:
                ctx.add("oracle", "roundtrip", "type %s, table read from the %s IR: an entry naming a node of that IR is not that IR's node object" % (tn, route),
                        {"type_name": tn, "route": route})
                break
        # the loaded IR has node objects of its own: map them back to the original IR's by UUID, then compare canonical forms
        def back(x):
            if isinstance(x, g.Node):
                return ir.get_by_uuid(x.uuid) or x
            if isinstance(x, g.Offset):
                return g.Offset(back(x.element_id), x.displacement)
            if isinstance(x, g.serialization.Variant):
                return g.serialization.Variant(x.index, back(x.val))
            if isinstance(x, dict):
                return {back(k): back(w) for k, w in x.items()}
            if isinstance(x, (set, frozenset)):
                return type(x)(back(y) for y in x)
            if isinstance(x, list):
                return [back(y) for y in x]
            if isinstance(x, tuple):
                return tuple(back(y) for y in x)
            return x
        try:
            same = canon(to_sx(back(got), env, t)) == canon(expected_after_roundtrip(t, v, env))
        except Exception:  # noqa: BLE001
            same = False
        if not same:
            ctx.add("oracle", "roundtrip", "type %s: the value read from the table of a saved and loaded IR differs from the one stored" % tn,
                    {"type_name": tn, "value_sx": to_sx(v, env), "loaded": repr(got)[:300]})


def mapping_in_hashable_position(ctx, g):
    """Known finding (recorded, not repaired): a MAPPING as a set element or as a mapping key.  The grammar allows set<mapping<K,V>>
    and mapping<mapping<K,V>,W> ("any nesting"), other producers can write such tables, but Python has no hashable mapping: the
    decoder raises TypeError (sequences, sets and variants in these positions are handed out as tuples / frozensets / hashable
    Variants since fix D13).  Reproduced from wire bytes on every run."""
    one = (1).to_bytes(8, "little")
    for tn, bs in (("set<mapping<uint8_t,uint8_t>>", one + one + b"\x01\x02"), ("mapping<mapping<uint8_t,uint8_t>,uint8_t>", one + one + b"\x01\x02" + b"\x09"),
                   ("sequence<set<tuple<uint8_t,mapping<string,uint8_t>>>>", one + one + b"\x05" + one + one + b"k" + b"\x07")):
        ctx.case("mapping-in-hashable-position:" + tn, True)
        try:
            v = g.AuxData.serializer.decode(bs, tn)
            ctx.count("mapping_in_hashable_position_decoded")
            buf = io.BytesIO()
            g.AuxData.serializer.encode(buf, v, tn)
            if buf.getvalue() != bs:
                ctx.add("oracle", "roundtrip", "type %s: the decoded value %r is written back as %s, the bytes were %s" % (tn, v, buf.getvalue().hex(), bs.hex()), {"type_name": tn, "bytes": bs.hex()})
        except TypeError as e:
            ctx.add("oracle", "mapping-inside-set-or-key", "type %s: well-formed bytes cannot be decoded (%s)" % (tn, e), {"type_name": tn, "bytes": bs.hex()})
        except Exception as e:  # noqa: BLE001
            ctx.add("oracle", "roundtrip", "type %s: decoding well-formed bytes raises %s" % (tn, exc_name(g, e)), {"type_name": tn, "bytes": bs.hex()})


def deep_nesting(ctx, g):
    """'any nesting': sequence<sequence<...<int8_t>...>> at depths 50, 200 (the codec handles them) and 600, 1500 -- there the
    recursive encoder / decoder / type-name parser run out of interpreter stack (RecursionError under the default limit): a known
    finding recorded next to C15's (the parser fails near 990 levels, the codecs near 490).  Well-formed bytes: d-1 counts of 1,
    one count of 1, the byte."""
    one = (1).to_bytes(8, "little")
    for d in (50, 200, 600, 1500):
        tn = "sequence<" * d + "int8_t" + ">" * d
        v = 5
        for _ in range(d):
            v = [v]
        bs = one * d + b"\x05"
        ctx.case("deep-nesting:%d" % d, True)
        for what in ("encode", "decode"):
            try:
                if what == "encode":
                    buf = io.BytesIO()
                    g.AuxData.serializer.encode(buf, v, tn)
                    ok = buf.getvalue() == bs
                else:
                    got = g.AuxData.serializer.decode(bs, tn)
                    k = 0
                    while isinstance(got, list) and len(got) == 1:
                        got, k = got[0], k + 1
                    ok = (got == 5 and k == d)
                ctx.count("deep_nesting_ok:%s" % what)
                if not ok:
                    ctx.add("oracle", "roundtrip", "a sequence nested %d levels deep: %s gives something else than the format prescribes" % (d, what), {"depth": d, "what": what})
            except RecursionError:
                ctx.add("oracle", "deep-nesting-recursion", "a sequence type nested %d levels deep: %s raises RecursionError" % (d, what), {"depth": d, "what": what})
            except Exception as e:  # noqa: BLE001
                ctx.add("oracle", "roundtrip", "a sequence nested %d levels deep: %s raises %s" % (d, what, exc_name(g, e)), {"depth": d, "what": what})


def cross_module_tables(ctx, g, rng, n):
    """'AuxData.data after a save/load cycle': tables of every size (a bare UUID, one Offset, a few entries, hundreds of bytes)
    attached to the IR and to EVERY module, naming nodes of earlier, the same and LATER modules and the IR itself, plus UUIDs that
    name nothing: after load each entry naming an attached node is that node object of the loaded IR, the others plain UUIDs --
    whatever the order in which tables and nodes are decoded."""
    import io
    import uuid as uuidlib
    for rd in range(n):
        ir = g.IR()
        mods, nodes = [], [ir]
        for mi in range(rng.choice([2, 3, 4])):
            m = g.Module(name="m%d" % mi, ir=ir)
            sec = g.Section(name="s", module=m)
            bi = g.ByteInterval(size=16, section=sec)
            nodes += [m, sec, bi, g.CodeBlock(size=1, offset=0, byte_interval=bi), g.DataBlock(size=1, offset=4, byte_interval=bi),
                      g.ProxyBlock(module=m), g.Symbol("y%d" % mi, module=m)]
            mods.append(m)
        stray = [uuidlib.UUID(int=rng.getrandbits(128)) for _ in range(2)] + [g.CodeBlock(size=1).uuid]
        expect = {}
        for ci, cont in enumerate([ir] + mods):
            def pick():
                return rng.choice(nodes) if rng.random() < 0.8 else rng.choice(stray)
            one, two = pick(), pick()
            many = [pick() for _ in range(rng.choice([5, 12, 40]))]
            tables = {
                "u": (one, "UUID"),
                "o": (g.Offset(two, rng.choice([0, 7, (1 << 64) - 1])), "Offset"),
                "s": ([pick() for _ in range(rng.choice([0, 1, 2, 3]))], "sequence<UUID>"),
                "m": ({pick(): rng.randrange(256)}, "mapping<UUID,uint8_t>"),
                "v": (g.serialization.Variant(1, g.Offset(pick(), 3)), "variant<string,Offset>"),
                "t": ((pick(), [g.Offset(pick(), 1)], "x"), "tuple<UUID,sequence<Offset>,string>"),
                "big": (many, "sequence<UUID>"),
            }
            for k, (v, tn) in tables.items():
                cont.aux_data[k] = g.AuxData(v, tn)
                expect[(ci, k)] = (v, tn)
        buf = io.BytesIO()
        try:
            ir.save_protobuf_file(buf)
            ir2 = g.IR.load_protobuf_file(io.BytesIO(buf.getvalue()))
        except Exception as e:  # noqa: BLE001
            ctx.add("oracle", "tables:save-load-raised", "save/load of an IR with UUID/Offset tables raised %s" % exc_name(g, e), {})
            continue
        conts2 = [ir2] + list(ir2.modules)
        # entries are resolved when a table is first READ, against the IR as it is then: in two rounds of three the loaded IR is
        # edited before anything is read (a block that tables name is detached; a block is attached under a UUID that named nothing),
        # in one of those it is also saved first -- a save in between must not fix the tables' entries
        mode = rd % 3
        try:
            if mode == 1:
                ir2.save_protobuf_file(io.BytesIO())
            if mode in (1, 2):
                import content as _content
                ir2.get_by_uuid(nodes[5].uuid).byte_interval = None
                g.CodeBlock(size=1, offset=9, uuid=stray[0], byte_interval=ir2.get_by_uuid(nodes[3].uuid))
                ctx.count("tables_read_after_edits:" + ("saved-first" if mode == 1 else "edited-only"))
            import content as _content
            attached = {x.uuid for x in _content.reach(ir2)}
        except Exception as e:  # noqa: BLE001
            ctx.add("oracle", "tables:save-load-raised", "editing / saving the loaded IR before its tables are read raised %s" % exc_name(g, e), {})
            continue
        # "the decoder consumes exactly the bytes the encoder produced": what the file holds for a table is the encoding of its value
        # and nothing else (tables of very different lengths are written one after the other here)
        try:
            p = gtirb_from_repo.msg("IR")()
            p.ParseFromString(buf.getvalue()[8:])
            pconts = [p] + list(p.modules)
            for (ci, k), (v, tn) in expect.items():
                payload = bytes(pconts[ci].aux_data[k].data)
                direct = impl_encode(g, v, tn)
                ctx.count("table_payloads_compared")
                if direct[0] == "ok" and payload != direct[1]:
                    ctx.add("oracle", "tables:payload-not-the-encoding", "the %s table written for container %d is %d bytes long, the encoding of its value %d bytes%s"
                            % (tn, ci, len(payload), len(direct[1]), " (the encoding followed by other bytes)" if payload.startswith(direct[1]) else ""),
                            {"type_name": tn, "container": ci, "payload": payload.hex()[:600], "encoding": direct[1].hex()[:600]})
                    break
        except Exception as e:  # noqa: BLE001
            ctx.add("oracle", "tables:save-load-raised", "re-reading the saved file raised %s" % exc_name(g, e), {})

        def norm(x, loaded):
            """value with every UUID-ish leaf as ('node', uuid) when it must be / is a node object, ('uuid', uuid) otherwise"""
            if isinstance(x, g.Node):
                if loaded:
                    return ("node", x.uuid.int, ir2.get_by_uuid(x.uuid) is x and x.uuid in attached)
                return ("node", x.uuid.int, True) if x.uuid in attached else ("uuid", x.uuid.int, True)
            if isinstance(x, uuidlib.UUID):
                return ("node", x.int, True) if (not loaded and x in attached) else ("uuid", x.int, True)
            if isinstance(x, g.Offset):
                return ("offset", norm(x.element_id, loaded), x.displacement)
            if isinstance(x, g.serialization.Variant):
                return ("variant", x.index, norm(x.val, loaded))
            if isinstance(x, dict):
                return ("map", sorted((norm(k, loaded), norm(v, loaded)) for k, v in x.items()))
            if isinstance(x, (list, tuple)):
                return ("seq", [norm(y, loaded) for y in x])
            return x
        for (ci, k), (v, tn) in expect.items():
            ctx.case("table:%d:%s:%s" % (rd, ci, k), True)
            ctx.count("cross_module_tables")
            try:
                got = read_table(conts2[ci].aux_data[k])
            except Exception as e:  # noqa: BLE001
                ctx.add("oracle", "tables:read-raised", "reading table %s of container %d after load raised %s" % (tn, ci, exc_name(g, e)), {"type_name": tn})
                continue
            if norm(v, False) != norm(got, True):
                ctx.add("oracle", "tables:node-resolution", "a %s table attached to %s of a %d-module IR comes back with entries that are not the attached node "
                        "objects (or are nodes where a plain UUID was stored)" % (tn, "the IR" if ci == 0 else "module %d" % (ci - 1), len(mods)),
                        {"type_name": tn, "container": ci, "file": buf.getvalue().hex(), "stored": repr(norm(v, False))[:500], "loaded": repr(norm(got, True))[:500]})


def resolution_stream(ctx, g):
    """UUID / Offset entries come back as node objects exactly for the nodes attached to the given IR AT THE TIME OF DECODING:
    the same bytes are decoded against the same IR before and after nodes are detached, re-attached, moved to another IR,
    and after a new node with a previously unknown UUID is attached; and against a second IR."""
    import uuid as uuidlib
    rng = ctx.rng
    S = g.AuxData.serializer
    for _ in range(25 if ctx.quick else 400):
        ir, ir2 = g.IR(), g.IR()
        m = g.Module(name="m", ir=ir)
        m2 = g.Module(name="m2", ir=ir2)
        sec = g.Section(name="s", module=m)
        bi = g.ByteInterval(size=16, section=sec)
        blocks = [g.CodeBlock(size=1, offset=i, byte_interval=bi) for i in range(3)]
        px = g.ProxyBlock(module=m)
        sym = g.Symbol("y", module=m)
        late_uuid = uuidlib.UUID(int=rng.getrandbits(128))
        pool = [x.uuid for x in blocks + [px, sym, sec, bi, m]] + [late_uuid, uuidlib.UUID(int=rng.getrandbits(128))]
        tn = rng.choice(["sequence<UUID>", "set<UUID>", "mapping<UUID,uint8_t>", "sequence<Offset>", "mapping<string,variant<UUID,Offset>>",
                         "tuple<Offset,sequence<tuple<UUID,bool>>>"])
        us = [rng.choice(pool) for _ in range(4)]

        def value():
            if tn == "sequence<UUID>":
                return list(us)
            if tn == "set<UUID>":
                return set(us)
            if tn == "mapping<UUID,uint8_t>":
                return {u: i for i, u in enumerate(us)}
            if tn == "sequence<Offset>":
                return [g.Offset(u, i) for i, u in enumerate(us)]
            if tn == "mapping<string,variant<UUID,Offset>>":
                return {str(i): g.serialization.Variant(i % 2, u if i % 2 == 0 else g.Offset(u, 7)) for i, u in enumerate(us)}
            return (g.Offset(us[0], 1), [(u, True) for u in us[1:]])
        buf = io.BytesIO()
        S.encode(buf, value(), tn)
        bs = buf.getvalue()

        def leaves(v):
            if isinstance(v, (g.Node, uuidlib.UUID)):
                yield v
            elif isinstance(v, g.Offset):
                yield v.element_id
            elif isinstance(v, g.serialization.Variant):
                yield from leaves(v.val)
            elif isinstance(v, dict):
                for k, x in v.items():
                    yield from leaves(k)
                    yield from leaves(x)
            elif isinstance(v, (list, tuple, set, frozenset)):
                for x in v:
                    yield from leaves(x)

        def check(which, target, stage):
            try:
                dec = S.decode(bs, tn, target.get_by_uuid)
            except Exception as e:  # noqa: BLE001
                ctx.add("oracle", "resolution", "decoding raised %s" % exc_name(g, e), {"type_name": tn, "stage": stage})
                return False
            import content
            inside = {n.uuid: n for n in content.reach(target)}        # "nodes of the given IR": by containment, not by its table
            for leaf in leaves(dec):
                u = leaf.uuid if isinstance(leaf, g.Node) else leaf
                want = inside.get(u)
                ctx.count("resolution_leaves")
                if (want is not None and leaf is not want) or (want is None and isinstance(leaf, g.Node)):
                    ctx.add("oracle", "resolution", "%s: a UUID entry decodes to %s while the IR %s" %
                            (stage, "a node object" if isinstance(leaf, g.Node) else "a plain UUID",
                             "holds no such node" if want is None else "holds that node"),
                            {"type_name": tn, "stage": stage, "ir": which, "bytes": bs.hex()})
                    return False
            return True
        if not (check("ir", ir, "initially") and check("ir2", ir2, "other IR")):
            continue
        # edit the IR between decodes
        victim = rng.choice(blocks)
        bi.blocks.discard(victim)
        if not check("ir", ir, "after detaching a block"):
            continue
        newnode = g.CodeBlock(size=1, offset=9, uuid=late_uuid, byte_interval=bi)
        if not check("ir", ir, "after attaching a node whose UUID was unknown before"):
            continue
        bi.blocks.add(victim)
        px.module = m2
        if not (check("ir", ir, "after re-attaching the block and moving the proxy away") and check("ir2", ir2, "other IR after the move")):
            continue
        # moves inside the IR through the NEW owner's collection (the old owner still holds the node at that moment)
        bi_b = g.ByteInterval(size=16, section=sec)
        bi_b.blocks.add(blocks[0])
        bi_b.blocks.update(x for x in [blocks[1]])
        sec_b = g.Section(name="t", module=m)
        sec_b.byte_intervals.add(bi)
        if not check("ir", ir, "after moving blocks and an interval to sibling owners through the owners' collections"):
            continue
        m2.sections.add(sec_b)
        if not (check("ir", ir, "after a section (with its interval and blocks) moved to the other IR") and check("ir2", ir2, "the IR that received the section")):
            continue
        ctx.case("resolution" + tn + bs.hex(), True)


def _b(r):
    return (r[0], r[1].hex()) if r[0] == "ok" and isinstance(r[1], (bytes, bytearray)) else r


def replay(ctx, path):
    import replaylib
    return replaylib.replay_file(path)
