#!/bin/sh
# harness/devcheck.sh <tree> [checks...]: all quick checks (no rebuild; evidence/replays with a .dev suffix) against another
# checkout of the repository, e.g. a scratch worktree carrying a seeded change -- /repo itself is left alone.
# Also reports whether the regenerated facts would differ from the built ones.
tree=$1; shift
checks=${*:-C01 C02 C03 C04 C05 C06 C07 C08 C09 C10 C11 C12 C13 C14 C15 C16 C17 C18 C19}
cd /verif
VERIF_REPO=$tree /venv/bin/python - <<'PY'
import sys; sys.path.insert(0,'/verif/harness')
import genfacts
for nm, fn in (("Schema.v", genfacts.gen_schema), ("PyFacts.v", genfacts.gen_pyfacts)):
    try:
        same = fn() == open('/verif/coq/gen/' + nm).read()
    except Exception as e:
        same = "generation fails: %s" % e
    print("facts %s: %s" % (nm, "same as built" if same is True else ("DIFFERENT (a rebuild would re-check the obligations over them)" if same is False else same)))
PY
for p in $checks; do echo $p; done | xargs -P 8 -I{} sh -c "VERIF_REPO=$tree VERIF_EVIDENCE_SUFFIX=.dev VERIF_DEV_NOPROPS=1 timeout 2400 harness/check.py {} --no-build 2>&1 | grep -E '^VIOLATION|findings=|^  \[' | cut -c1-260 | head -4" | grep -v "findings=0"
rm -f evidence/*.dev.json
echo "devcheck done: $tree"
