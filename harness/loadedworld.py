"""Histories that START FROM A LOADED IR ("... and for IRs produced by loading a file", "after any history").
A file (written by save from a random API-built IR, or serialised directly from a generated message) is loaded; the loader's
objects are adopted (worldgen.adopt_loaded): the model reaches the corresponding state by guarded operations only, so the state
is reachable in the sense of the World theorems; then everything is observed (forest, derived accessors, aggregates, the UUID
table for every UUID, symbol lookups, a battery of address/offset lookups), random edits follow, and everything is observed again.
Every observation is judged by the direct oracles and compared with the model."""
import io

import content
import irgen
import lookups
import protocheck
import world
import worldgen
from world import QUERY_M

ALL_METHODS = list(QUERY_M)
WEIGHTS = {"setparent": 3, "set": 3, "attr": 3, "mods": 1, "symx": 1}
EXTRA_POOL = {"IR": 1, "Module": 1, "Section": 1, "ByteInterval": 1, "CodeBlock": 1, "DataBlock": 1, "ProxyBlock": 1, "Symbol": 2}


def observe_all(ctx, h, rng, sig, nq=10, what=None):
    """the observations `what` names (default: all), once; returns False at the first oracle problem.
    Each property's check looks only at what ITS property speaks about, so that a defect of one property does not alarm the
    checks of the others through this stream."""
    what = what or {"forest", "aggregates", "cache", "symbols", "symx", "queries"}
    methods = [m for m in ALL_METHODS if what & {"queries", m}] if "queries" not in what else ALL_METHODS
    if "forest" in what:
        h.observe_forest()
        bad = world.oracle_forest(h.w)
        if bad:
            h.problems.append((len(h.items) - 1, bad))
            ctx.add("oracle", sig + ":forest", "%s" % "; ".join(bad[:3]), {"items": h.items, "problems": bad[:8]})
            return False
    if "aggregates" in what:
        h.observe_aggregates()
    if "cache" in what:
        h.observe_cache()
        bad = world.oracle_cache(h.w, h.uuids)
        if bad:
            h.problems.append((len(h.items) - 1, bad))
            ctx.add("oracle", sig + ":uuid-table", "%s" % "; ".join(bad[:3]), {"items": h.items, "problems": bad[:8]})
            return False
    if "symx" in what:
        for bn in h.by_kind["ByteInterval"]:
            h.emit([46, bn])
    if "symbols" not in what:
        return lookups.judged_queries(ctx, h, rng, methods, nq, sig) if methods else True
    for m in h.by_kind["Module"]:
        for nm in sorted(h.w.names):
            it = [41, m, nm]
            rep = h.emit(it)
            bad = world.oracle_symbols(h.w, it, rep)
            if bad:
                ctx.add("oracle", sig + ":symbols_named", "lookup %s: %s" % (it, "; ".join(bad[:2])), {"items": h.items, "problems": bad[:6]})
                return False
    for b in h.by_kind["CodeBlock"] + h.by_kind["DataBlock"] + h.by_kind["ProxyBlock"]:
        it = [42, b]
        rep = h.emit(it)
        bad = world.oracle_symbols(h.w, it, rep)
        if bad:
            ctx.add("oracle", sig + ":references", "lookup %s: %s" % (it, "; ".join(bad[:2])), {"items": h.items, "problems": bad[:6]})
            return False
    return lookups.judged_queries(ctx, h, rng, methods, nq, sig) if methods else True


def loaded_history(ctx, g, rng, bs, length, sig, what=None):
    """returns the Hist (or None when the file is rejected)"""
    try:
        ir = g.IR.load_protobuf_file(io.BytesIO(bs))
    except Exception:  # noqa: BLE001
        return None
    if protocheck.safe_coherence(g, ir):
        return None                    # judged by C17's own stream; nothing to continue from
    h = worldgen.Hist(g, rng, {"setm": lookups.EDIT_SETM + ["pop"], "pool": EXTRA_POOL})
    # names the random renames draw from (numbers 0-5) are registered first, so that loaded names equal to one of them share its number
    worldgen.adopt_loaded(h, ir)
    h.loaded_from = bs
    n_adopted = len(h.all_nodes())
    ctx.count("adopted_nodes", n_adopted)
    h.setup_pool()
    methods = [m for m in ALL_METHODS if (what is None or "queries" in what or m in what)]
    if not observe_all(ctx, h, rng, sig + ":as-loaded", what=what):
        return h
    for _ in range(length):
        if rng.random() < 0.1:
            lookups.burst(h, rng)
        else:
            lookups.edit_step(h, rng, WEIGHTS)
        if methods and rng.random() < 0.3 and not lookups.judged_queries(ctx, h, rng, methods, 3, sig + ":edited"):
            return h
    observe_all(ctx, h, rng, sig + ":edited", what=what)
    return h


def files(ctx, g, rng, n, cov=None):
    """n files: alternately save(API-built IR) and a directly serialised generated message"""
    cov = cov or irgen.Cov(ctx)
    enums = protocheck.schema_enums()
    out = []
    tries = 0
    while len(out) < n and tries < 6 * n:
        tries += 1
        try:
            if tries % 2:
                ir, _ = irgen.gen_ir(g, rng, cov, n_modules=rng.choice([1, 2, 3]))
                if protocheck.is_d7(g, ir):
                    continue
                out.append(("saved", protocheck.save_bytes(ir)))
            else:
                m = irgen.gen_message(rng, enums, cov, version=g.version.PROTOBUF_VERSION)
                body = content.sx_to_msg(m).SerializeToString()
                out.append(("foreign", bytes(list(b"GTIRB\0\0") + [g.version.PROTOBUF_VERSION]) + body))
        except Exception:  # noqa: BLE001
            continue
    return out


def stream(ctx, g, rng, n, length, sig, what=None):
    """what: subset of {forest, aggregates, cache, symbols, symx, queries} and/or lookup method names (see world.QUERY_M)"""
    hs = []
    for origin, bs in files(ctx, g, rng, n):
        h = loaded_history(ctx, g, rng, bs, length, sig, what)
        if h is None:
            ctx.count("loaded_history:file_rejected:" + origin)
            continue
        ctx.count("loaded_history:" + origin)
        ctx.case(repr(h.items), True)
        hs.append(h)
    if n and not hs:
        ctx.add("corr", sig + ":no-histories", "none of %d generated files could be loaded and continued (save or load fails on every one)" % n, {})
    worldgen.compare(ctx, hs, sig, "histories continued from a loaded IR")
    return hs
