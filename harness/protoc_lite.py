"""A small fail-closed parser for the proto3 subset used by /repo/proto/*.proto.

Produces google.protobuf FileDescriptorProto objects (so the real protobuf
runtime builds the message classes) and a plain-Python schema description used
to generate coq/gen/Schema.v.  Anything outside the recognised subset raises
ProtoSyntaxError: the translator aborts rather than guess.
"""
import re
from google.protobuf import descriptor_pb2

F = descriptor_pb2.FieldDescriptorProto

SCALARS = {
    "double": F.TYPE_DOUBLE, "float": F.TYPE_FLOAT, "int64": F.TYPE_INT64,
    "uint64": F.TYPE_UINT64, "int32": F.TYPE_INT32, "uint32": F.TYPE_UINT32,
    "bool": F.TYPE_BOOL, "string": F.TYPE_STRING, "bytes": F.TYPE_BYTES,
    "sint32": F.TYPE_SINT32, "sint64": F.TYPE_SINT64,
    "fixed32": F.TYPE_FIXED32, "fixed64": F.TYPE_FIXED64,
    "sfixed32": F.TYPE_SFIXED32, "sfixed64": F.TYPE_SFIXED64,
}


class ProtoSyntaxError(Exception):
    pass


TOKEN = re.compile(r'\s+|//[^\n]*|/\*.*?\*/|("(?:[^"\\]|\\.)*")|([A-Za-z_][A-Za-z0-9_.]*)|(-?\d+)|([{}=;<>,\[\]()])', re.S)


def tokenize(text):
    pos, out = 0, []
    while pos < len(text):
        m = TOKEN.match(text, pos)
        if not m:
            raise ProtoSyntaxError("bad character at %d: %r" % (pos, text[pos:pos + 20]))
        pos = m.end()
        if m.group(1) is not None:
            out.append(("str", m.group(1)[1:-1]))
        elif m.group(2) is not None:
            out.append(("id", m.group(2)))
        elif m.group(3) is not None:
            out.append(("int", int(m.group(3))))
        elif m.group(4) is not None:
            out.append(("p", m.group(4)))
    return out


class P:
    def __init__(self, toks, fname):
        self.t, self.i, self.fname = toks, 0, fname

    def peek(self):
        return self.t[self.i] if self.i < len(self.t) else (None, None)

    def next(self):
        tok = self.peek()
        self.i += 1
        return tok

    def expect(self, kind, val=None):
        k, v = self.next()
        if k != kind or (val is not None and v != val):
            raise ProtoSyntaxError("%s: expected %s %r, got %s %r" % (self.fname, kind, val, k, v))
        return v

    def accept(self, kind, val):
        if self.peek() == (kind, val):
            self.i += 1
            return True
        return False


def parse_proto(text, fname):
    """Returns dict(package, imports, enums, messages).
    enums: list of (name, [(const, number)]).
    messages: list of dict(name, fields, oneofs, reserved_numbers, reserved_names);
    field = dict(name, number, type, label in {'', 'repeated', 'map'}, oneof or None, key/value for maps)."""
    p = P(tokenize(text), fname)
    res = dict(package="", imports=[], enums=[], messages=[], file=fname)
    p.expect("id", "syntax"); p.expect("p", "="); syn = p.expect("str"); p.expect("p", ";")
    if syn != "proto3":
        raise ProtoSyntaxError("only proto3 supported")
    while p.peek()[0] is not None:
        k, v = p.next()
        if (k, v) == ("id", "package"):
            res["package"] = p.expect("id"); p.expect("p", ";")
        elif (k, v) == ("id", "option"):
            p.expect("id"); p.expect("p", "="); p.next(); p.expect("p", ";")
        elif (k, v) == ("id", "import"):
            res["imports"].append(p.expect("str")); p.expect("p", ";")
        elif (k, v) == ("id", "enum"):
            res["enums"].append(parse_enum(p))
        elif (k, v) == ("id", "message"):
            res["messages"].append(parse_message(p))
        elif (k, v) == ("p", ";"):
            pass
        else:
            raise ProtoSyntaxError("%s: unexpected top-level token %r" % (fname, v))
    return res


def parse_enum(p):
    name = p.expect("id"); p.expect("p", "{")
    consts = []
    while not p.accept("p", "}"):
        if p.accept("p", ";"):
            continue
        c = p.expect("id")
        if c in ("option", "reserved"):
            raise ProtoSyntaxError("enum %s: %s not supported" % (name, c))
        p.expect("p", "="); n = p.expect("int"); p.expect("p", ";")
        consts.append((c, n))
    return (name, consts)


def parse_reserved(p, msg):
    while True:
        k, v = p.next()
        if k == "int":
            msg["reserved_numbers"].append(v)
        elif k == "str":
            msg["reserved_names"].append(v)
        else:
            raise ProtoSyntaxError("bad reserved entry %r" % (v,))
        if p.accept("p", ";"):
            return
        p.expect("p", ",")


def parse_field(p, msg, first, oneof=None):
    label = ""
    if first == "repeated":
        label = "repeated"; first = p.expect("id")
    elif first in ("optional", "required", "group", "extensions", "extend", "option", "message", "enum"):
        raise ProtoSyntaxError("message %s: %r not supported" % (msg["name"], first))
    f = dict(label=label, oneof=oneof, key=None, value=None)
    if first == "map":
        if label or oneof:
            raise ProtoSyntaxError("map field cannot be repeated/oneof")
        p.expect("p", "<"); f["key"] = p.expect("id"); p.expect("p", ","); f["value"] = p.expect("id"); p.expect("p", ">")
        f["label"] = "map"; f["type"] = "map"
    else:
        f["type"] = first
    f["name"] = p.expect("id"); p.expect("p", "="); f["number"] = p.expect("int")
    if p.peek() == ("p", "["):
        raise ProtoSyntaxError("field options not supported")
    p.expect("p", ";")
    msg["fields"].append(f)


def parse_message(p):
    msg = dict(name=p.expect("id"), fields=[], oneofs=[], reserved_numbers=[], reserved_names=[])
    p.expect("p", "{")
    while not p.accept("p", "}"):
        if p.accept("p", ";"):
            continue
        first = p.expect("id")
        if first == "reserved":
            parse_reserved(p, msg)
        elif first == "oneof":
            oname = p.expect("id"); p.expect("p", "{")
            msg["oneofs"].append(oname)
            while not p.accept("p", "}"):
                parse_field(p, msg, p.expect("id"), oneof=oname)
        else:
            parse_field(p, msg, first)
    return msg


def build_file_descriptors(parsed_files):
    """parsed_files: {filename: parse_proto result}. Returns list of
    FileDescriptorProto in dependency order."""
    # global symbol table: short name -> (full name, 'enum'|'message')
    sym = {}
    for pf in parsed_files.values():
        for (n, _) in pf["enums"]:
            sym[n] = ("." + pf["package"] + "." + n, "enum")
        for m in pf["messages"]:
            sym[m["name"]] = ("." + pf["package"] + "." + m["name"], "message")
    out, done = [], set()

    def camel(s):
        return "".join(w.capitalize() for w in s.split("_"))

    def set_type(fd, tname):
        if tname in SCALARS:
            fd.type = SCALARS[tname]
        elif tname in sym:
            full, kind = sym[tname]
            fd.type = F.TYPE_ENUM if kind == "enum" else F.TYPE_MESSAGE
            fd.type_name = full
        else:
            raise ProtoSyntaxError("unknown type %r" % tname)

    def emit(fname):
        if fname in done:
            return
        pf = parsed_files[fname]
        for imp in pf["imports"]:
            if imp not in parsed_files:
                raise ProtoSyntaxError("import %r not found" % imp)
            emit(imp)
        fdp = descriptor_pb2.FileDescriptorProto()
        fdp.name = fname; fdp.package = pf["package"]; fdp.syntax = "proto3"
        fdp.dependency.extend(pf["imports"])
        for (n, consts) in pf["enums"]:
            e = fdp.enum_type.add(); e.name = n
            for (c, num) in consts:
                v = e.value.add(); v.name = c; v.number = num
        for m in pf["messages"]:
            d = fdp.message_type.add(); d.name = m["name"]
            for o in m["oneofs"]:
                d.oneof_decl.add().name = o
            for r in m["reserved_numbers"]:
                rr = d.reserved_range.add(); rr.start = r; rr.end = r + 1
            d.reserved_name.extend(m["reserved_names"])
            for f in m["fields"]:
                fd = d.field.add(); fd.name = f["name"]; fd.number = f["number"]
                fd.label = F.LABEL_REPEATED if f["label"] in ("repeated", "map") else F.LABEL_OPTIONAL
                if f["label"] == "map":
                    ent = d.nested_type.add(); ent.name = camel(f["name"]) + "Entry"
                    ent.options.map_entry = True
                    kf = ent.field.add(); kf.name = "key"; kf.number = 1; kf.label = F.LABEL_OPTIONAL
                    set_type(kf, f["key"])
                    vf = ent.field.add(); vf.name = "value"; vf.number = 2; vf.label = F.LABEL_OPTIONAL
                    set_type(vf, f["value"])
                    fd.type = F.TYPE_MESSAGE
                    fd.type_name = "." + pf["package"] + "." + m["name"] + "." + ent.name
                else:
                    set_type(fd, f["type"])
                    if f["oneof"] is not None:
                        fd.oneof_index = m["oneofs"].index(f["oneof"])
        out.append(fdp); done.add(fname)

    for fname in sorted(parsed_files):
        emit(fname)
    return out
