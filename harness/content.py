"""Observable content of an IR (public attributes only), protobuf messages <-> the wire format of the Coq model
(coq/Model/ProtoRun.v), canonicalisation, and the coherence oracle used by C01, C02, C09, C17, C18."""
import uuid as uuidlib

import gtirb_from_repo


def zs(s):
    return [ord(c) for c in s]


def opt(x):
    return [] if x is None else [x]


def U(n):
    return n.uuid.int


# ------------------------------------------------------------------------------------------
# content of an in-memory IR, shaped as Model/ProtoRun.v's cir_of_sx expects

def attr_int(g, a):
    return a.value if isinstance(a, g.SymbolicExpression.Attribute) else a


def expr_content(g, e):
    if isinstance(e, g.SymAddrConst):
        v = [0, e.offset, U(e.symbol)]
    else:
        v = [1, e.scale, e.offset, U(e.symbol1), U(e.symbol2)]
    # the attributes are a SET of numbers: the member and its number, both in one Python set, are one attribute (fix c958318)
    return v, sorted({attr_int(g, a) for a in e.attributes})


def block_content(g, b):
    code = isinstance(b, g.CodeBlock)
    return [U(b), 1 if code else 0, b.offset, b.size, b.decode_mode.value if code else 0]


def bi_content(g, bi):
    symx = []
    for k, e in bi.symbolic_expressions.items():
        v, at = expr_content(g, e)
        symx.append([k, v, at])
    return [U(bi), opt(bi.address), bi.size, list(bytes(bi.contents)), [block_content(g, b) for b in bi.blocks], symx]


def symbol_content(g, y):
    if y.referent is not None:
        p = [1, U(y.referent)]
    elif y.value is not None:
        p = [0, y.value]
    else:
        p = []
    return [U(y), zs(y.name), p, int(bool(y.at_end))]


def aux_content(container):
    return [[zs(k), zs(v.type_name), []] for k, v in container.aux_data.items()]


def module_content(g, m):
    return [U(m), zs(m.name), zs(m.binary_path), m.isa.value, m.file_format.value, m.byte_order.value, m.preferred_addr, m.rebase_delta,
            opt(None if m.entry_point is None else U(m.entry_point)), [U(p) for p in m.proxies],
            [[U(s), zs(s.name), [f.value for f in s.flags], [bi_content(g, bi) for bi in s.byte_intervals]] for s in m.sections],
            [symbol_content(g, y) for y in m.symbols], aux_content(m)]


def edge_content(e):
    lab = [] if e.label is None else [e.label.type.value, int(e.label.conditional), int(e.label.direct)]
    return [U(e.source), U(e.target), lab]


def content_of(g, ir):
    return [U(ir), ir.version, [module_content(g, m) for m in ir.modules], [edge_content(e) for e in ir.cfg], aux_content(ir)]


def canon_content(c, strip_aux_data=True):
    """sort everything that is a set in the API; module order is kept"""
    def aux(l):
        return sorted([[k, t, [] if strip_aux_data else d] for k, t, d in l])

    def bi(b):
        return [b[0], b[1], b[2], b[3], sorted(b[4]), sorted([[k, v, sorted(at)] for k, v, at in b[5]])]

    def mod(m):
        return m[:9] + [sorted(m[9]), sorted([[s[0], s[1], sorted(s[2]), sorted(bi(b) for b in s[3])] for s in m[10]]), sorted(m[11]), aux(m[12])]
    return [c[0], c[1], [mod(m) for m in c[2]], sorted(c[3], key=repr), aux(c[4])]


# ------------------------------------------------------------------------------------------
# protobuf messages (schema-built classes) <-> sx, shaped as pir_of_sx / sx_pir

def msg_to_sx(p):
    def aux(mp):
        return [[zs(k), zs(v.type_name), list(v.data)] for k, v in mp.items()]

    def block(b):
        w = b.WhichOneof("value")
        if w == "code":
            return [b.offset, [0, list(b.code.uuid), b.code.size, b.code.decode_mode]]
        if w == "data":
            return [b.offset, [1, list(b.data.uuid), b.data.size]]
        return [b.offset, []]

    def expr(k, x):
        w = x.WhichOneof("value")
        if w == "addr_const":
            v = [0, x.addr_const.offset, list(x.addr_const.symbol_uuid)]
        elif w == "addr_addr":
            v = [1, x.addr_addr.scale, x.addr_addr.offset, list(x.addr_addr.symbol1_uuid), list(x.addr_addr.symbol2_uuid)]
        else:
            v = []
        return [k, v, list(x.attribute_flags)]

    def bi(b):
        return [list(b.uuid), [block(x) for x in b.blocks], [expr(k, x) for k, x in b.symbolic_expressions.items()],
                int(b.has_address), b.address, b.size, list(b.contents)]

    def sym(y):
        w = y.WhichOneof("optional_payload")
        p = [0, y.value] if w == "value" else ([1, list(y.referent_uuid)] if w == "referent_uuid" else [])
        return [list(y.uuid), p, zs(y.name), int(y.at_end)]

    def mod(m):
        return [list(m.uuid), zs(m.binary_path), m.preferred_addr, m.rebase_delta, m.file_format, m.isa, zs(m.name),
                [sym(y) for y in m.symbols], [list(x.uuid) for x in m.proxies],
                [[list(s.uuid), zs(s.name), [bi(b) for b in s.byte_intervals], list(s.section_flags)] for s in m.sections],
                aux(m.aux_data), list(m.entry_point), m.byte_order]

    def edge(e):
        lab = [int(e.label.conditional), int(e.label.direct), e.label.type] if e.HasField("label") else []
        return [list(e.source_uuid), list(e.target_uuid), lab]
    return [list(p.uuid), [mod(m) for m in p.modules], aux(p.aux_data), p.version, [list(v) for v in p.cfg.vertices],
            [edge(e) for e in p.cfg.edges]]


def sx_to_msg(s):
    """build a gtirb.proto.IR message directly from the descriptors (never through gtirb's writer)"""
    M = gtirb_from_repo.msg
    p = M("IR")()
    uu, mods, aux, ver, verts, edges = s
    p.uuid = bytes(uu)
    p.version = ver

    def put_aux(mp, l):
        for k, t, d in l:
            a = mp["".join(map(chr, k))]
            a.type_name = "".join(map(chr, t))
            a.data = bytes(d)
    put_aux(p.aux_data, aux)
    for m in mods:
        (mu, bp, pa, rd, ff, isa, nm, syms, prox, secs, maux, en, bo) = m
        pm = p.modules.add()
        pm.uuid = bytes(mu)
        pm.binary_path = "".join(map(chr, bp))
        pm.preferred_addr = pa
        pm.rebase_delta = rd
        pm.file_format = ff
        pm.isa = isa
        pm.name = "".join(map(chr, nm))
        pm.entry_point = bytes(en)
        pm.byte_order = bo
        put_aux(pm.aux_data, maux)
        for y in syms:
            py = pm.symbols.add()
            py.uuid = bytes(y[0])
            if y[1]:
                if y[1][0] == 0:
                    py.value = y[1][1]
                else:
                    py.referent_uuid = bytes(y[1][1])
            py.name = "".join(map(chr, y[2]))
            py.at_end = bool(y[3])
        for x in prox:
            pm.proxies.add().uuid = bytes(x)
        for sc in secs:
            ps = pm.sections.add()
            ps.uuid = bytes(sc[0])
            ps.name = "".join(map(chr, sc[1]))
            ps.section_flags.extend(sc[3])
            for b in sc[2]:
                pb = ps.byte_intervals.add()
                pb.uuid = bytes(b[0])
                pb.has_address = bool(b[3])
                pb.address = b[4]
                pb.size = b[5]
                pb.contents = bytes(b[6])
                for blk in b[1]:
                    q = pb.blocks.add()
                    q.offset = blk[0]
                    if blk[1]:
                        if blk[1][0] == 0:
                            q.code.uuid = bytes(blk[1][1]); q.code.size = blk[1][2]; q.code.decode_mode = blk[1][3]
                        else:
                            q.data.uuid = bytes(blk[1][1]); q.data.size = blk[1][2]
                for k, v, at in b[2]:
                    e = pb.symbolic_expressions[k]
                    if v:
                        if v[0] == 0:
                            e.addr_const.offset = v[1]; e.addr_const.symbol_uuid = bytes(v[2])
                        else:
                            e.addr_addr.scale = v[1]; e.addr_addr.offset = v[2]
                            e.addr_addr.symbol1_uuid = bytes(v[3]); e.addr_addr.symbol2_uuid = bytes(v[4])
                    else:
                        e.SetInParent()
                    e.attribute_flags.extend(at)
    for v in verts:
        p.cfg.vertices.append(bytes(v))
    for e in edges:
        pe = p.cfg.edges.add()
        pe.source_uuid = bytes(e[0])
        pe.target_uuid = bytes(e[1])
        if e[2]:
            pe.label.conditional = bool(e[2][0]); pe.label.direct = bool(e[2][1]); pe.label.type = e[2][2]
    return p


def canon_msg(s, strip_aux_data=False):
    def aux(l):
        return sorted([[k, t, [] if strip_aux_data else d] for k, t, d in l])

    def bi(b):
        return [b[0], sorted(b[1], key=repr), sorted([[k, v, sorted(at)] for k, v, at in b[2]]), b[3], b[4], b[5], b[6]]

    def mod(m):
        return m[:7] + [sorted(m[7], key=repr), sorted(m[8]), sorted(([x[0], x[1], sorted((bi(b) for b in x[2]), key=repr), sorted(x[3])] for x in m[9]), key=repr),
                        aux(m[10]), m[11], m[12]]
    return [s[0], [mod(m) for m in s[1]], aux(s[2]), s[3], sorted(s[4]), sorted(s[5], key=repr)]


def ub(u):
    """128-bit int -> the 16 bytes of UUID.bytes as a list"""
    return list(u.to_bytes(16, "big"))


# ------------------------------------------------------------------------------------------
# the coherence oracle of C17 / C09 on an IR returned by load (public attributes only)

def reach(ir):
    out = [ir]
    for m in ir.modules:
        out.append(m)
        out += list(m.proxies) + list(m.symbols)
        for s in m.sections:
            out.append(s)
            for bi in s.byte_intervals:
                out.append(bi)
                out += list(bi.blocks)
    return out


def coherence(g, ir):
    """list of violations of the structural guarantees (C03, C04, typed and closed references, bytes <= size)"""
    bad = []
    nodes = reach(ir)
    ids = set(map(id, nodes))
    if len(ids) != len(nodes):
        bad.append("a node is reachable twice through containment")
    by_uuid = {}
    for n in nodes:
        by_uuid.setdefault(n.uuid, []).append(n)
    for u, l in by_uuid.items():
        if len({id(x) for x in l}) > 1:
            bad.append("two attached nodes share UUID %s" % u)
        if ir.get_by_uuid(u) is not l[0]:
            bad.append("get_by_uuid(%s) is not the attached node" % u)
    # two-ended containment
    for m in ir.modules:
        if m.ir is not ir:
            bad.append("module %s: .ir is not the IR" % m.uuid)
        for coll, attr in ((m.proxies, "module"), (m.symbols, "module"), (m.sections, "module")):
            for x in coll:
                if getattr(x, attr) is not m:
                    bad.append("%s %s: parent attribute disagrees with the collection" % (type(x).__name__, x.uuid))
        for s in m.sections:
            for bi in s.byte_intervals:
                if bi.section is not s:
                    bad.append("interval %s: .section disagrees" % bi.uuid)
                if len(bi.contents) > bi.size:
                    bad.append("interval %s stores %d bytes but has size %d" % (bi.uuid, len(bi.contents), bi.size))
                if bi.initialized_size != len(bi.contents):
                    bad.append("interval %s: initialized_size != len(contents)" % bi.uuid)
                for b in bi.blocks:
                    if b.byte_interval is not bi:
                        bad.append("block %s: .byte_interval disagrees" % b.uuid)
                    if not isinstance(b, (g.CodeBlock, g.DataBlock)):
                        bad.append("interval %s holds a %s" % (bi.uuid, type(b).__name__))
                    if b.ir is not ir:
                        bad.append("block %s: .ir is not the IR" % b.uuid)
                for k, e in bi.symbolic_expressions.items():
                    for y in e.symbols:
                        if y is None:
                            bad.append("expression at %d of %s names no symbol (None)" % (k, bi.uuid))
                        elif not isinstance(y, g.Symbol):
                            bad.append("expression at %d of %s names a %s" % (k, bi.uuid, type(y).__name__))
                        elif id(y) not in ids:
                            bad.append("expression at %d of %s names a symbol that is not attached" % (k, bi.uuid))
        if m.entry_point is not None:
            if not isinstance(m.entry_point, g.CodeBlock):
                bad.append("entry point of %s is a %s" % (m.uuid, type(m.entry_point).__name__))
            elif id(m.entry_point) not in ids:
                bad.append("entry point of %s is not attached" % m.uuid)
        for y in m.symbols:
            r = y.referent
            if r is not None:
                if not isinstance(r, g.Block):
                    bad.append("symbol %s refers to a %s" % (y.uuid, type(r).__name__))
                elif id(r) not in ids:
                    bad.append("symbol %s refers to a block that is not attached" % y.uuid)
            if y.value is not None and not isinstance(y.value, int):
                bad.append("symbol %s has a non-integer value" % y.uuid)
    for e in ir.cfg:
        for end in (e.source, e.target):
            if not isinstance(end, g.CfgNode):
                bad.append("CFG endpoint is a %s" % type(end).__name__)
            elif id(end) not in ids:
                bad.append("CFG endpoint %s is not attached" % end.uuid)
    # separately constructed objects never share their mutable parts (C04): attribute sets of expressions, section flags,
    # AuxData maps, stored bytes -- whoever constructed them (the API or the loader)
    seen = {}
    for owner, what, obj in _mutable_parts(ir):
        if id(obj) in seen and seen[id(obj)] is not owner:
            bad.append("two objects share one %s object (%s)" % (what, type(obj).__name__))
            break
        seen[id(obj)] = owner
    return bad


def _mutable_parts(ir):
    yield ir, "aux_data", ir.aux_data
    for m in ir.modules:
        yield m, "aux_data", m.aux_data
        for s in m.sections:
            yield s, "flags", s.flags
            for bi in s.byte_intervals:
                yield bi, "contents", bi.contents
                for e in bi.symbolic_expressions.values():
                    yield e, "attributes", e.attributes


def shared_between(ir_a, ir_b):
    """mutable parts of two IRs (e.g. two loads of one file) are distinct objects"""
    ida = {id(o): what for _, what, o in _mutable_parts(ir_a)}
    return ["the two IRs share one %s object" % ida[id(o)] for _, what, o in _mutable_parts(ir_b) if id(o) in ida][:3]


def identity_check(g, ir):
    """C09: every reference of a loaded IR is the very object reached through containment / get_by_uuid"""
    bad = []
    for m in ir.modules:
        if m.entry_point is not None and ir.get_by_uuid(m.entry_point.uuid) is not m.entry_point:
            bad.append("entry point of module %s is a copy" % m.uuid)
        for y in m.symbols:
            if y.referent is not None and ir.get_by_uuid(y.referent.uuid) is not y.referent:
                bad.append("referent of symbol %s is a copy" % y.uuid)
        for s in m.sections:
            for bi in s.byte_intervals:
                for k, e in bi.symbolic_expressions.items():
                    for y in e.symbols:
                        if y is None or ir.get_by_uuid(y.uuid) is not y:
                            bad.append("symbol of the expression at %d of %s is a copy" % (k, bi.uuid))
    for e in ir.cfg:
        for end in (e.source, e.target):
            if ir.get_by_uuid(end.uuid) is not end:
                bad.append("CFG endpoint %s is a copy" % end.uuid)
    return bad


# ------------------------------------------------------------------------------------------
# the schema correspondence stated directly (C02's direct oracle, independent of the Coq model):
# which message field carries which attribute

def expected_msg(c):
    """content (content_of shape) -> message sx the writer must produce (aux data bytes left empty)"""
    def bi(b):
        u, addr, size, contents, blocks, symx = b
        bl = [[off, ([0, ub(bu), sz, dm] if code else [1, ub(bu), sz])] for bu, code, off, sz, dm in blocks]
        sx = []
        for k, v, at in symx:
            pv = [0, v[1], ub(v[2])] if v[0] == 0 else [1, v[1], v[2], ub(v[3]), ub(v[4])]
            sx.append([k, pv, list(at)])
        return [ub(u), bl, sx, 0 if not addr else 1, addr[0] if addr else 0, size, list(contents)]

    def mod(m):
        (u, name, bp, isa, ff, bo, pa, rd, entry, prox, secs, syms, aux) = m
        ps = []
        for su, nm, pay, ae in syms:
            ps.append([ub(su), ([] if not pay else ([0, pay[1]] if pay[0] == 0 else [1, ub(pay[1])])), nm, ae])
        return [ub(u), bp, pa, rd, ff, isa, name, ps, [ub(x) for x in prox],
                [[ub(s[0]), s[1], [bi(b) for b in s[3]], list(s[2])] for s in secs],
                [[k, t, []] for k, t, _ in aux], (ub(entry[0]) if entry else []), bo]
    u, ver, mods, edges, aux = c
    verts = []
    for m in mods:
        for s in m[10]:
            for b in s[3]:
                verts += [ub(k[0]) for k in b[4] if k[1]]
        verts += [ub(x) for x in m[9]]
    pe = [[ub(a), ub(b), ([] if not l else [l[1], l[2], l[0]])] for a, b, l in edges]
    return [ub(u), [mod(m) for m in mods], [[k, t, []] for k, t, _ in aux], ver, verts, pe]


def expected_content(m):
    """message sx (valid, closed) -> content the reader must produce (sets deduplicated)"""
    def ui(bs):
        return int.from_bytes(bytes(bs), "big")

    def dd(l):
        return sorted(set(l))

    def bi(b):
        u, blocks, symx, has, addr, size, contents = b
        bl = [[ui(v[1]), 1 if v[0] == 0 else 0, off, v[2], v[3] if v[0] == 0 else 0] for off, v in blocks]
        sx = []
        for k, v, at in symx:
            cv = [0, v[1], ui(v[2])] if v[0] == 0 else [1, v[1], v[2], ui(v[3]), ui(v[4])]
            sx.append([k, cv, dd(at)])
        return [ui(u), ([addr] if has else []), size, list(contents), bl, sx]

    def mod(x):
        (u, bp, pa, rd, ff, isa, name, syms, prox, secs, aux, entry, bo) = x
        cs = [[ui(y[0]), y[2], ([] if not y[1] else ([0, y[1][1]] if y[1][0] == 0 else [1, ui(y[1][1])])), y[3]] for y in syms]
        return [ui(u), name, bp, isa, ff, bo, pa, rd, ([ui(entry)] if entry else []), [ui(p) for p in prox],
                [[ui(s[0]), s[1], dd(s[3]), [bi(b) for b in s[2]]] for s in secs], cs, [[k, t, []] for k, t, _ in aux]]
    u, mods, aux, ver, verts, edges = m
    ce = []
    for a, b, l in edges:
        e = [ui(a), ui(b), ([] if not l else [l[2], l[0], l[1]])]
        if e not in ce:
            ce.append(e)
    return [ui(u), ver, [mod(x) for x in mods], ce, [[k, t, []] for k, t, _ in aux]]
