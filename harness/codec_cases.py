"""Shared case generation/execution for C07 (round trip) and C08 (wire format)."""
import io

import auxval
from auxval import type_str, to_sx, canon
from common import ImplTimeout, exc_name, model_batch, model_result, time_limit, zs


def expected_after_roundtrip(t, v, env):
    """The value decode(encode(v)) must produce, as canonical sx: UUID leaves resolved through the IR,
    `float` leaves rounded to float32 (by the rational-arithmetic oracle)."""
    g = env.g
    nm, subs = t
    if nm == "float":
        return [2, auxval.f32_exact_double_bits(auxval.oracle_round32_bits(v))]
    if nm == "UUID":
        u = v.uuid if isinstance(v, g.Node) else v
        n = env.ir.get_by_uuid(u)
        return to_sx(n if n is not None else u, env)
    if nm == "Offset":
        return [6, expected_after_roundtrip(("UUID", []), v.element_id, env), v.displacement]
    if nm in auxval.INTS and isinstance(v, bool):
        return [0, int(v)]
    if nm == "sequence":
        return [7, [expected_after_roundtrip(subs[0], x, env) for x in v]]
    # two elements / keys that are distinct in the original (a node and the plain UUID naming it) encode to the same bytes and come
    # back as ONE element: the decoder builds a set / dict, a later pair with an equal key replaces the earlier value
    if nm == "set":
        out = {}
        for x in v:
            e = expected_after_roundtrip(subs[0], x, env)
            out[repr(canon(e))] = e
        return [8, list(out.values())]
    if nm == "mapping":
        out = {}
        for k, x in v.items():
            ek = expected_after_roundtrip(subs[0], k, env)
            out[repr(canon(ek))] = [ek, expected_after_roundtrip(subs[1], x, env)]
        return [9, list(out.values())]
    if nm == "tuple":
        return [10, [expected_after_roundtrip(s, x, env) for s, x in zip(subs, v)]]
    if nm == "variant":
        return [11, v.index, expected_after_roundtrip(subs[v.index], v.val, env)]
    return to_sx(v, env)


FORM_RNG = __import__("random").Random(int(__import__("os").environ.get("VERIF_SEED", "1") or "1") + 77)
FORMS = {"reformed": 0, "as_given": 0}


def impl_encode(g, v, tn, reform=True):
    S = g.AuxData.serializer
    buf = io.BytesIO()
    if reform and FORM_RNG.random() < 0.4:
        v = auxval.reform(FORM_RNG, v)
        FORMS["reformed"] += 1
    else:
        FORMS["as_given"] += 1
    try:
        with time_limit(5):
            S.encode(buf, v, tn)
    except ImplTimeout:
        return ("err", "HANG")
    except MemoryError:
        return ("err", "MemoryError")
    except Exception as e:  # noqa: BLE001
        return ("err", exc_name(g, e))
    return ("ok", buf.getvalue())


HANGS = {"n": 0}


def impl_decode(g, bs, tn, env):
    S = g.AuxData.serializer
    if HANGS["n"] >= 6:
        # six decodes of this run have hit the time limit already (each is reported where it happened): the rest of the run does not
        # wait for more of them
        return ("err", "HANG")
    try:
        with time_limit(5):
            # the byte string itself, another bytes-like object, or a binary stream positioned at the value
            r = FORM_RNG.random()
            src = bytes(bs) if r < 0.6 else (io.BytesIO(bytes(bs)) if r < 0.75 else (bytearray(bs) if r < 0.83 else memoryview(bytes(bs)) if r < 0.9 else None))
            if src is None:
                # a stream POSITIONED at the value: other data precedes it (the decoder reads from the current position)
                pre = bytes(FORM_RNG.randrange(256) for _ in range(FORM_RNG.choice([1, 8, 24])))
                src = io.BytesIO(pre + bytes(bs))
                src.seek(len(pre))
                FORMS["decode_from:positioned-stream"] = FORMS.get("decode_from:positioned-stream", 0) + 1
            FORMS["decode_from:" + type(src).__name__] = FORMS.get("decode_from:" + type(src).__name__, 0) + 1
            v = S.decode(src, tn, env.ir.get_by_uuid)
    except ImplTimeout:
        HANGS["n"] += 1
        return ("err", "HANG")
    except MemoryError:
        return ("err", "MemoryError")
    except Exception as e:  # noqa: BLE001
        return ("err", exc_name(g, e))
    return ("ok", v)


def gen_cases(ctx, g, n):
    """list of (type tree, value, env)"""
    rng = ctx.rng
    env = auxval.Env(g, rng)
    cases = []
    # every leaf with its boundary values first
    for nm in auxval.LEAVES:
        for _ in range(12):
            cases.append(((nm, []), auxval.rand_value(rng, (nm, []), env), env))
    for nm, (k, signed) in auxval.INTS.items():
        lo, hi = (-(1 << (8 * k - 1)), (1 << (8 * k - 1)) - 1) if signed else (0, (1 << (8 * k)) - 1)
        for x in (lo, hi, 0, lo + 1, hi - 1):
            cases.append(((nm, []), x, env))
    # a node together with the plain UUID that names it (two distinct Python objects, one wire element each): the count prefix
    # counts what follows, element for element -- in a set, as mapping keys, as Offset element ids, nested
    U, O, I = ("UUID", []), ("Offset", []), ("uint8_t", [])
    for nd in env.attached[:3] + env.detached[:1]:
        other = env.attached[-1]
        cases.append((("set", [U]), {nd, nd.uuid}, env))
        cases.append((("set", [U]), {nd, nd.uuid, other}, env))
        cases.append((("set", [O]), {g.Offset(nd, 1), g.Offset(nd.uuid, 1)}, env))
        cases.append((("mapping", [U, I]), {nd: 1, nd.uuid: 2}, env))
        cases.append((("sequence", [("set", [U])]), [{nd, nd.uuid}, {other}], env))
        cases.append((("tuple", [("set", [U]), I]), ({nd.uuid, nd}, 7), env))
    # "any nesting": containers as set elements and mapping keys (their Python values are tuples / frozensets, the hashable forms)
    S8, Q8, V8 = ("set", [I]), ("sequence", [I]), ("variant", [I, ("string", [])])
    Var = g.serialization.Variant
    env.unbuildable = []        # (type, why): types of the grammar for which no Python value could even be constructed

    def fixed(t, mk):
        try:
            cases.append((t, mk(), env))
        except TypeError as e:
            env.unbuildable.append((auxval.type_str(t), str(e)))
    fixed(("set", [Q8]), lambda: {(1, 2), (), (250,)})
    fixed(("set", [S8]), lambda: {frozenset({1, 2}), frozenset()})
    fixed(("set", [V8]), lambda: {Var(0, 7), Var(1, "x")})
    fixed(("mapping", [Q8, I]), lambda: {(1, 2): 3, (): 4})
    fixed(("mapping", [S8, Q8]), lambda: {frozenset({9}): [1, 2]})
    fixed(("mapping", [("tuple", [Q8, ("string", [])]), I]), lambda: {((1,), "k"): 1})
    fixed(("mapping", [V8, I]), lambda: {Var(1, "k"): 1})
    fixed(("set", [("sequence", [("set", [U])])]), lambda: {(frozenset({env.attached[0]}),), ()})
    fixed(("sequence", [("set", [("tuple", [Q8, V8])])]), lambda: [{((5, 6), Var(1, "é"))}, set()])
    # values that are EQUAL for Python but not the same value: the two zeros (and 1 / True / 1.0 where the types allow) side by side in
    # one container -- as mapping values, sequence elements, tuple fields; floats are judged bit for bit
    D, F = ("double", []), ("float", [])
    for ft in (D, F):
        fixed(("mapping", [I, ft]), lambda: {1: 0.0, 2: -0.0, 3: 0.0, 4: -0.0})
        fixed(("mapping", [("string", []), ft]), lambda: {"a": -0.0, "b": 0.0, "c": 1.5})
        fixed(("sequence", [ft]), lambda: [0.0, -0.0, 0.0, float("nan"), -0.0])
        fixed(("tuple", [ft, ft, ft]), lambda: (-0.0, 0.0, -0.0))
        fixed(("mapping", [I, ("sequence", [ft])]), lambda: {1: [0.0], 2: [-0.0]})
        fixed(("sequence", [("mapping", [I, ft])]), lambda: [{1: -0.0}, {1: 0.0}])
    fixed(("mapping", [I, ("uint8_t", [])]), lambda: {1: 1, 2: True, 3: 0, 4: False})
    fixed(("mapping", [("string", []), ("string", [])]), lambda: {"a": "x", "b": "x", "c": ""})
    for k in range(n):
        t = auxval.rand_type(rng, rng.choice([0, 1, 1, 2, 2, 3, 4, 5]), rich=(k % 3 == 0))
        try:
            cases.append((t, auxval.rand_value(rng, t, env), env))
        except TypeError as e:
            env.unbuildable.append((auxval.type_str(t), str(e)))
    return cases, env


def features(t, v):
    f = set()

    def walk(t):
        f.add(t[0])
        for s in t[1]:
            walk(s)
    walk(t)
    return f
