package com.google.protobuf;

/**
 * Minimal stand-in for protobuf's ByteString (there is no protobuf jar in the
 * sandbox). Only what com.grammatech.gtirb.Util references: EMPTY,
 * toByteArray(), copyFrom(byte[]).
 */
public final class ByteString {
    public static final ByteString EMPTY = new ByteString(new byte[0]);

    private final byte[] bytes;

    private ByteString(byte[] b) { this.bytes = b; }

    public static ByteString copyFrom(byte[] b) {
        if (b.length == 0) {
            return EMPTY;
        }
        return new ByteString(b.clone());
    }

    public byte[] toByteArray() { return this.bytes.clone(); }

    public int size() { return this.bytes.length; }

    public boolean isEmpty() { return this.bytes.length == 0; }

    @Override
    public boolean equals(Object o) {
        return o == this || (o instanceof ByteString &&
                             java.util.Arrays.equals(this.bytes, ((ByteString)o).bytes));
    }

    @Override
    public int hashCode() {
        return java.util.Arrays.hashCode(this.bytes);
    }
}
