// Java leg of check C08 (harness/javaleg.py).
//
// Reads one case per line from stdin:   <type name> <hex bytes, or "-" for none>
// and, with the repository's stand-alone AuxData codecs (com.grammatech.gtirb.auxdatacodec),
//   (a) decodes the bytes,  (b) re-encodes the decoded Java value,
// and prints one reply line per case:
//   OK <hex of the re-encoded bytes, or "-"> <decoded value as an s-expression>
//   UNSUPPORTED <reason>            no Java codec announces this type name / arity
//   ERR <exception class> <message>
//
// The s-expression uses the harness' sx format (hexadecimal atoms, see common.sx_load / auxval.to_sx):
//   (0 int) (1 bool) (3 (code points)) (4 uuid-as-128-bit-number, most significant bits first)
//   (6 uuid-sx displacement) (7 (elems)) (8 (elems)) (9 ((k v) ...)) (a (fields)) (b index value)
//   (d raw-binary32-bits)   -- a `float`; the Python side widens it by integer arithmetic
//
// Leaf codecs are looked up by what their getTypeName() announces, and the type name of every codec
// that is built must be the requested type name.

import com.grammatech.gtirb.Offset;
import com.grammatech.gtirb.auxdatacodec.BoolCodec;
import com.grammatech.gtirb.auxdatacodec.ByteCodec;
import com.grammatech.gtirb.auxdatacodec.Codec;
import com.grammatech.gtirb.auxdatacodec.FloatCodec;
import com.grammatech.gtirb.auxdatacodec.IntegerCodec;
import com.grammatech.gtirb.auxdatacodec.ListCodec;
import com.grammatech.gtirb.auxdatacodec.LongCodec;
import com.grammatech.gtirb.auxdatacodec.MapCodec;
import com.grammatech.gtirb.auxdatacodec.OffsetCodec;
import com.grammatech.gtirb.auxdatacodec.SetCodec;
import com.grammatech.gtirb.auxdatacodec.ShortCodec;
import com.grammatech.gtirb.auxdatacodec.StringCodec;
import com.grammatech.gtirb.auxdatacodec.Tuple1Codec;
import com.grammatech.gtirb.auxdatacodec.Tuple2Codec;
import com.grammatech.gtirb.auxdatacodec.Tuple3Codec;
import com.grammatech.gtirb.auxdatacodec.Tuple4Codec;
import com.grammatech.gtirb.auxdatacodec.Tuple5Codec;
import com.grammatech.gtirb.auxdatacodec.UuidCodec;
import com.grammatech.gtirb.auxdatacodec.Variant11Codec;
import com.grammatech.gtirb.auxdatacodec.Variant2Codec;
import com.grammatech.gtirb.auxdatacodec.Variant3Codec;
import com.grammatech.gtirb.tuple.Tuple1;
import com.grammatech.gtirb.tuple.Tuple2;
import com.grammatech.gtirb.tuple.Tuple3;
import com.grammatech.gtirb.tuple.Tuple4;
import com.grammatech.gtirb.tuple.Tuple5;
import com.grammatech.gtirb.variant.Token;
import com.grammatech.gtirb.variant.Variant11;
import com.grammatech.gtirb.variant.Variant2;
import com.grammatech.gtirb.variant.Variant3;
import java.io.BufferedOutputStream;
import java.io.BufferedReader;
import java.io.ByteArrayInputStream;
import java.io.ByteArrayOutputStream;
import java.io.InputStreamReader;
import java.io.PrintStream;
import java.nio.charset.StandardCharsets;
import java.util.ArrayList;
import java.util.HashMap;
import java.util.HashSet;
import java.util.List;
import java.util.Map;
import java.util.Optional;
import java.util.Set;
import java.util.UUID;
import java.util.function.Supplier;

@SuppressWarnings({"unchecked", "rawtypes"})
public class Driver {

    // ---- concrete tuple / variant classes (the repository's are abstract) ----
    static final class T1 extends Tuple1<Object> {
        T1(Object a) { super(a); }
    }
    static final class T2 extends Tuple2<Object, Object> {
        T2(Object a, Object b) { super(a, b); }
    }
    static final class T3 extends Tuple3<Object, Object, Object> {
        T3(Object a, Object b, Object c) { super(a, b, c); }
    }
    static final class T4 extends Tuple4<Object, Object, Object, Object> {
        T4(Object a, Object b, Object c, Object d) { super(a, b, c, d); }
    }
    static final class T5 extends Tuple5<Object, Object, Object, Object, Object> {
        T5(Object a, Object b, Object c, Object d, Object e) { super(a, b, c, d, e); }
    }
    static final class V2 extends Variant2<Object, Object> {
        V2(Token.T0 t, Object o) { super(t, o); }
        V2(Token.T1 t, Object o) { super(t, o); }
    }
    static final class V3 extends Variant3<Object, Object, Object> {
        V3(Token.T0 t, Object o) { super(t, o); }
        V3(Token.T1 t, Object o) { super(t, o); }
        V3(Token.T2 t, Object o) { super(t, o); }
    }
    static final class V11
        extends Variant11<Object, Object, Object, Object, Object, Object, Object, Object, Object, Object, Object> {
        V11(Token.T0 t, Object o) { super(t, o); }
        V11(Token.T1 t, Object o) { super(t, o); }
        V11(Token.T2 t, Object o) { super(t, o); }
        V11(Token.T3 t, Object o) { super(t, o); }
        V11(Token.T4 t, Object o) { super(t, o); }
        V11(Token.T5 t, Object o) { super(t, o); }
        V11(Token.T6 t, Object o) { super(t, o); }
        V11(Token.T7 t, Object o) { super(t, o); }
        V11(Token.T8 t, Object o) { super(t, o); }
        V11(Token.T9 t, Object o) { super(t, o); }
        V11(Token.T10 t, Object o) { super(t, o); }
    }

    static final class Unsupported extends Exception {
        Unsupported(String m) { super(m); }
    }

    // ---- type trees ----
    static final class Ty {
        String name;
        List<Ty> subs = new ArrayList<>();
        Codec codec;
    }

    static Ty parse(String s, int[] pos) throws Exception {
        Ty t = new Ty();
        int i = pos[0];
        while (i < s.length() && "<>,".indexOf(s.charAt(i)) < 0)
            i++;
        t.name = s.substring(pos[0], i);
        if (t.name.isEmpty())
            throw new IllegalArgumentException("bad type name: " + s);
        pos[0] = i;
        if (i < s.length() && s.charAt(i) == '<') {
            pos[0]++;
            while (true) {
                t.subs.add(parse(s, pos));
                if (pos[0] >= s.length())
                    throw new IllegalArgumentException("bad type name: " + s);
                char c = s.charAt(pos[0]++);
                if (c == '>')
                    break;
                if (c != ',')
                    throw new IllegalArgumentException("bad type name: " + s);
            }
        }
        return t;
    }

    // leaf codecs, by the type name each one announces
    static final Map<String, Codec> LEAVES = new HashMap<>();
    static {
        Codec[] all = {new BoolCodec(),    ByteCodec.INT8,     ByteCodec.UINT8,    ShortCodec.INT16,
                       ShortCodec.UINT16,  IntegerCodec.INT32, IntegerCodec.UINT32, LongCodec.INT64,
                       LongCodec.UINT64,   new FloatCodec(),   new StringCodec(),  new UuidCodec(),
                       new OffsetCodec()};
        for (Codec c : all)
            LEAVES.put(c.getTypeName(), c);
    }

    static void build(Ty t) throws Exception {
        for (Ty s : t.subs)
            build(s);
        int n = t.subs.size();
        Codec[] c = new Codec[n];
        for (int i = 0; i < n; i++)
            c[i] = t.subs.get(i).codec;
        if (n == 0) {
            Codec leaf = LEAVES.get(t.name);
            if (leaf == null)
                throw new Unsupported("no leaf codec announces type name " + t.name);
            t.codec = leaf;
            return;
        }
        switch (t.name) {
        case "sequence":
            need(t, n == 1);
            t.codec = new ListCodec(c[0], (Supplier)ArrayList::new);
            break;
        case "set":
            need(t, n == 1);
            t.codec = new SetCodec(c[0], (Supplier)HashSet::new);
            break;
        case "mapping":
            need(t, n == 2);
            t.codec = new MapCodec(c[0], c[1], (Supplier)HashMap::new);
            break;
        case "tuple":
            switch (n) {
            case 1:
                t.codec = new Tuple1Codec(c[0], (Tuple1Codec.Tuple1Maker)(a) -> new T1(a));
                break;
            case 2:
                t.codec = new Tuple2Codec(c[0], c[1], (Tuple2Codec.Tuple2Maker)(a, b) -> new T2(a, b));
                break;
            case 3:
                t.codec = new Tuple3Codec(c[0], c[1], c[2], (Tuple3Codec.Tuple3Maker)(a, b, d) -> new T3(a, b, d));
                break;
            case 4:
                t.codec = new Tuple4Codec(c[0], c[1], c[2], c[3],
                                          (Tuple4Codec.Tuple4Maker)(a, b, d, e) -> new T4(a, b, d, e));
                break;
            case 5:
                t.codec = new Tuple5Codec(c[0], c[1], c[2], c[3], c[4],
                                          (Tuple5Codec.Tuple5Maker)(a, b, d, e, f) -> new T5(a, b, d, e, f));
                break;
            default:
                need(t, false);
            }
            break;
        case "variant":
            switch (n) {
            case 2:
                t.codec = new Variant2Codec(c[0], c[1], (Variant2Codec.Variant2Maker)(x) -> new V2(new Token.T0(), x),
                                            (Variant2Codec.Variant2Maker)(x) -> new V2(new Token.T1(), x));
                break;
            case 3:
                t.codec = new Variant3Codec(c[0], c[1], c[2],
                                            (Variant3Codec.Variant3Maker)(x) -> new V3(new Token.T0(), x),
                                            (Variant3Codec.Variant3Maker)(x) -> new V3(new Token.T1(), x),
                                            (Variant3Codec.Variant3Maker)(x) -> new V3(new Token.T2(), x));
                break;
            case 11:
                t.codec = new Variant11Codec(c[0], c[1], c[2], c[3], c[4], c[5], c[6], c[7], c[8], c[9], c[10],
                                             (Variant11Codec.Variant11Maker)(x) -> new V11(new Token.T0(), x),
                                             (Variant11Codec.Variant11Maker)(x) -> new V11(new Token.T1(), x),
                                             (Variant11Codec.Variant11Maker)(x) -> new V11(new Token.T2(), x),
                                             (Variant11Codec.Variant11Maker)(x) -> new V11(new Token.T3(), x),
                                             (Variant11Codec.Variant11Maker)(x) -> new V11(new Token.T4(), x),
                                             (Variant11Codec.Variant11Maker)(x) -> new V11(new Token.T5(), x),
                                             (Variant11Codec.Variant11Maker)(x) -> new V11(new Token.T6(), x),
                                             (Variant11Codec.Variant11Maker)(x) -> new V11(new Token.T7(), x),
                                             (Variant11Codec.Variant11Maker)(x) -> new V11(new Token.T8(), x),
                                             (Variant11Codec.Variant11Maker)(x) -> new V11(new Token.T9(), x),
                                             (Variant11Codec.Variant11Maker)(x) -> new V11(new Token.T10(), x));
                break;
            default:
                need(t, false);
            }
            break;
        default:
            throw new Unsupported("no codec for " + t.name);
        }
    }

    static void need(Ty t, boolean ok) throws Unsupported {
        if (!ok)
            throw new Unsupported("no codec for " + t.name + " with " + t.subs.size() + " parameter(s)");
    }

    // ---- rendering of decoded values ----
    static String u64(long v) { return Long.toUnsignedString(v, 16); }

    static void renderUuid(StringBuilder sb, UUID u) {
        long hi = u.getMostSignificantBits(), lo = u.getLeastSignificantBits();
        sb.append("(4 ");
        if (hi == 0)
            sb.append(u64(lo));
        else {
            String l = u64(lo);
            sb.append(u64(hi));
            for (int i = l.length(); i < 16; i++)
                sb.append('0');
            sb.append(l);
        }
        sb.append(")");
    }

    static Object field(Class<?> cls, Object o, int i) throws Exception {
        return cls.getMethod("get" + i).invoke(o);
    }

    static void render(StringBuilder sb, Ty t, Object v) throws Exception {
        if (v == null)
            throw new NullPointerException("decoded value is null at " + t.name);
        int n = t.subs.size();
        if (n == 0) {
            boolean uns = t.name.startsWith("uint");
            if (v instanceof Boolean)
                sb.append((Boolean)v ? "(1 1)" : "(1 0)");
            else if (v instanceof Byte)
                sb.append("(0 ").append(Long.toString(uns ? ((Byte)v & 0xFFL) : (long)(Byte)v, 16)).append(")");
            else if (v instanceof Short)
                sb.append("(0 ").append(Long.toString(uns ? ((Short)v & 0xFFFFL) : (long)(Short)v, 16)).append(")");
            else if (v instanceof Integer)
                sb.append("(0 ")
                    .append(Long.toString(uns ? ((Integer)v & 0xFFFFFFFFL) : (long)(Integer)v, 16))
                    .append(")");
            else if (v instanceof Long)
                sb.append("(0 ").append(uns ? u64((Long)v) : Long.toString((Long)v, 16)).append(")");
            else if (v instanceof Float)
                sb.append("(d ").append(Integer.toHexString(Float.floatToRawIntBits((Float)v))).append(")");
            else if (v instanceof String) {
                sb.append("(3 (");
                String s = (String)v;
                boolean first = true;
                for (int i = 0; i < s.length();) {
                    int cp = s.codePointAt(i);
                    i += Character.charCount(cp);
                    if (!first)
                        sb.append(' ');
                    first = false;
                    sb.append(Integer.toHexString(cp));
                }
                sb.append("))");
            } else if (v instanceof UUID)
                renderUuid(sb, (UUID)v);
            else if (v instanceof Offset) {
                sb.append("(6 ");
                renderUuid(sb, ((Offset)v).getElementId());
                sb.append(' ').append(u64(((Offset)v).getDisplacement())).append(")");
            } else
                throw new ClassCastException("unexpected leaf value class " + v.getClass().getName());
            return;
        }
        boolean first = true;
        switch (t.name) {
        case "sequence":
        case "set":
            sb.append(t.name.equals("set") ? "(8 (" : "(7 (");
            for (Object x : (t.name.equals("set") ? (Iterable)(Set)v : (Iterable)(List)v)) {
                if (!first)
                    sb.append(' ');
                first = false;
                render(sb, t.subs.get(0), x);
            }
            sb.append("))");
            break;
        case "mapping":
            sb.append("(9 (");
            for (Object e : ((Map)v).entrySet()) {
                if (!first)
                    sb.append(' ');
                first = false;
                sb.append('(');
                render(sb, t.subs.get(0), ((Map.Entry)e).getKey());
                sb.append(' ');
                render(sb, t.subs.get(1), ((Map.Entry)e).getValue());
                sb.append(')');
            }
            sb.append("))");
            break;
        case "tuple": {
            Class<?> cls = n == 1 ? Tuple1.class
                                  : n == 2 ? Tuple2.class : n == 3 ? Tuple3.class : n == 4 ? Tuple4.class : Tuple5.class;
            sb.append("(a (");
            for (int i = 0; i < n; i++) {
                if (i > 0)
                    sb.append(' ');
                render(sb, t.subs.get(i), field(cls, v, i));
            }
            sb.append("))");
            break;
        }
        case "variant": {
            Class<?> cls = n == 2 ? Variant2.class : n == 3 ? Variant3.class : Variant11.class;
            int idx = (Integer)cls.getMethod("getIndex").invoke(v);
            if (idx < 0 || idx >= n)
                throw new IndexOutOfBoundsException("variant index " + idx);
            Optional<?> o = (Optional<?>)field(cls, v, idx);
            sb.append("(b ").append(Integer.toHexString(idx)).append(' ');
            render(sb, t.subs.get(idx), o.get());
            sb.append(")");
            break;
        }
        default:
            throw new IllegalStateException(t.name);
        }
    }

    // ---- hex ----
    static byte[] unhex(String h) {
        if (h.equals("-"))
            return new byte[0];
        if ((h.length() & 1) != 0)
            throw new IllegalArgumentException("odd hex length");
        byte[] b = new byte[h.length() / 2];
        for (int i = 0; i < b.length; i++)
            b[i] = (byte)((Character.digit(h.charAt(2 * i), 16) << 4) | Character.digit(h.charAt(2 * i + 1), 16));
        return b;
    }

    static final char[] HEX = "0123456789abcdef".toCharArray();

    static String hex(byte[] b) {
        if (b.length == 0)
            return "-";
        char[] c = new char[b.length * 2];
        for (int i = 0; i < b.length; i++) {
            c[2 * i] = HEX[(b[i] >> 4) & 0xF];
            c[2 * i + 1] = HEX[b[i] & 0xF];
        }
        return new String(c);
    }

    static String oneLine(String s) {
        if (s == null)
            return "";
        s = s.replace('\n', ' ').replace('\r', ' ');
        return s.length() > 300 ? s.substring(0, 300) : s;
    }

    public static void main(String[] args) throws Exception {
        BufferedReader in = new BufferedReader(new InputStreamReader(System.in, StandardCharsets.US_ASCII));
        PrintStream out = new PrintStream(new BufferedOutputStream(System.out, 1 << 16), false, "US-ASCII");
        Map<String, Object> cache = new HashMap<>(); // type name -> Ty, or the Throwable building it raised
        String line;
        while ((line = in.readLine()) != null) {
            if (line.isEmpty())
                continue;
            String reply;
            try {
                int sp = line.indexOf(' ');
                String tn = line.substring(0, sp);
                byte[] bytes = unhex(line.substring(sp + 1).trim());
                Object cached = cache.get(tn);
                if (cached == null) {
                    try {
                        int[] pos = {0};
                        Ty t = parse(tn, pos);
                        if (pos[0] != tn.length())
                            throw new IllegalArgumentException("bad type name: " + tn);
                        build(t);
                        cached = t;
                    } catch (Throwable e) {
                        cached = e;
                    }
                    cache.put(tn, cached);
                }
                if (cached instanceof Throwable)
                    throw(Throwable) cached;
                Ty t = (Ty)cached;
                String announced = t.codec.getTypeName();
                if (!tn.equals(announced))
                    throw new IllegalStateException("TypeNameMismatch: the codec built for " + tn + " announces " +
                                                    announced);
                ByteArrayInputStream bin = new ByteArrayInputStream(bytes);
                Object v = t.codec.decode(bin);
                if (bin.available() != 0)
                    throw new IllegalStateException("TrailingBytes: " + bin.available() + " byte(s) left undecoded");
                ByteArrayOutputStream bout = new ByteArrayOutputStream();
                t.codec.encode(bout, v);
                StringBuilder sb = new StringBuilder();
                render(sb, t, v);
                reply = "OK " + hex(bout.toByteArray()) + " " + sb;
            } catch (Unsupported e) {
                reply = "UNSUPPORTED " + oneLine(e.getMessage());
            } catch (Throwable e) {
                Throwable c = e;
                if (c instanceof java.lang.reflect.InvocationTargetException && c.getCause() != null)
                    c = c.getCause();
                reply = "ERR " + c.getClass().getName() + " " + oneLine(c.getMessage());
            }
            out.println(reply);
            out.flush(); // so that, were a later case to hang, the replies so far survive the kill
        }
        out.flush();
    }
}
