#!/venv/bin/python
"""Run the checks against a seeded change:  harness/seedtest.py <seeded-id> [--from /tmp/mut_Cxx] [--checks C01,C02] [--tier quick]
 1. (optionally) import patch.diff / demo.py / meta.json from a scratch worktree into /verif/seeded/<id>/
 2. demo passes on the pristine /repo; apply the patch to /repo; demo fails; the baseline suite still passes
 3. run the named checks (default: the property the change breaks) and record which of them raise the alarm
 4. undo the patch (git -C /repo checkout -- .) whatever happened."""
import argparse
import json
import os
import shutil
import subprocess
import sys
import time

VERIF = os.path.dirname(os.path.dirname(os.path.abspath(__file__)))
REPO = "/repo"


def sh(cmd, **kw):
    p = subprocess.run(cmd, shell=isinstance(cmd, str), stdout=subprocess.PIPE, stderr=subprocess.STDOUT, **kw)
    return p.returncode, p.stdout.decode(errors="replace")


def main():
    ap = argparse.ArgumentParser()
    ap.add_argument("sid")
    ap.add_argument("--from", dest="src", default=None)
    ap.add_argument("--checks", default=None)
    ap.add_argument("--tier", default="quick")
    ap.add_argument("--seed", default="1")
    a = ap.parse_args()
    d = os.path.join(VERIF, "seeded", a.sid)
    if a.src:
        os.makedirs(d, exist_ok=True)
        for fn in ("patch.diff", "demo.py", "meta.json"):
            shutil.copy(os.path.join(a.src, fn), os.path.join(d, fn))
    meta = json.load(open(os.path.join(d, "meta.json")))
    prop = meta["property"]
    checks = a.checks.split(",") if a.checks else [prop]
    rc, out = sh("git -C %s status --porcelain" % REPO)
    if out.strip():
        print("refusing: /repo has uncommitted changes:\n" + out)
        return 2
    # (the demos were written against a loader kit at /tmp/mutkit; a copy is kept in seeded/kit and put on the path)
    env = dict(os.environ, VERIF_REPO=REPO, PYTHONHASHSEED="0", PYTHONPATH=os.path.join(VERIF, "seeded", "kit"))
    res = {"at": time.strftime("%Y-%m-%d %H:%M:%S"), "tier": a.tier, "seed": a.seed}
    demo = os.path.join(d, "demo.py")
    rc, out = sh(["/venv/bin/python", demo], env=env, timeout=600)
    res["demo_on_pristine"] = rc
    if rc != 0:
        print("demo does not pass on the pristine tree:\n" + out[-1500:])
    rc, out = sh("git -C %s apply %s" % (REPO, os.path.join(d, "patch.diff")))
    if rc != 0:
        print("patch does not apply:\n" + out)
        return 2
    try:
        rc, out = sh(["/venv/bin/python", demo], env=env, timeout=600)
        res["demo_with_change"] = rc
        rc, out = sh("cd /repo && /venv/bin/python -m pytest -q -p no:cacheprovider --timeout=900 2>&1 | tail -2")
        res["baseline_tail"] = out.strip().split("\n")[-1]
        res["checks"] = {}
        if checks == ["all"]:
            checks = [c["property_id"] for c in json.load(open(os.path.join(VERIF, "MANIFEST.json")))["checks"]]
            # every check builds what it needs itself (model part once, then its own proof files; the build lock serialises it)
            from concurrent.futures import ThreadPoolExecutor
            def one(c):
                t0 = time.time()
                rc, out = sh("cd %s && VERIF_SEED=%s harness/check.py %s --tier %s" % (VERIF, a.seed, c, a.tier), timeout=7200)
                return c, rc, out, time.time() - t0
            with ThreadPoolExecutor(12) as ex:
                results = list(ex.map(one, checks))
        else:
            results = None
        for c in checks:
            t0 = time.time()
            if results is not None:
                _, rc, out, dt = [r for r in results if r[0] == c][0]
                t0 = time.time() - dt
            else:
                rc, out = sh("cd %s && VERIF_SEED=%s harness/check.py %s --tier %s" % (VERIF, a.seed, c, a.tier), timeout=7200)
            viol = [l for l in out.split("\n") if l.startswith("VIOLATION")]
            detail = [l.strip() for l in out.split("\n") if l.startswith("  [")][:4]
            res["checks"][c] = {"exit": rc, "violation_line": viol[0] if viol else None, "first_findings": detail, "wall_s": round(time.time() - t0, 1)}
            if results is None or rc != 0:
                print("%s on %s: exit %d %s" % (c, a.sid, rc, viol[0] if viol else ""))
            for l in detail[:3]:
                print("   " + l[:260])
    finally:
        sh("git -C %s checkout -- ." % REPO)
        rc, out = sh("git -C %s status --porcelain" % REPO)
        if out.strip():
            print("WARNING: /repo not clean after undo:\n" + out)
    meta.setdefault("verif_runs", []).append(res)
    if meta.get("kind") == "harmless":
        meta["alarms"] = sorted({c for r in meta["verif_runs"] for c, v in r.get("checks", {}).items() if v["exit"] != 0})
    meta["caught_by"] = sorted({c for r in meta["verif_runs"] for c, v in r.get("checks", {}).items() if v["exit"] == 1 and v["violation_line"]})
    json.dump(meta, open(os.path.join(d, "meta.json"), "w"), indent=1)
    print(json.dumps({k: v for k, v in res.items() if k != "checks"}))
    return 0


if __name__ == "__main__":
    sys.exit(main())
