#!/bin/bash
# harness/reverttest.sh : "a fixed entry suppresses nothing ... reports the violation again if it ever returns".
# For every `fixed:` line of KNOWN_FINDINGS.txt the upstream fix commit is REVERSE-APPLIED on a scratch worktree of /repo (never on
# /repo itself) and the property's quick check runs against it (development mode, no rebuild): it must raise the alarm.
# A revert that no longer applies (later fixes rewrote the same lines) is listed as such.  Writes seeded/REVERTS.md.
cd "$(dirname "$0")/.."
WT=/tmp/rv_wt
git -C /repo worktree remove --force $WT 2>/dev/null; git -C /repo worktree add -q --detach $WT HEAD
OUT=seeded/REVERTS.md
{ echo "# Every upstream fix reverted: does the property's check report the violation again?"; echo
  echo "(harness/reverttest.sh on /repo $(git -C /repo rev-parse --short HEAD), quick tier, seed ${VERIF_SEED:-1}; the revert is applied to a scratch worktree)"; echo
  echo "| property | fix commit | outcome | first finding |"; echo "|---|---|---|---|"; } > $OUT
grep "^fixed:" KNOWN_FINDINGS.txt | awk '{print $2, $3}' | sed 's/property=//' | sort -u | while read p c; do
  git -C $WT checkout -q -- . ; git -C $WT reset -q --hard
  if ! git -C /repo show $c -- python proto | git -C $WT apply -R 2>/dev/null; then
    # (a three-way merge places the revert when only the context moved)
    if ! git -C /repo show $c -- python proto | git -C $WT apply -R --3way >/dev/null 2>&1 || git -C $WT diff --name-only --diff-filter=U | grep -q .; then
      git -C $WT reset -q --hard
      echo "| $p | $c | revert does not apply any more (the lines were rewritten by later fixes) | – |" >> $OUT; echo "$p $c REVERT-DOES-NOT-APPLY"; continue
    fi
    git -C $WT reset -q
  fi
  out=$(VERIF_REPO=$WT VERIF_EVIDENCE_SUFFIX=.rv VERIF_DEV_NOPROPS=1 timeout 1200 /venv/bin/python harness/check.py $p --no-build 2>&1 | grep -v "^KNOWN")
  if echo "$out" | grep -q "^VIOLATION"; then res=reported; else res="NOT REPORTED"; fi
  first=$(echo "$out" | grep '^\s*\[' | head -1 | cut -c1-160 | tr '|' '/')
  echo "| $p | $c | $res | $first |" >> $OUT; echo "$p $c $res"
done
git -C /repo worktree remove --force $WT; git -C /repo worktree prune
rm -f evidence/*.rv.json replays/*.rv.json
