"""Shared runner for the lookup properties (C05, C06, C10, C12, C13)."""
import world
import worldgen
from world import QUERY_M

EDIT_SETM = ["add", "discard", "remove", "clear", "update", "ior", "iand", "isub", "ixor"]


def edit_step(h, rng, weights):
    """one random edit according to weights dict(setparent, set, mods, attr, symx)"""
    tot = sum(weights.values())
    r = rng.random() * tot
    for k, wt in weights.items():
        r -= wt
        if r <= 0:
            getattr(h, "op_" + k)()
            return


def battery(h, rng, methods, n):
    out = []
    for _ in range(n):
        r = h.op_query(methods)
        if r is not None:
            out.append(r)
    return out


def judged_queries(ctx, h, rng, methods, n, sig):
    """issue n lookups, judge each with the fresh-scan oracle"""
    for (it, rep) in battery(h, rng, methods, n):
        ctx.count("query:" + [k for k, v in QUERY_M.items() if v == it[2]][0] + ("@" + h.w.kind[it[1]]))
        bad = world.oracle_query(h.w, it, rep)
        if rep[0] == 0 and rep[1]:
            ctx.count("nonempty_results")
        if bad:
            h.problems.append((len(h.items) - 1, bad))
            ctx.add("oracle", "%s:m%d" % (sig, it[2]), "lookup %s: %s" % (it, "; ".join(bad[:2])),
                    {"items": h.items, "problems": bad[:6]})
            return False
    return True


def burst(h, rng):
    """a run of edits concentrated on ONE section (or one byte interval) with no lookup in between: many index events for few
    members, members joining with and without an address / blocks joining in bulk -- the states in which the choice between
    replaying pending events and rebuilding the index matters"""
    from world import K
    if rng.random() < 0.6 and h.by_kind["Section"] and h.by_kind["ByteInterval"]:
        s = rng.choice(h.by_kind["Section"])
        mem0 = [x for x in h.w.kids(s)]
        if mem0 and rng.random() < 0.25:
            # a member is re-added while it is a member / leaves and returns in a bulk update
            bi = rng.choice(mem0)
            if rng.random() < 0.5:
                h.emit([3, s, [K["ByteInterval"]], rng.choice([0, 5, 6]), [[bi]]])
            else:
                h.emit([2, bi, []])
                h.emit([3, s, [K["ByteInterval"]], 5, [[bi] + [x for x in h.by_kind["ByteInterval"] if x != bi][:1]]])
            return
        for _ in range(rng.choice([2, 3, 5, 8])):
            mem = [x for x in h.w.kids(s)]
            r = rng.random()
            if mem and r < 0.45:
                bi = rng.choice(mem)
                if rng.random() < 0.6:
                    h.emit([14, bi, world.opt(rng.choice(worldgen.ADDRS))])
                else:
                    h.emit([15, bi, rng.choice(worldgen.SIZES + [32])])
            elif r < 0.85:
                bi = rng.choice(h.by_kind["ByteInterval"])
                if rng.random() < 0.5:
                    h.emit([14, bi, []])                 # joins without an address: no index event
                if rng.random() < 0.5:
                    h.emit([2, bi, [s]])
                else:
                    h.emit([3, s, [K["ByteInterval"]], 0, [[bi]]])
            elif mem:
                h.emit([2, rng.choice(mem), []])
    elif h.by_kind["ByteInterval"]:
        bi = rng.choice(h.by_kind["ByteInterval"])
        blocks = h.by_kind["CodeBlock"] + h.by_kind["DataBlock"]
        mem0 = [x for x in h.w.kids(bi)]
        if mem0 and len(blocks) >= 2 and rng.random() < 0.35:
            # a member leaves and comes back -- unchanged -- as part of a bulk update, with no lookup in between
            b = rng.choice(mem0)
            others = [x for x in blocks if x != b]
            h.emit([2, b, []] if rng.random() < 0.5 else [3, bi, [K["CodeBlock"], K["DataBlock"]], 1, [[b]]])
            batch = [b] + rng.sample(others, min(len(others), rng.choice([1, 2])))
            rng.shuffle(batch)
            h.emit([3, bi, [K["CodeBlock"], K["DataBlock"]], 5, [batch]])
            return
        for _ in range(rng.choice([2, 3, 5, 8])):
            mem = [x for x in h.w.kids(bi)]
            r = rng.random()
            if mem and r < 0.5:
                b = rng.choice(mem)
                h.emit([15, b, rng.choice(worldgen.SIZES)] if rng.random() < 0.5 else [16, b, rng.choice(worldgen.OFFS)])
            elif blocks and r < 0.85:
                some = list(dict.fromkeys(rng.choice(blocks) for _ in range(rng.choice([1, 2, 3]))))
                if rng.random() < 0.5:
                    h.emit([3, bi, [K["CodeBlock"], K["DataBlock"]], 5, [some]])        # bulk update
                else:
                    h.emit([2, some[0], [bi]])
            elif mem:
                h.emit([2, rng.choice(mem), []])


def lookup_history(ctx, g, rng, length, weights, methods, sig, per_step=3, pool=None):
    h = worldgen.Hist(g, rng, {"setm": EDIT_SETM + ["pop"], "pool": pool} if pool else {"setm": EDIT_SETM + ["pop"]})
    h.setup_pool()
    h.build_some_structure(0.85)
    # lookup frequency varies per history: bursts of many pending edits as well as a lookup after every edit
    freq = rng.choice([0.05, 0.15, 0.4, 0.8, 1.0])
    if rng.random() < 0.5:
        judged_queries(ctx, h, rng, methods, 4, sig)          # build the lazy indexes early, so later edits are replayed, not rebuilt
    for _ in range(length):
        if rng.random() < 0.12:
            burst(h, rng)
        else:
            edit_step(h, rng, weights)
        if rng.random() < freq:
            if not judged_queries(ctx, h, rng, methods, per_step, sig):
                return h
    judged_queries(ctx, h, rng, methods, 12, sig)
    return h
