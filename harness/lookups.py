"""Shared runner for the lookup properties (C05, C06, C10, C12, C13)."""
import world
import worldgen
from world import QUERY_M

EDIT_SETM = ["add", "discard", "remove", "clear", "update", "ior", "iand", "isub", "ixor"]


def edit_step(h, rng, weights):
    """one random edit according to weights dict(setparent, set, mods, attr, symx)"""
    tot = sum(weights.values())
    r = rng.random() * tot
    for k, wt in weights.items():
        r -= wt
        if r <= 0:
            getattr(h, "op_" + k)()
            return


def battery(h, rng, methods, n):
    out = []
    for _ in range(n):
        r = h.op_query(methods)
        if r is not None:
            out.append(r)
    return out


def judged_queries(ctx, h, rng, methods, n, sig):
    """issue n lookups, judge each with the fresh-scan oracle"""
    for (it, rep) in battery(h, rng, methods, n):
        ctx.count("query:" + [k for k, v in QUERY_M.items() if v == it[2]][0] + ("@" + h.w.kind[it[1]]))
        bad = world.oracle_query(h.w, it, rep)
        if rep[0] == 0 and rep[1]:
            ctx.count("nonempty_results")
        if bad:
            h.problems.append((len(h.items) - 1, bad))
            ctx.add("oracle", "%s:m%d" % (sig, it[2]), "lookup %s: %s" % (it, "; ".join(bad[:2])),
                    {"items": h.items, "problems": bad[:6]})
            return False
    return True


def copy_probe(ctx, h, rng, methods, n, sig):
    """The whole world is copied -- copy.deepcopy, or a pickle round trip -- at whatever moment the history has reached (index
    events may be pending, indexes may or may not have been built), and lookups are issued on the COPY and judged by a fresh scan of
    the copy: a copy of an IR is an IR, "after any history" includes the history its original went through.  The copy is then
    dropped; the original continues (and must not have been disturbed: it is queried next)."""
    how = rng.choice(["deepcopy", "deepcopy", "pickle"])
    w2 = world.copy_world(h.w, how, protocol=rng.choice([2, 4, 5]))
    if w2 is None and how == "pickle":
        ctx.count("copy_probe:pickle-unsupported")
        how = "deepcopy"
        w2 = world.copy_world(h.w, how)
    if w2 is None:
        ctx.count("copy_probe:unsupported")
        return True
    ctx.count("copy_probe:" + how)
    for _ in range(n):
        r = h.op_query(methods, dry=True)
        if r is None:
            continue
        it = r[0]
        rep = w2.run(it)
        bad = world.oracle_query(w2, it, rep)
        if bad:
            ctx.add("oracle", "%s:copy:m%d" % (sig, it[2]), "lookup %s on a %s of the world taken at this point of the history: %s" % (it, "deep copy" if how == "deepcopy" else "pickle round trip", "; ".join(bad[:2])),
                    {"items": h.items, "copy": how, "query": it, "problems": bad[:6]})
            return False
    return True


def burst(h, rng):
    """a run of edits concentrated on ONE section (or one byte interval) with no lookup in between: many index events for few
    members, members joining with and without an address / blocks joining in bulk -- the states in which the choice between
    replaying pending events and rebuilding the index matters"""
    from world import K
    if rng.random() < 0.6 and h.by_kind["Section"] and h.by_kind["ByteInterval"]:
        s = rng.choice(h.by_kind["Section"])
        mem0 = [x for x in h.w.kids(s)]
        if mem0 and rng.random() < 0.25:
            # a member is re-added while it is a member / leaves and returns in a bulk update
            bi = rng.choice(mem0)
            if rng.random() < 0.5:
                h.emit([3, s, [K["ByteInterval"]], rng.choice([0, 5, 6]), [[bi]]])
            else:
                h.emit([2, bi, []])
                h.emit([3, s, [K["ByteInterval"]], 5, [[bi] + [x for x in h.by_kind["ByteInterval"] if x != bi][:1]]])
            return
        for _ in range(rng.choice([2, 3, 5, 8])):
            mem = [x for x in h.w.kids(s)]
            r = rng.random()
            if mem and r < 0.45:
                bi = rng.choice(mem)
                if rng.random() < 0.6:
                    h.emit([14, bi, world.opt(rng.choice(worldgen.ADDRS))])
                else:
                    h.emit([15, bi, rng.choice(worldgen.SIZES + [32])])
            elif r < 0.85:
                bi = rng.choice(h.by_kind["ByteInterval"])
                if rng.random() < 0.5:
                    h.emit([14, bi, []])                 # joins without an address: no index event
                if rng.random() < 0.5:
                    h.emit([2, bi, [s]])
                else:
                    h.emit([3, s, [K["ByteInterval"]], 0, [[bi]]])
            elif mem:
                h.emit([2, rng.choice(mem), []])
    elif h.by_kind["ByteInterval"]:
        bi = rng.choice(h.by_kind["ByteInterval"])
        blocks = h.by_kind["CodeBlock"] + h.by_kind["DataBlock"]
        mem0 = [x for x in h.w.kids(bi)]
        if mem0 and len(blocks) >= 2 and rng.random() < 0.35:
            # a member leaves and comes back -- unchanged -- as part of a bulk update, with no lookup in between
            b = rng.choice(mem0)
            others = [x for x in blocks if x != b]
            h.emit([2, b, []] if rng.random() < 0.5 else [3, bi, [K["CodeBlock"], K["DataBlock"]], 1, [[b]]])
            batch = [b] + rng.sample(others, min(len(others), rng.choice([1, 2])))
            rng.shuffle(batch)
            h.emit([3, bi, [K["CodeBlock"], K["DataBlock"]], 5, [batch]])
            return
        for _ in range(rng.choice([2, 3, 5, 8])):
            mem = [x for x in h.w.kids(bi)]
            r = rng.random()
            if mem and r < 0.5:
                b = rng.choice(mem)
                h.emit([15, b, rng.choice(worldgen.SIZES)] if rng.random() < 0.5 else [16, b, rng.choice(worldgen.OFFS)])
            elif blocks and r < 0.85:
                some = list(dict.fromkeys(rng.choice(blocks) for _ in range(rng.choice([1, 2, 3]))))
                if rng.random() < 0.5:
                    h.emit([3, bi, [K["CodeBlock"], K["DataBlock"]], 5, [some]])        # bulk update
                else:
                    h.emit([2, some[0], [bi]])
            elif mem:
                h.emit([2, rng.choice(mem), []])


def edit_move_edit(h, rng):
    """edits only: a member of a well-populated owner (>= 5 members) is edited, moved to another owner and edited there, back to
    back -- three index events of the old owner in one pending batch, about a node that has meanwhile left and changed.  Returns
    lookups aimed at the old and the new owner."""
    from world import K
    qs = []
    if rng.random() < 0.6 and len(h.by_kind["ByteInterval"]) >= 2:
        a, b = rng.sample(h.by_kind["ByteInterval"], 2)
        blocks = h.by_kind["CodeBlock"] + h.by_kind["DataBlock"]
        mem = [x for x in h.w.kids(a)]
        for x in blocks:
            if len(mem) >= 5:
                break
            if x not in mem:
                h.emit([2, x, [a]])
                mem.append(x)
        if len(mem) < 2:
            return qs
        x = rng.choice(mem)
        h.emit([15, x, rng.choice([1, 2, 6])])
        h.emit([2, x, [b]] if rng.random() < 0.5 else [3, b, [K["CodeBlock"], K["DataBlock"]], 0, [[x]]])
        h.emit([16, x, rng.choice([0, 2, 5, 9])])
        for o in (0, 2, 5, 9):
            qs += [[40, a, 3, 0, o, o + 1, 1], [40, a, 2, 0, o, o + 3, 1], [40, b, 3, 0, o, o + 1, 1]]
    elif len(h.by_kind["Section"]) >= 2:
        a, b = rng.sample(h.by_kind["Section"], 2)
        bis = h.by_kind["ByteInterval"]
        mem = [x for x in h.w.kids(a)]
        for x in bis:
            if len(mem) >= 4:
                break
            if x not in mem:
                h.emit([2, x, [a]])
                mem.append(x)
        if len(mem) < 2:
            return qs
        x = rng.choice(mem)
        h.emit([14, x, [rng.choice([0, 16, 64])]])
        h.emit([15, x, rng.choice([4, 32])])
        h.emit([2, x, [b]] if rng.random() < 0.5 else [3, b, [K["ByteInterval"]], 0, [[x]]])
        h.emit([14, x, [rng.choice([100, 256])]])
        for ad in (0, 16, 64, 100, 256):
            qs += [[40, a, 4, 0, ad, ad + 8, 1], [40, a, 10, 0, 0, 1, 1], [40, b, 4, 0, ad, ad + 8, 1], [40, b, 10, 0, 0, 1, 1]]
    return qs


def grow_edit(h, rng):
    """edits only (for C12's base histories): an addressed interval grows through initialized_size with a block placed in the part
    that becomes declared; returns lookups aimed at that part, to be asked at the end of every schedule"""
    cands = [b for b in h.by_kind["ByteInterval"] if h.w.obj[b].section is not None and h.w.obj[b].address is not None
             and h.w.obj[b].size < (1 << 16) and h.w.obj[b].address + h.w.obj[b].size + 64 < (1 << 64)]
    if not cands:
        return []
    bn = rng.choice(cands)
    bi = h.w.obj[bn]
    sec = h.w.num[id(bi.section)]
    old = bi.size
    k = rng.choice([1, 2, 4, 9])
    blocks = h.by_kind["CodeBlock"] + h.by_kind["DataBlock"]
    if blocks:
        b = rng.choice(blocks)
        h.emit([2, b, [bn]])
        h.emit([16, b, old + k - 1])
        h.emit([15, b, 1])
    h.emit([29, bn, old + k])
    a = bi.address + old + k - 1
    qs = [[40, sec, 10, 0, 0, 1, 1], [40, sec, 4, 0, a, a + 1, 1], [40, sec, 0, 0, a, a + 1, 1], [40, bn, 0, 0, a, a + 1, 1]]
    for up in (h.w.num.get(id(bi.module)), h.w.num.get(id(bi.ir))):
        if up is not None:
            qs += [[40, up, 6, 0, a, a + 1, 1], [40, up, 4, 0, a, a + 1, 1], [40, up, 0, 0, a, a + 1, 1]]
    return qs


def grow_pattern(ctx, h, rng, methods, sig):
    """An addressed interval of a section whose index is already built grows THROUGH initialized_size (not through size), with
    content stored in the grown part (a block, a symbolic expression); then lookups aimed at the grown part at every scope.
    Returns False when the oracle objects."""
    from world import K
    cands = [b for b in h.by_kind["ByteInterval"] if h.w.obj[b].section is not None and h.w.obj[b].address is not None
             and h.w.obj[b].size < (1 << 16) and h.w.obj[b].address + h.w.obj[b].size + 64 < (1 << 64)]
    if not cands:
        return True
    bn = rng.choice(cands)
    bi = h.w.obj[bn]
    sec = h.w.num[id(bi.section)]
    # make sure the section index (and the interval's own) exists before the edit: replayed, not rebuilt
    h.emit([40, sec, 10, 0, 0, 1, 1])
    h.emit([40, sec, 4, 0, bi.address, bi.address + 1, 1])
    old = bi.size
    k = rng.choice([1, 2, 4, 9])
    new = old + k + rng.choice([0, 1, 3])
    h.emit([19, bn, old + k - 1, rng.randrange(1, 9)])                       # an expression in the part that is about to be declared
    blocks = h.by_kind["CodeBlock"] + h.by_kind["DataBlock"]
    if blocks and rng.random() < 0.7:
        b = rng.choice(blocks)
        h.emit([2, b, [bn]])
        h.emit([16, b, old + rng.choice([0, k - 1])])
        h.emit([15, b, rng.choice([1, 2])])
    h.emit([29, bn, new])
    ctx.count("grow_through_initialized_size")
    a0 = bi.address + old
    for scope in [bn, sec] + [x for x in (h.w.num.get(id(bi.module)), h.w.num.get(id(bi.ir))) if x is not None]:
        for m in methods:
            mm = QUERY_M[m]
            if mm in (2, 3, 9) and scope != bn:
                continue
            if mm in (4, 5) and scope == bn:
                continue
            if mm in (6, 7) and h.w.kind[scope] not in ("Module", "IR"):
                continue
            if mm == 10 and h.w.kind[scope] != "Section":
                continue
            base = old if mm in (2, 3, 9) else a0
            for (a, b) in ((base + k - 1, base + k), (base, base + k + 4), (base - 1, base + 1)):
                it = [40, scope, mm, 0, max(0, a), b, 1]
                rep = h.emit(it)
                bad = world.oracle_query(h.w, it, rep)
                if bad:
                    h.problems.append((len(h.items) - 1, bad))
                    ctx.add("oracle", "%s:m%d" % (sig, mm), "lookup %s after growing an interval through initialized_size: %s" % (it, "; ".join(bad[:2])),
                            {"items": h.items, "problems": bad[:6]})
                    return False
    return True


def fixed_sweep(ctx, g, rng, methods, sig):
    """A FIXED layout (addressed / address-less / zero-sized / abutting / overlapping intervals at 0, mid-range and the top of the
    address space; blocks of size 0, 1 and more, nested, overlapping, reaching past their interval; expressions at offsets 0, inside,
    at and beyond the size) queried EXHAUSTIVELY around every boundary: every scope x method x start in (boundary-1, boundary,
    boundary+1) x length in (point, 1, 2, 5, 17) x step in (1, 2, 3), plus the integer 0 and empty ranges.  Deterministic on every
    run; judged by the fresh-scan oracle and replayed on the model."""
    from world import K
    h = worldgen.Hist(g, rng, {})
    n = {}

    def new(kind, name, **kw):
        n[name] = h.new(kind, **kw)
        return n[name]
    ir = new("IR", "ir")
    for m in ("m1", "m2"):
        new("Module", m)
        h.emit([4, ir, n[m]])
    for s_, m in (("s1", "m1"), ("s2", "m1"), ("s3", "m2")):
        new("Section", s_)
        h.emit([2, n[s_], [n[m]]])
    TOP = (1 << 64) - 16
    layout = [("b1", "s1", 0, 8), ("b2", "s1", 8, 8), ("b3", "s1", 12, 0), ("b4", "s2", None, 16), ("b5", "s2", 100, 4), ("b6", "s3", TOP, 12), ("b7", "s3", 10, 20),
              ("b8", "s2", TOP + 8, 16)]                 # an interval that reaches beyond 2**64: its address is a legal uint64, the addresses of its blocks are not bounded
    for b, s_, addr, size in layout:
        new("ByteInterval", b, addr=addr, size=size)
        h.emit([2, n[b], [n[s_]]])
    blocks = [("b1", "CodeBlock", 0, 4), ("b1", "DataBlock", 0, 0), ("b1", "DataBlock", 2, 4), ("b1", "CodeBlock", 7, 1), ("b1", "DataBlock", 8, 0), ("b1", "CodeBlock", 6, 6),
              ("b2", "CodeBlock", 0, 8), ("b2", "DataBlock", 3, 1), ("b3", "CodeBlock", 0, 2), ("b4", "CodeBlock", 4, 4), ("b5", "DataBlock", 1, 2),
              ("b6", "CodeBlock", 8, 4), ("b6", "DataBlock", 11, 3), ("b7", "CodeBlock", 0, 20), ("b7", "DataBlock", 19, 1),
              ("b8", "CodeBlock", 4, 8), ("b8", "DataBlock", 8, 0), ("b8", "CodeBlock", 12, 2), ("b8", "DataBlock", 16, 0)]
    for i, (b, kind, off, size) in enumerate(blocks):
        x = h.new(kind)
        h.emit([16, x, off])
        h.emit([15, x, size])
        h.emit([2, x, [n[b]]])
    for b, offs in (("b1", [0, 3, 7, 8, 9]), ("b2", [0, 4]), ("b4", [2]), ("b6", [0, 11, 12]), ("b7", [0, 19, 25]), ("b8", [0, 8, 13])):
        for k, o in enumerate(offs):
            h.emit([19, n[b], o, 1 + k])
    pts_a = sorted({a + d for _, _, a, sz in layout if a is not None for d in (0, sz)} | {a + o for b, _, o, z in blocks for bb, _, a, _ in layout if bb == b and a is not None for o in (o, o + z)})
    pts_o = sorted({o for _, _, o, z in blocks} | {o + z for _, _, o, z in blocks} | {0, 3, 7, 8, 9, 12, 19, 25})
    scopes = {"ByteInterval": [n[b] for b, *_ in layout], "Section": [n["s1"], n["s2"], n["s3"]], "Module": [n["m1"], n["m2"]], "IR": [ir]}
    nq = 0
    for m in methods:
        mm = QUERY_M[m]
        if mm in (2, 3, 9):
            sc, pts = scopes["ByteInterval"], pts_o
        elif mm in (0, 1, 8):
            sc, pts = scopes["ByteInterval"] + scopes["Section"] + scopes["Module"] + scopes["IR"], pts_a
        elif mm in (4, 5):
            sc, pts = scopes["Section"] + scopes["Module"] + scopes["IR"], pts_a
        elif mm in (6, 7):
            sc, pts = scopes["Module"] + scopes["IR"], pts_a
        else:
            sc, pts = scopes["Section"], [0]
        kfs = (0, 1, 2) if mm in (0, 1, 2, 3) else (0,)
        for scope in sc:
            for p0 in pts:
                for a in (p0 - 1, p0, p0 + 1):
                    if a < 0:
                        continue
                    for ln, st in ((1, 1), (2, 1), (5, 1), (17, 1), (0, 1), (5, 2), (6, 2), (7, 3), (9, 3), (17, 4)):
                        kf = kfs[nq % len(kfs)]
                        it = [40, scope, mm, kf, a, a + ln, st]
                        rep = h.emit(it)
                        nq += 1
                        bad = world.oracle_query(h.w, it, rep)
                        if bad:
                            h.problems.append((len(h.items) - 1, bad))
                            ctx.add("oracle", "%s:m%d" % (sig, mm), "fixed layout, lookup %s: %s" % (it, "; ".join(bad[:2])), {"items": h.items, "problems": bad[:6]})
                            ctx.count("fixed_sweep_queries", nq)
                            return h
                    if mm == 10:
                        break
                if mm == 10:
                    break
            # query ranges spanning half of / the whole address space and more (len() of such a range does not fit a machine word);
            # section s3 and module m2 extend over more than 2^63 addresses
            if mm != 10:
                H, W = 1 << 63, 1 << 64
                for a, b, st in ((0, W, 1), (0, H, 1), (H, W, 1), (1, H, 1), (0, H - 1, 1), (0, W, 1 << 32), (7, W, 3), (0, W + 5, 1), (H - 1, H + 1, 1), (W - 16, W, 1)):
                    it = [40, scope, mm, kfs[nq % len(kfs)], a, b, st]
                    rep = h.emit(it)
                    nq += 1
                    ctx.count("fixed_sweep_wide_queries")
                    bad = world.oracle_query(h.w, it, rep)
                    if bad:
                        h.problems.append((len(h.items) - 1, bad))
                        ctx.add("oracle", "%s:m%d" % (sig, mm), "fixed layout, lookup %s: %s" % (it, "; ".join(bad[:2])), {"items": h.items, "problems": bad[:6]})
                        ctx.count("fixed_sweep_queries", nq)
                        return h
    ctx.count("fixed_sweep_queries", nq)
    return h


def lookup_history(ctx, g, rng, length, weights, methods, sig, per_step=3, pool=None):
    h = worldgen.Hist(g, rng, {"setm": EDIT_SETM + ["pop"], "pool": pool} if pool else {"setm": EDIT_SETM + ["pop"]})
    h.setup_pool()
    h.build_some_structure(0.85)
    # lookup frequency varies per history: bursts of many pending edits as well as a lookup after every edit
    freq = rng.choice([0.05, 0.15, 0.4, 0.8, 1.0])
    if rng.random() < 0.5:
        judged_queries(ctx, h, rng, methods, 4, sig)          # build the lazy indexes early, so later edits are replayed, not rebuilt
    for _ in range(length):
        r = rng.random()
        if r < 0.12:
            burst(h, rng)
        elif r < 0.16:
            if not grow_pattern(ctx, h, rng, methods, sig):
                return h
        else:
            edit_step(h, rng, weights)
        if rng.random() < 0.12:
            if not copy_probe(ctx, h, rng, methods, per_step + 2, sig):
                return h
        if rng.random() < freq:
            if not judged_queries(ctx, h, rng, methods, per_step, sig):
                return h
    judged_queries(ctx, h, rng, methods, 12, sig)
    return h


def failed_bulk_scenario(ctx, g, rng, n, sig):
    """Error paths of the bulk entry points of `symbolic_expressions` (update, whole-mapping assignment, constructor argument): the
    iterable raises after j pairs, contains a malformed pair, or a key that cannot be ordered against the offsets.  Whatever the call
    did before it failed, afterwards the mapping is ONE consistent mapping -- len, iteration (ascending), `in`, `[]` agree -- it holds
    what the built-in dict holds after the same failing call (the pairs before the failure) where the built-in's behaviour is
    defined, every lookup reports exactly what is stored, and later single-item operations behave as on a fresh mapping."""
    from common import exc_name
    for rd in range(n):
        ir = g.IR()
        m = g.Module(name="m", ir=ir)
        sec = g.Section(name="s", module=m)
        addr = rng.choice([0, 1000, (1 << 40)])
        bi = g.ByteInterval(size=256, address=addr, section=sec)
        y = g.Symbol("y", module=m)
        mk = lambda: g.SymAddrConst(rng.randrange(100), y)  # noqa: E731
        shadow = {}
        for k in rng.sample(range(0, 200), rng.choice([0, 1, 3, 12])):
            e = mk()
            bi.symbolic_expressions[k] = e
            shadow[k] = e
        trail = []

        def consistent():
            d = bi.symbolic_expressions
            try:
                keys = list(d)
                n_len = len(d)
                items = list(d.items())
            except Exception as e:  # noqa: BLE001
                return "reading the mapping raises %s" % exc_name(g, e)
            if n_len != len(keys) or [k for k, _ in items] != keys:
                return "len() is %d, iteration yields %d keys, items() %d pairs" % (n_len, len(keys), len(items))
            if keys != sorted(keys) or len(set(keys)) != len(keys):
                return "iteration is not strictly ascending: %s" % keys[:8]
            for k, v in items:
                if k not in d or d[k] is not v:
                    return "key %r is iterated but `in` / [] disagree" % (k,)
            for k in shadow:
                if (k in d) != (k in keys):
                    return "key %r: `in` says %s, iteration %s" % (k, k in d, k in keys)
            got_o = [(o, id(e)) for _, o, e in bi.symbolic_expressions_at_offset(range(0, 300))]
            if got_o != [(k, id(v)) for k, v in items if k < 300]:
                return "symbolic_expressions_at_offset reports offsets %s, the mapping holds %s" % ([o for o, _ in got_o][:8], keys[:8])
            for scope, nm in ((bi, "interval"), (sec, "section"), (m, "module"), (ir, "IR")):
                got_a = sorted((o, id(e)) for _, o, e in scope.symbolic_expressions_at(range(addr, addr + 300)))
                if got_a != [(k, id(v)) for k, v in items if k < 300]:
                    return "%s.symbolic_expressions_at reports offsets %s, the mapping holds %s" % (nm, [o for o, _ in got_a][:8], keys[:8])
            return None
        for step in range(rng.choice([2, 3, 5])):
            pairs = [(k, mk()) for k in rng.sample(range(0, 200), rng.choice([1, 2, 6, 40]))]
            j = rng.randrange(len(pairs) + 1)
            kind = rng.choice(["gen-raises", "bad-pair", "unorderable-key", "ok", "single", "delete"])
            how = rng.choice(["update", "update", "assign"])
            defined = True               # is the built-in dict's result after this call defined by the pairs before the failure?
            if kind == "unorderable-key" and not (j > 0 or (how == "update" and shadow)):
                kind = "gen-raises"      # a first key of another type is simply stored (nothing to compare it with): outside the domain

            class Boom(Exception):
                pass
            if kind == "gen-raises":
                def arg_f():
                    for q in pairs[:j]:
                        yield q
                    raise Boom()
                arg = arg_f()
                prefix = pairs[:j]
            elif kind == "bad-pair":
                arg = pairs[:j] + [(7,)] + pairs[j:]
                prefix = pairs[:j]
            elif kind == "unorderable-key":
                arg = pairs[:j] + [(rng.choice(["pad", None, (1, 2)]), mk())] + pairs[j:]
                prefix, defined = pairs[:j], False
                if rng.random() < 0.5:
                    arg = dict(arg)
            else:
                arg, prefix = list(pairs), list(pairs)
            desc = "%s(%s, %d pairs, failing after %d)" % (how, kind, len(pairs), j)
            try:
                if kind == "single":
                    k, e = pairs[0]
                    bi.symbolic_expressions[k] = e
                    shadow[k] = e
                    desc = "[%d] = e" % k
                elif kind == "delete":
                    if shadow:
                        k = rng.choice(sorted(shadow))
                        del bi.symbolic_expressions[k]
                        del shadow[k]
                        desc = "del [%d]" % k
                elif how == "update":
                    try:
                        bi.symbolic_expressions.update(arg)
                        raised = None
                    except Exception as e:  # noqa: BLE001
                        raised = e
                    shadow.update(prefix)
                    if kind != "ok" and raised is None and kind != "unorderable-key":
                        ctx.add("oracle", sig, "%s did not raise" % desc, {"trail": trail + [desc]})
                else:
                    try:
                        bi.symbolic_expressions = arg
                        raised = None
                    except Exception as e:  # noqa: BLE001
                        raised = e
                    # a whole-mapping assignment has no built-in counterpart that says what a FAILED one leaves behind: either
                    # nothing happened (the value is read before the mapping is touched) or it is "clear, then update" cut short
                    # where the built-in update is; the mapping must be one of the two (and consistent with its index)
                    untouched, cut_short = dict(shadow), dict(prefix)
                    shadow = cut_short
                    if raised is not None and kind != "ok":
                        now = [(k, id(v)) for k, v in bi.symbolic_expressions.items()]
                        if now == [(k, id(untouched[k])) for k in sorted(untouched)] and now != [(k, id(cut_short[k])) for k in sorted(cut_short)]:
                            shadow = untouched
                            ctx.count("failed_assign_left_untouched")
                        else:
                            ctx.count("failed_assign_cut_short")
            except Exception as e:  # noqa: BLE001
                ctx.add("oracle", sig, "after [%s], %s raised %s" % ("; ".join(trail[-3:]), desc, exc_name(g, e)), {"trail": trail + [desc]})
                break
            trail.append(desc)
            ctx.count("failed_bulk_steps:" + kind)
            bad = consistent()
            if bad is None and defined:
                items = list(bi.symbolic_expressions.items())
                if [(k, id(v)) for k, v in items] != [(k, id(shadow[k])) for k in sorted(shadow)]:
                    bad = "the mapping holds offsets %s, the built-in dict after the same call %s" % ([k for k, _ in items][:10], sorted(shadow)[:10])
            if bad is None and not defined:
                shadow = dict(bi.symbolic_expressions.items())        # undefined for the built-in: take what a consistent mapping holds
            if bad:
                ctx.add("oracle", sig, "symbolic_expressions after [%s]: %s" % ("; ".join(trail[-3:]), bad), {"trail": trail})
                break
        ctx.case("failed-bulk:%d:%s" % (rd, trail), True)


def deferred_consumption(ctx, g, what, sig):
    """Lookups return lazy iterables.  A result is OBTAINED, then the structure is edited in a way that cannot change the answer (an
    element added or removed outside the queried window, or in another interval / section), then the result is CONSUMED: it is still
    exactly the fresh scan (which is the same before and after such an edit).  Every scope x lookup method of `what`
    ('blocks' | 'intervals' | 'expressions') x every such edit; deterministic."""
    from common import exc_name
    A1, A2 = 0x1000, 0x2000

    def build():
        ir = g.IR()
        m = g.Module(name="m", ir=ir)
        sec = g.Section(name="s", module=m)
        sec2 = g.Section(name="t", module=m)
        bi1 = g.ByteInterval(address=A1, size=64, section=sec)
        bi2 = g.ByteInterval(address=A2, size=64, section=sec2)
        y = g.Symbol("y", module=m)
        for k, off in enumerate((4, 8, 12, 40)):
            (g.CodeBlock if k % 2 else g.DataBlock)(offset=off, size=2, byte_interval=bi1)
            bi1.symbolic_expressions[off] = g.SymAddrConst(off, y)
        g.DataBlock(offset=4, size=2, byte_interval=bi2)
        bi2.symbolic_expressions[4] = g.SymAddrConst(4, y)
        return ir, m, sec, sec2, bi1, bi2, y
    win_a, win_o = range(A1 + 2, A1 + 16), range(2, 16)

    def lookups(ir, m, sec, bi1):
        L = []
        if what == "blocks":
            for pre in ("byte", "code", "data"):
                for scope, nm in ((bi1, "interval"), (sec, "section"), (m, "module"), (ir, "IR")):
                    for suf in ("on", "at"):
                        L.append(("%s.%s_blocks_%s" % (nm, pre, suf), lambda scope=scope, pre=pre, suf=suf: getattr(scope, "%s_blocks_%s" % (pre, suf))(win_a)))
                for suf in ("on_offset", "at_offset"):
                    L.append(("interval.%s_blocks_%s" % (pre, suf), lambda pre=pre, suf=suf: getattr(bi1, "%s_blocks_%s" % (pre, suf))(win_o)))
        elif what == "intervals":
            for scope, nm in ((sec, "section"), (m, "module"), (ir, "IR")):
                for suf in ("on", "at"):
                    L.append(("%s.byte_intervals_%s" % (nm, suf), lambda scope=scope, suf=suf: getattr(scope, "byte_intervals_" + suf)(win_a)))
            for scope, nm in ((m, "module"), (ir, "IR")):
                for suf in ("on", "at"):
                    L.append(("%s.sections_%s" % (nm, suf), lambda scope=scope, suf=suf: getattr(scope, "sections_" + suf)(range(A1, A1 + 8))))
        else:
            for scope, nm in ((bi1, "interval"), (sec, "section"), (m, "module"), (ir, "IR")):
                L.append(("%s.symbolic_expressions_at" % nm, lambda scope=scope: scope.symbolic_expressions_at(win_a)))
            L.append(("interval.symbolic_expressions_at_offset", lambda: bi1.symbolic_expressions_at_offset(win_o)))
        return L

    def edits(ir, m, sec, sec2, bi1, bi2, y):
        E = [("nothing", lambda: None),
             ("a block added to the interval beyond the window", lambda: g.DataBlock(offset=50, size=2, byte_interval=bi1)),
             ("the block beyond the window removed", lambda: [b for b in bi1.blocks if b.offset == 40][0].__setattr__("byte_interval", None)),
             ("an expression stored below the window", lambda: bi1.symbolic_expressions.__setitem__(0, g.SymAddrConst(0, y))),
             ("the expression beyond the window deleted", lambda: bi1.symbolic_expressions.__delitem__(40)),
             ("a block added to the OTHER interval", lambda: g.CodeBlock(offset=20, size=2, byte_interval=bi2)),
             ("an expression stored in the OTHER interval", lambda: bi2.symbolic_expressions.__setitem__(9, g.SymAddrConst(9, y))),
             ("the OTHER interval moved further away", lambda: setattr(bi2, "address", 0x5000)),
             ("an interval added to the OTHER section", lambda: g.ByteInterval(address=0x7000, size=8, section=sec2)),
             ("a section added to the module", lambda: g.Section(name="u", module=m)),
             ("a symbol added to the module", lambda: g.Symbol("z", module=m))]
        return E
    n = 0
    for ei in range(11):
        nl = len(lookups(*build()[:3], build()[4]))
        for li in range(nl):
            ir, m, sec, sec2, bi1, bi2, y = build()
            # (an earlier lookup of the same kind, so that the lazy indexes exist already in half of the cases)
            if (ei + li) % 2:
                for _, f in lookups(ir, m, sec, bi1):
                    list(f())
            name, f = lookups(ir, m, sec, bi1)[li]
            ename, e = edits(ir, m, sec, sec2, bi1, bi2, y)[ei]
            n += 1
            try:
                want0 = sorted(map(_ident, f()))
                r = f()
                e()
                got = sorted(map(_ident, r))
                want = sorted(map(_ident, f()))
            except RuntimeError:
                # "Set changed size during iteration": an iterator taken over a collection that was then resized refuses to go on, as
                # the built-ins' do -- a refusal, not a wrong answer
                ctx.count("deferred_consumption_refused")
                continue
            except Exception as ex:  # noqa: BLE001
                ctx.add("oracle", sig, "%s obtained, then %s, then consumed: %s" % (name, ename, exc_name(g, ex)), {"lookup": name, "edit": ename})
                continue
            if want != want0:
                continue          # (the edit does change this lookup's answer: not a case for this scenario)
            if got != want:
                ctx.add("oracle", sig, "%s obtained, then %s (which does not change the answer), then consumed: %d results, the fresh scan before and after gives %d"
                        % (name, ename, len(got), len(want)), {"lookup": name, "edit": ename})
    ctx.count("deferred_consumption_cases", n)
    ctx.case("deferred-consumption:" + what, True)


def _ident(x):
    if isinstance(x, tuple):
        return tuple(id(y) if not isinstance(y, int) else y for y in x)
    return id(x)


def failed_bulk_blocks(ctx, g, rng, n, sig):
    """Error paths of the bulk entry points of `interval.blocks` (update with several iterables, |=, the constructor argument): the
    iterable raises after having yielded some blocks (new ones, blocks of another interval), or holds something unhashable behind
    them.  Whatever the failed call left behind must be CONSISTENT -- a block is in an interval's set exactly if it names that
    interval -- and after offsets and sizes of the blocks named in the failed call were edited (their descriptors notify whatever
    parent they name) every block lookup at every scope is the fresh scan of the sets.  The interval's index is built beforehand and
    holds more blocks than events are queued, so that the events are replayed, not the index rebuilt."""
    from common import exc_name

    class Boom(Exception):
        pass
    A = 0x1000
    for rd in range(n):
        ir = g.IR()
        m = g.Module(name="m", ir=ir)
        sec = g.Section(name="s", module=m)
        bi = g.ByteInterval(address=A, size=128, section=sec)
        bi2 = g.ByteInterval(address=A + 256, size=128, section=sec)
        own = [(g.CodeBlock if k % 2 else g.DataBlock)(offset=8 * k, size=4, byte_interval=bi) for k in range(rng.choice([4, 6, 9]))]
        other = [g.DataBlock(offset=8 * k, size=4, byte_interval=bi2) for k in range(3)]
        free = [g.CodeBlock(offset=64 + 8 * k, size=4) for k in range(3)]
        everything = own + other + free
        scopes = [("interval", bi), ("the other interval", bi2), ("section", sec), ("module", m), ("IR", ir)]
        whole = range(A - 8, A + 512)
        for _, sc in scopes:
            list(sc.byte_blocks_on(whole))          # indexes built
        named = rng.sample(other + free, rng.choice([1, 2, 3]))
        j = rng.randrange(1, len(named) + 1)
        kind = rng.choice(["gen-raises", "unhashable-behind", "second-iterable-raises"])
        entry = rng.choice(["update", "ior", "ctor"])

        def gen():
            for x in named[:j]:
                yield x
            raise Boom()
        if kind == "gen-raises":
            args = [gen()]
        elif kind == "unhashable-behind":
            args = [named[:j] + [[]]]
        else:
            args = [named[:j], gen()]
        desc = "%s(%s, %d blocks named before the failure)" % (entry, kind, j)
        try:
            if entry == "update":
                bi.blocks.update(*args)
            elif entry == "ior":
                s_ = bi.blocks
                s_ |= args[0]
            else:
                g.ByteInterval(address=A + 1024, size=64, blocks=args[0])
            raised = None
        except Exception as e:  # noqa: BLE001
            raised = exc_name(g, e)
        ctx.count("failed_bulk_blocks:%s:%s:%s" % (entry, kind, "raised" if raised else "accepted"))
        ctx.case("failed-bulk-blocks:%d:%s" % (rd, desc), True)

        def consistent():
            for x in everything:
                p = x.byte_interval
                holders = [o for o in (bi, bi2) if x in o.blocks]
                if p is not None and p not in (bi, bi2):
                    continue                      # (claimed by the interval the failed constructor was building: not reachable)
                if holders != ([p] if p is not None else []):
                    return "a block names %s as its interval but is held by %s" % (
                        "no interval" if p is None else ("the interval" if p is bi else "the other interval"),
                        [("the interval" if o is bi else "the other interval") for o in holders] or "none")
            return None
        bad = consistent()
        if bad:
            ctx.add("oracle", sig + ":inconsistent", "after the failed %s: %s" % (desc, bad), {"call": desc, "raised": raised})
            continue
        # edit the blocks the failed call named (and one own block), then look up everywhere
        for x in named + [rng.choice(own)]:
            x.offset = rng.choice([2, 10, 18, 26, 100])
            x.size = rng.choice([1, 4, 6])
        for nm, sc in scopes:
            if sc is bi or sc is bi2:
                want = sorted(id(b) for b in sc.blocks if b.size > 0)
            else:
                want = sorted(id(b) for o in (bi, bi2) for b in o.blocks if b.size > 0 and o.address is not None and o.address + b.offset < o.address + o.size)
            got_l = [id(b) for b in sc.byte_blocks_on(whole)]
            got = sorted(got_l)
            # (section scope and above may omit what lies outside the interval's extent; none here)
            if got != want:
                ctx.add("oracle", sig + ":lookup", "after the failed %s and offset / size edits of the blocks it named, %s.byte_blocks_on(everything) yields %d blocks (%d distinct), a scan of the sets gives %d"
                        % (desc, nm, len(got_l), len(set(got_l)), len(want)), {"call": desc, "raised": raised, "scope": nm})
                break


def repeated_events(ctx, g, sig):
    """The same index event more than once between two lookups, in a collection with MORE members than pending events (so that the
    index replays its queue instead of rebuilding): one member goes out / in / out, in / out / in, or its key toggles A -> B -> A ->
    B, with no lookup in between; the state after the LAST event is what every lookup must show.  At both index levels -- the
    intervals of a section (addresses) and the blocks of an interval (offsets) -- with every lookup family judged against a scan of
    the collections at every scope.  Deterministic."""
    A = 0x1000
    for level in ("section", "interval"):
        for pattern in ("out-in-out", "in-out-in", "toggle-key-4", "toggle-key-3", "move-away-and-back-and-away", "huge-size", "huge-offset"):
            if (level, pattern) == ("section", "huge-offset"):
                continue
            ir = g.IR()
            m = g.Module(name="m", ir=ir)
            sec = g.Section(name="s", module=m)
            sec2 = g.Section(name="t", module=m)
            y = g.Symbol("y", module=m)
            if level == "section":
                members = [g.ByteInterval(address=A + 64 * k, size=32, section=sec) for k in range(9)]
                for k, bi in enumerate(members):
                    g.CodeBlock(offset=4, size=4, byte_interval=bi)
                    bi.symbolic_expressions[8] = g.SymAddrConst(k, y)
                owner, elsewhere, coll = sec, sec2, sec.byte_intervals
                x = members[3]
                def put(where): x.section = where                  # noqa: E306
                def key(v): x.address = v                           # noqa: E306
                k0, k1 = x.address, A + 64 * 20
            else:
                bi0 = g.ByteInterval(address=A, size=256, section=sec)
                bi1 = g.ByteInterval(address=A + 4096, size=256, section=sec2)
                members = [(g.CodeBlock if k % 2 else g.DataBlock)(offset=16 * k, size=8, byte_interval=bi0) for k in range(9)]
                owner, elsewhere, coll = bi0, bi1, bi0.blocks
                x = members[3]
                def put(where): x.byte_interval = where             # noqa: E306
                def key(v): x.offset = v                            # noqa: E306
                k0, k1 = x.offset, 200
            scopes = [("section", sec), ("the other section", sec2), ("module", m), ("IR", ir)]
            whole = range(A - 64, A + 8192)

            def everything():
                out = []
                for nm, sc in scopes:
                    out.append((nm, "byte_intervals_on", sorted(id(b) for b in sc.byte_intervals_on(whole))))
                    out.append((nm, "byte_blocks_on", sorted(id(b) for b in sc.byte_blocks_on(whole))))
                    out.append((nm, "byte_blocks_at", sorted(id(b) for b in sc.byte_blocks_at(whole))))
                    out.append((nm, "symbolic_expressions_at", sorted((id(t[0]), t[1]) for t in sc.symbolic_expressions_at(whole))))
                for s_ in (sec, sec2):
                    out.append(("section " + s_.name, "address/size", (s_.address, s_.size)))
                return out

            def scan():
                out = []
                for nm, sc in scopes:
                    secs = [sc] if isinstance(sc, g.Section) else list(m.sections)
                    bis = [b for s_ in secs for b in s_.byte_intervals]
                    out.append((nm, "byte_intervals_on", sorted(id(b) for b in bis if b.address is not None and b.size > 0)))
                    blks = [(b, k) for b in bis for k in b.blocks if k.offset < b.size]
                    out.append((nm, "byte_blocks_on", sorted(id(k) for b, k in blks if k.size > 0)))
                    out.append((nm, "byte_blocks_at", sorted(id(k) for b, k in blks)))
                    out.append((nm, "symbolic_expressions_at", sorted((id(b), o) for b in bis for o in b.symbolic_expressions if o < b.size)))
                for s_ in (sec, sec2):
                    bis = list(s_.byte_intervals)
                    if bis and all(b.address is not None for b in bis):
                        lo = min(b.address for b in bis)
                        out.append(("section " + s_.name, "address/size", (lo, max(b.address + b.size for b in bis) - lo)))
                    else:
                        out.append(("section " + s_.name, "address/size", (None, None)))
                return out
            everything()                                # every index built
            if pattern == "out-in-out":
                put(elsewhere); put(owner); put(elsewhere)
            elif pattern == "in-out-in":
                put(elsewhere); everything(); put(owner); put(elsewhere); put(owner)
            elif pattern == "toggle-key-4":
                key(k1); key(k0); key(k1); key(k0); key(k1)
            elif pattern == "toggle-key-3":
                key(k1); key(k0); key(k1)
            elif pattern in ("huge-size", "huge-offset"):
                # a magnitude beyond the 64-bit fields of the file format, assigned between two lookups: taken (a Python int like any
                # other) or refused with an exception -- then nothing has changed; either way every lookup shows the structure as it is
                for v in ((1 << 64), (1 << 64) + 5):
                    try:
                        if pattern == "huge-size":
                            x.size = v
                        else:
                            x.offset = v
                        ctx.count("huge_assignment_taken")
                    except Exception:  # noqa: BLE001
                        ctx.count("huge_assignment_refused")
            else:
                put(None); put(owner); put(None); put(owner); key(k1); put(None)
            got, want = everything(), scan()
            ctx.case("repeated-events:%s:%s" % (level, pattern), True)
            ctx.count("repeated_event_patterns")
            for (nm, what, a), (_, _, b) in zip(got, want):
                if a != b:
                    ctx.add("oracle", sig + ":repeated-events", "one %s of nine going through '%s' with no lookup in between: %s %s gives %d results, a scan of the collections %d"
                            % ("interval of a section" if level == "section" else "block of an interval", pattern, nm, what,
                               len(a) if isinstance(a, list) else -1, len(b) if isinstance(b, list) else -1) if isinstance(a, list) else
                            "one %s of nine going through '%s' with no lookup in between: %s is %s, a scan gives %s" % (
                                "interval of a section" if level == "section" else "block of an interval", pattern, nm, a, b),
                            {"level": level, "pattern": pattern, "scope": nm, "lookup": what})
                    break


def many_members(ctx, g, sig):
    """SCALE: collections far beyond the handful of members the random histories hold -- a section of 300 intervals, an interval of
    300 blocks and 300 expressions, a module of 40 sections -- built in bulk and piece by piece, then thinned out (every third member
    leaves, every fifth changes its key) with and without lookups in between; point and range lookups of every family at every scope
    against a scan of the collections.  Deterministic."""
    N = 300
    for route in ("bulk", "one-by-one", "one-by-one-with-lookups"):
        ir = g.IR()
        m = g.Module(name="m", ir=ir)
        y = g.Symbol("y", module=m)
        secs = [g.Section(name="s%d" % k, module=m) for k in range(40)]
        big = secs[0]
        bis = [g.ByteInterval(address=0x10000 + 16 * k, size=(0 if k % 7 == 3 else 8 + k % 5)) for k in range(N)]
        if route == "bulk":
            big.byte_intervals.update(bis)
        else:
            for k, bi in enumerate(bis):
                bi.section = big
                if route.endswith("lookups") and k % 50 == 0:
                    list(big.byte_intervals_on(0x10000 + 16 * k))
        for k, s_ in enumerate(secs[1:]):
            g.ByteInterval(address=0x100000 + 64 * k, size=32, section=s_)
        wide = g.ByteInterval(address=0x200000, size=16 * N, section=secs[1])
        blocks = [(g.CodeBlock if k % 2 else g.DataBlock)(offset=16 * k + k % 3, size=(0 if k % 11 == 5 else 4 + k % 9)) for k in range(N)]
        if route == "bulk":
            wide.blocks.update(blocks)
        else:
            for k, b in enumerate(blocks):
                b.byte_interval = wide
                if route.endswith("lookups") and k % 50 == 0:
                    list(wide.byte_blocks_on(0x200000 + 16 * k))
        for k in range(N):
            wide.symbolic_expressions[16 * k + 1] = g.SymAddrConst(k, y)
        scopes = [("interval", wide), ("section", big), ("section", secs[1]), ("module", m), ("IR", ir)]

        def all_bis():
            return [b for s_ in m.sections for b in s_.byte_intervals]

        def judge(stage):
            probes = [0x10000 + 16 * k + d for k in (0, 1, 3, 149, 150, 298, 299, 300) for d in (-1, 0, 7, 8)] + \
                     [0x200000 + 16 * k + d for k in (0, 5, 16, 150, 255, 256, 299, 300) for d in (-1, 0, 1, 3, 12)] + [0x100000, 0x100000 + 64 * 38 + 31]
            ranges = [range(0x10000, 0x10000 + 16 * N), range(0x200000 + 100, 0x200000 + 16 * N, 7), range(0x10000 + 8, 0x10000 + 4000, 16)]
            for nm, sc in scopes:
                mine = [sc] if isinstance(sc, g.ByteInterval) else (list(sc.byte_intervals) if isinstance(sc, g.Section) else all_bis())
                for q in probes + ranges:
                    qs = q if isinstance(q, range) else range(q, q + 1)
                    lo, hi = qs.start, qs.stop
                    ctx.count("many_members_lookups")
                    want = {}
                    # ("on": the block overlaps the hull [start, stop) of the query and is not empty; "at": its address is one of the query's)
                    want["byte_blocks_on"] = sorted(id(b) for bi in mine if bi.address is not None for b in bi.blocks
                                                    if b.size > 0 and max(lo, bi.address + b.offset) < min(hi, bi.address + b.offset + b.size))
                    want["byte_blocks_at"] = sorted(id(b) for bi in mine if bi.address is not None for b in bi.blocks if (bi.address + b.offset) in qs)
                    want["symbolic_expressions_at"] = sorted((id(bi), o) for bi in mine if bi.address is not None for o in bi.symbolic_expressions if (bi.address + o) in qs)
                    got = {"byte_blocks_on": sorted(id(b) for b in sc.byte_blocks_on(q)), "byte_blocks_at": sorted(id(b) for b in sc.byte_blocks_at(q)),
                           "symbolic_expressions_at": sorted((id(t[0]), t[1]) for t in sc.symbolic_expressions_at(q))}
                    if not isinstance(sc, g.ByteInterval):
                        want["byte_intervals_on"] = sorted(id(bi) for bi in mine if bi.address is not None and bi.size > 0 and max(lo, bi.address) < min(hi, bi.address + bi.size))
                        want["byte_intervals_at"] = sorted(id(bi) for bi in mine if bi.address is not None and bi.address in qs)
                        got["byte_intervals_on"] = sorted(id(b) for b in sc.byte_intervals_on(q))
                        got["byte_intervals_at"] = sorted(id(b) for b in sc.byte_intervals_at(q))
                    for what in want:
                        if got[what] != want[what]:
                            ctx.add("oracle", sig + ":many-members", "%d members (%s), %s: %s.%s(%s) gives %d results, a scan of the collections %d"
                                    % (N, route, stage, nm, what, ("range(%#x, %#x, %d)" % (qs.start, qs.stop, qs.step)) if isinstance(q, range) else "%#x" % q, len(got[what]), len(want[what])),
                                    {"route": route, "stage": stage, "scope": nm, "lookup": what})
                            return False
            los = [bi.address for bi in big.byte_intervals]
            ext = (min(los), max(bi.address + bi.size for bi in big.byte_intervals) - min(los)) if los and all(a is not None for a in los) else (None, None)
            if (big.address, big.size) != ext:
                ctx.add("oracle", sig + ":many-members", "%d members (%s), %s: the section's address/size are %r, a scan gives %r" % (N, route, stage, (big.address, big.size), ext),
                        {"route": route, "stage": stage})
                return False
            return True
        ctx.case("many-members:" + route, True)
        if not judge("as built"):
            return
        for k in range(0, N, 3):
            bis[k].section = None if k % 2 else secs[2]
            blocks[k].byte_interval = None
        for k in range(1, N, 5):
            bis[k].address = 0x10000 + 16 * k + 4
            blocks[k].offset = 16 * k + 9
        for k in range(0, N, 10):
            wide.symbolic_expressions.pop(16 * k + 1, None)
        if not judge("after every third member left and every fifth changed its key"):
            return
        big.byte_intervals.clear()
        wide.blocks.clear()
        big.byte_intervals.update(bis[:20])
        wide.blocks.update(blocks[:20])
        if not judge("after shrinking to empty and growing again"):
            return
