#!/venv/bin/python
"""harness/devmatrix.py [-j N] [--only C19,C07] [ids...]: every quick check against every seeded change, in parallel, on SCRATCH worktrees of /repo
(VERIF_REPO=<worktree>; /repo itself is not touched).  A change whose regenerated facts differ from the built ones is not run here
(the shared Coq build would have to be redone for it): it is listed as facts-changing and must be run with harness/seedtest.py on
/repo.  Results go to seeded/<id>/meta.json ("dev_matrix") and seeded/MATRIX.md."""
import json
import os
import queue
import subprocess
import sys
import threading
from concurrent.futures import ThreadPoolExecutor

VERIF = os.path.dirname(os.path.dirname(os.path.abspath(__file__)))
CHECKS = [c["property_id"] for c in json.load(open(os.path.join(VERIF, "MANIFEST.json")))["checks"]]


def sh(cmd, **kw):
    p = subprocess.run(cmd, shell=True, stdout=subprocess.PIPE, stderr=subprocess.STDOUT, **kw)
    return p.returncode, p.stdout.decode(errors="replace")


def facts_same(tree):
    code = ("import sys; sys.path.insert(0,'%s/harness'); import genfacts; "
            "print(all(fn() == open('%s/coq/gen/'+nm).read() for nm, fn in (('Schema.v', genfacts.gen_schema), ('PyFacts.v', genfacts.gen_pyfacts))))" % (VERIF, VERIF))
    rc, out = sh("VERIF_REPO=%s /venv/bin/python -c \"%s\"" % (tree, code))
    return rc == 0 and out.strip().endswith("True")


def one_seed(sid, slot, only=None):
    wt = "/tmp/mx_%d" % slot
    if not os.path.isdir(wt):
        sh("git -C /repo worktree add --detach %s HEAD" % wt)
    sh("git -C %s checkout -q -- ." % wt)
    rc, out = sh("git -C %s apply %s/seeded/%s/patch.diff" % (wt, VERIF, sid))
    if rc != 0:
        return {"error": "patch does not apply: " + out[-200:]}
    res = {}
    if not facts_same(wt):
        sh("git -C %s checkout -q -- ." % wt)
        return {"facts_changing": True}
    for c in (only or CHECKS):
        rc, out = sh("cd %s && VERIF_REPO=%s VERIF_EVIDENCE_SUFFIX=.mx%d timeout 2400 harness/check.py %s --no-build" % (VERIF, wt, slot, c))
        viol = [l for l in out.split("\n") if l.startswith("VIOLATION")]
        first = [l.strip() for l in out.split("\n") if l.startswith("  [")][:1]
        res[c] = {"exit": rc, "violation_line": viol[0] if viol else None, "first": first[0][:200] if first else None}
    sh("git -C %s checkout -q -- ." % wt)
    return res


def main():
    args = sys.argv[1:]
    j = 5
    if args and args[0] == "-j":
        j = int(args[1])
        args = args[2:]
    only = None
    if args and args[0] == "--only":          # --only C19[,C07] [ids...]: redo these checks only and merge them into the recorded rows
        only = args[1].split(",")
        args = args[2:]
    ids = args or sorted(d for d in os.listdir(os.path.join(VERIF, "seeded")) if os.path.exists(os.path.join(VERIF, "seeded", d, "meta.json")))
    q = queue.Queue()
    for sid in ids:
        meta = json.load(open(os.path.join(VERIF, "seeded", sid, "meta.json")))
        if not meta.get("status", "").startswith("obsolete"):
            q.put(sid)
    lock = threading.Lock()

    def worker(slot):
        while True:
            try:
                sid = q.get_nowait()
            except queue.Empty:
                return
            res = one_seed(sid, slot, only)
            mp = os.path.join(VERIF, "seeded", sid, "meta.json")
            with lock:
                meta = json.load(open(mp))
                if only and isinstance(meta.get("dev_matrix"), dict) and not res.get("facts_changing") and "error" not in res:
                    merged = dict(meta["dev_matrix"])
                    merged.update(res)
                    res = merged
                meta["dev_matrix"] = res
                json.dump(meta, open(mp, "w"), indent=1)
                hit = sorted(c for c, v in res.items() if isinstance(v, dict) and v.get("exit"))
                print(sid, "FACTS-CHANGING" if res.get("facts_changing") else hit, flush=True)
    with ThreadPoolExecutor(j) as ex:
        list(ex.map(worker, range(j)))
    for slot in range(j):
        sh("git -C /repo worktree remove --force /tmp/mx_%d" % slot)
    sh("rm -f %s/evidence/*.mx*.json %s/replays/*.mx*.json" % (VERIF, VERIF))
    write_matrix()


def write_matrix():
    rows = []
    for sid in sorted(d for d in os.listdir(os.path.join(VERIF, "seeded")) if os.path.exists(os.path.join(VERIF, "seeded", d, "meta.json"))):
        rows.append((sid, json.load(open(os.path.join(VERIF, "seeded", sid, "meta.json")))))
    with open(os.path.join(VERIF, "seeded", "MATRIX.md"), "w") as f:
        f.write("# Which quick checks raise the alarm for which seeded change (seed 1; every check run against every change)\n\n")
        f.write("All 19 checks were run against a scratch worktree of /repo carrying the change (`harness/devmatrix.py`, no rebuild); a change that alters a "
                "generated fact (*facts-changing*) needs the Coq build redone and was run on /repo itself (`harness/seedtest.py --checks all`). "
                "The last column is the property's own check with the change applied to /repo itself (`harness/seedtest.py`).\n\n")
        f.write("| change | property | kind | checks that exit 1 | own check | own check on /repo |\n|---|---|---|---|---|---|\n")
        for sid, meta in rows:
            kind = meta.get("kind", "breaking")
            prop = meta["property"]
            if meta.get("status", "").startswith("obsolete"):
                f.write("| %s | %s | %s | (obsolete) | – | – |\n" % (sid, prop, kind))
                continue
            dm = meta.get("dev_matrix") or {}
            full = [r for r in meta.get("verif_runs", []) if len(r.get("checks", {})) >= 15]
            own_repo = [r["checks"][prop] for r in meta.get("verif_runs", []) if prop in r.get("checks", {})]
            own_repo_s = "–" if not own_repo else ("caught" if own_repo[-1]["exit"] else "quiet")
            if dm.get("facts_changing") or not dm or "error" in dm:
                src = full[-1]["checks"] if full else {}
                hit = sorted(c for c, v in src.items() if v["exit"] != 0)
                note = " (facts-changing: from the /repo run)" if dm.get("facts_changing") else (" (from the /repo run)" if full else " (not run)")
            else:
                hit = sorted(c for c, v in dm.items() if v.get("exit"))
                note = ""
            own = ("quiet" if not hit else "ALARM") if kind == "harmless" else ("yes" if prop in hit else "NO")
            f.write("| %s | %s | %s | %s%s | %s | %s |\n" % (sid, prop, kind, ", ".join(hit) or "none", note, own, own_repo_s))
    print("written seeded/MATRIX.md")


if __name__ == "__main__":
    if len(sys.argv) > 1 and sys.argv[1] == "--table":
        write_matrix()
    else:
        main()
