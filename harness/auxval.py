"""AuxData types and values for the codec checks (C07, C08, C14):
generators, Python value <-> sx conversion, canonicalisation, and an independent
encoder written from AuxData.md (no struct, no gtirb code)."""
import struct
import uuid as uuidlib
from fractions import Fraction

INTS = {"uint8_t": (1, False), "uint16_t": (2, False), "uint32_t": (4, False), "uint64_t": (8, False),
        "int8_t": (1, True), "int16_t": (2, True), "int32_t": (4, True), "int64_t": (8, True), "Addr": (8, False)}
LEAVES = list(INTS) + ["bool", "float", "double", "string", "UUID", "Offset"]
HASHABLE_LEAVES = list(INTS) + ["bool", "string", "UUID", "Offset"]


def type_str(t):
    nm, subs = t
    return nm if not subs else nm + "<" + ",".join(type_str(s) for s in subs) + ">"


def rand_type(rng, depth, hashable=False, rich=False):
    """`hashable`: the type of a set element or mapping key -- its values must be hashable in Python.  Without `rich` these are
    leaves and tuples of them; with `rich` ("any nesting") also sequences, sets and variants, whose values are then given as
    tuples / frozensets / Variants of hashable parts (a mapping has no hashable Python form and stays out)."""
    if depth <= 0 or rng.random() < 0.35:
        return (rng.choice(HASHABLE_LEAVES if hashable else LEAVES), [])
    if hashable and rich:
        k = rng.choice(["tuple", "sequence", "set", "variant", "leaf"])
        if k == "leaf":
            return (rng.choice(HASHABLE_LEAVES), [])
        if k in ("sequence", "set"):
            return (k, [rand_type(rng, depth - 1, True, True)])
        if k == "tuple":
            return (k, [rand_type(rng, depth - 1, True, True) for _ in range(rng.choice([1, 2, 3]))])
        return (k, [rand_type(rng, depth - 1, True, True) for _ in range(rng.choice([1, 2, 3]))])
    k = rng.choice(["tuple"] if hashable and rng.random() < 0.5 else
                   (["tuple"] if hashable else ["sequence", "set", "mapping", "tuple", "variant"]))
    if hashable and k != "tuple":
        return (rng.choice(HASHABLE_LEAVES), [])
    if k == "sequence":
        return (k, [rand_type(rng, depth - 1, rich=rich)])
    if k == "set":
        return (k, [rand_type(rng, depth - 1, hashable=True, rich=rich)])
    if k == "mapping":
        return (k, [rand_type(rng, depth - 1, hashable=True, rich=rich), rand_type(rng, depth - 1, rich=rich)])
    if k == "tuple":
        return (k, [rand_type(rng, depth - 1, hashable, rich) for _ in range(rng.choice([1, 1, 2, 3, 5]))])
    return (k, [rand_type(rng, depth - 1, rich=rich) for _ in range(rng.choice([1, 2, 3, 11]))])


def f64_bits(x):
    return struct.unpack("<Q", struct.pack("<d", x))[0]


def f64_from_bits(b):
    return struct.unpack("<d", struct.pack("<Q", b))[0]


def f32_exact_double_bits(b32):
    """binary32 bit pattern -> the bit pattern of the same value as binary64, by integer arithmetic"""
    s, e, m = b32 >> 31, (b32 >> 23) & 0xFF, b32 & 0x7FFFFF
    if e == 255:
        return (s << 63) | (0x7FF << 52) | (((m | 0x400000) if m else 0) << 29)
    if e == 0:
        if m == 0:
            return s << 63
        k = m.bit_length() - 1
        return (s << 63) | ((k - 149 + 1023) << 52) | ((m - (1 << k)) << (52 - k))
    return (s << 63) | ((e - 127 + 1023) << 52) | (m << 29)


def rand_string(rng):
    pools = ["abc", "é", "ß", "π", "漢", "😀", "\x00", "<", ">", ",", " ", "\n", "ࠀ", "￿", "\U00010000", "\U0010ffff", "߿", "\x7f", "\x80"]
    n = rng.choice([0, 1, 1, 2, 3, 5, 9, 20])
    s = "".join(rng.choice(pools) for _ in range(n))
    r = rng.random()
    if r < 0.12:
        # code points that text layers like to treat specially: a leading byte-order mark (utf-8-sig strips it), non-characters,
        # the last code point before / first after the surrogate gap, line and paragraph separators, NUL at either end
        s = rng.choice(["\ufeff", "\ufeff\ufeff", "\ufffe", "\uffff", "\ud7ff", "\ue000", "\u2028", "\u2029", "\x00", "\x85", "\xa0"]) + s
    elif r < 0.18:
        s = s + rng.choice(["\ufeff", "\x00", "\n", "\r\n", " ", "\u2028"])
    return s


class Env:
    """nodes and uuids that UUID/Offset leaves may name"""

    def __init__(self, g, rng):
        self.g = g
        self.ir = g.IR()
        m = g.Module(name="m", ir=self.ir)
        s = g.Section(name="s", module=m)
        bi = g.ByteInterval(size=8, section=s)
        self.attached = [self.ir, m, s, bi, g.CodeBlock(size=1, byte_interval=bi), g.DataBlock(size=1, offset=1, byte_interval=bi),
                         g.ProxyBlock(module=m), g.Symbol("sym", module=m)]
        self.detached = [g.CodeBlock(size=2), g.Symbol("free")]
        self.num = {}
        for n in self.attached + self.detached:
            self.num[id(n)] = len(self.num) + 1
        self.getter = [[n.uuid.int, self.num[id(n)]] for n in self.attached]

    def node_num(self, n):
        return self.num.get(id(n), 0)

    def rand_uuidish(self, rng):
        r = rng.random()
        if r < 0.45:
            return rng.choice(self.attached)
        if r < 0.55:
            return rng.choice(self.detached)
        if r < 0.6:
            return rng.choice(self.attached).uuid      # plain UUID naming an attached node
        if r < 0.65:
            return uuidlib.UUID(int=rng.choice([0, (1 << 128) - 1, 1 << 127]))
        return uuidlib.UUID(int=rng.getrandbits(128))


def rand_int(rng, n, signed):
    lo, hi = (-(1 << (8 * n - 1)), (1 << (8 * n - 1)) - 1) if signed else (0, (1 << (8 * n)) - 1)
    r = rng.random()
    if r < 0.15:
        return lo
    if r < 0.3:
        return hi
    if r < 0.4:
        return rng.choice([0, 1, -1 if signed else 1, lo + 1, hi - 1, 255, 256, 127, 128][: 9 if n > 1 else 5]) if True else 0
    return rng.randint(lo, hi)


def rand_f64(rng):
    r = rng.random()
    if r < 0.3:
        return f64_from_bits(rng.getrandbits(64))
    if r < 0.45:
        return rng.choice([0.0, -0.0, float("inf"), float("-inf"), float("nan"), 5e-324, -5e-324, 1.7976931348623157e308,
                           2.2250738585072014e-308, f64_from_bits(0x7FF0000000000001), f64_from_bits(0xFFF8000000000123)])
    return rng.uniform(-1e6, 1e6)


def rand_f32_input(rng):
    """doubles to push through the float32 codec: exactly representable ones, ties, boundaries, random"""
    r = rng.random()
    if r < 0.4:
        return f64_from_bits(f32_exact_double_bits(rng.getrandbits(32)))
    if r < 0.5:
        return rng.choice([0.0, -0.0, float("inf"), float("-inf"), float("nan"), 1.401298464324817e-45, 3.4028234663852886e38,
                           1.1754943508222875e-38, 7.006492321624085e-46, 3.4028235677973366e38, 3.402823567797336e38,
                           f64_from_bits(0x7FF0000000000001), f64_from_bits(0xFFF4000000000000), 1e39, -1e39, 1e-50, 0.1,
                           16777217.0, 16777219.0, 2.1019476964872256e-45])
    if r < 0.7:
        # near a tie between two adjacent float32 values
        b = rng.getrandbits(31) & 0x7F7FFFFF
        lo = Fraction(f64_from_bits(f32_exact_double_bits(b)))
        hi = Fraction(f64_from_bits(f32_exact_double_bits(b + 1)))
        if f64_from_bits(f32_exact_double_bits(b + 1)) == float("inf"):
            return 1.0
        mid = (lo + hi) / 2
        x = float(mid)
        k = rng.choice([0, 0, 1, -1])
        bits = f64_bits(x) + k
        x = f64_from_bits(bits)
        return -x if rng.random() < 0.5 else x
    return rand_f64(rng) if rng.random() < 0.5 else rng.uniform(-1e3, 1e3)


def rand_value(rng, t, env, size=4, frozen=False, single=False):
    """`frozen`: the value is a set element or a mapping key -- sequences are given as tuples, sets as frozensets;
    `single`: sets and mappings hold at most one element (their bytes then do not depend on an iteration order)"""
    g = env.g
    nm, subs = t
    if nm in INTS:
        return rand_int(rng, *INTS[nm])
    if nm == "bool":
        return rng.random() < 0.5
    if nm == "double":
        return rand_f64(rng)
    if nm == "float":
        return rand_f32_input(rng)
    if nm == "string":
        return rand_string(rng)
    if nm == "UUID":
        return env.rand_uuidish(rng)
    if nm == "Offset":
        return g.Offset(env.rand_uuidish(rng), rng.choice([0, 1, (1 << 64) - 1, rng.getrandbits(64)]))
    n = rng.choice([0, 0, 1, 2, size])
    if nm == "sequence":
        items = [rand_value(rng, subs[0], env, size - 1, frozen, single) for _ in range(n)]
        return tuple(items) if frozen else items
    if nm == "set":
        out = set()
        for _ in range(min(n, 1) if single else n):
            out.add(rand_value(rng, subs[0], env, size - 1, True, single))
        return frozenset(out) if frozen else out
    if nm == "mapping":
        out = {}
        for _ in range(min(n, 1) if single else n):
            out[rand_value(rng, subs[0], env, size - 1, True, single)] = rand_value(rng, subs[1], env, size - 1, False, single)
        return out
    if nm == "tuple":
        return tuple(rand_value(rng, s, env, size - 1, frozen, single) for s in subs)
    if nm == "variant":
        i = rng.randrange(len(subs))
        return g.serialization.Variant(i, rand_value(rng, subs[i], env, size - 1, frozen, single))
    raise AssertionError(nm)


# ---------------- the same value in another Python container form ----------------
def reform(rng, v, depth=0):
    """The codecs accept any Collection for sequence/set/tuple types and any Mapping for mapping types: hand the same value over
    as tuple / deque / bytes / bytearray instead of list, frozenset instead of set, OrderedDict / mappingproxy instead of dict.
    Elements of sets and keys of mappings are left alone (they must stay hashable and equal)."""
    import collections
    import types
    if type(v) is list:
        items = [reform(rng, x, depth + 1) for x in v]
        forms = ["list", "tuple", "deque"]
        if all(type(x) is int and 0 <= x < 256 for x in v):
            forms += ["bytes", "bytearray", "bytes"]
        f = rng.choice(forms)
        return (items if f == "list" else tuple(items) if f == "tuple" else collections.deque(items) if f == "deque"
                else bytes(v) if f == "bytes" else bytearray(v))
    if type(v) is tuple:
        items = [reform(rng, x, depth + 1) for x in v]
        return tuple(items) if rng.random() < 0.6 else items
    if type(v) is set:
        return frozenset(v) if rng.random() < 0.5 else v
    if type(v) is dict:
        d = {k: reform(rng, x, depth + 1) for k, x in v.items()}
        f = rng.choice(["dict", "ordered", "proxy"])
        return d if f == "dict" else collections.OrderedDict(d) if f == "ordered" else types.MappingProxyType(d)
    return v


# ---------------- Python value <-> sx ----------------
def to_sx(v, env, t=None):
    """Python value -> sx.  With a type tree `t` the container tags follow the TYPE (a sequence given as a tuple -- e.g. inside a
    set, where elements must be hashable -- is still a sequence; a set given as a frozenset a set), otherwise the Python class."""
    g = env.g
    if isinstance(v, g.serialization.UnknownData):
        return [12, list(v)]
    if t is not None and t[1] and not isinstance(v, (str, bytes)):
        nm, subs = t
        try:
            if nm == "sequence":
                return [7, [to_sx(x, env, subs[0]) for x in v]]
            if nm == "set":
                return [8, [to_sx(x, env, subs[0]) for x in v]]
            if nm == "mapping":
                return [9, [[to_sx(k, env, subs[0]), to_sx(x, env, subs[1])] for k, x in v.items()]]
            if nm == "tuple" and len(v) == len(subs):
                return [10, [to_sx(x, env, s) for x, s in zip(v, subs)]]
            if nm == "variant" and isinstance(v, g.serialization.Variant) and 0 <= v.index < len(subs):
                return [11, v.index, to_sx(v.val, env, subs[v.index])]
        except (TypeError, AttributeError):
            pass            # not a value of that type: fall back to the untyped reading
    if isinstance(v, bool):
        return [1, 1 if v else 0]
    if isinstance(v, int):
        return [0, v]
    if isinstance(v, float):
        return [2, f64_bits(v)]
    if isinstance(v, str):
        return [3, [ord(c) for c in v]]
    if isinstance(v, uuidlib.UUID):
        return [4, v.int]
    if isinstance(v, g.Node):
        return [5, env.node_num(v), v.uuid.int]
    if isinstance(v, g.Offset):
        return [6, to_sx(v.element_id, env), v.displacement]
    if isinstance(v, list):
        return [7, [to_sx(x, env) for x in v]]
    if isinstance(v, (set, frozenset)):
        return [8, [to_sx(x, env) for x in v]]
    if isinstance(v, dict):
        return [9, [[to_sx(k, env), to_sx(x, env)] for k, x in v.items()]]
    if isinstance(v, tuple):
        return [10, [to_sx(x, env) for x in v]]
    if isinstance(v, g.serialization.Variant):
        return [11, v.index, to_sx(v.val, env)]
    raise TypeError("cannot convert %r" % (v,))


def canon(sx):
    """sort the elements of sets and mappings, recursively; NaN-safe since floats are bit patterns"""
    tag = sx[0]
    if tag == 6:
        return [6, canon(sx[1]), sx[2]]
    if tag in (7, 10):
        return [tag, [canon(x) for x in sx[1]]]
    if tag == 8:
        return [8, sorted((canon(x) for x in sx[1]), key=repr)]
    if tag == 9:
        return [9, sorted(([canon(k), canon(x)] for k, x in sx[1]), key=repr)]
    if tag == 11:
        return [11, sx[1], canon(sx[2])]
    return sx


# ---------------- independent encoder written from AuxData.md ----------------
class OracleError(Exception):
    pass


def _le(x, n):
    out = []
    for _ in range(n):
        out.append(x & 0xFF)
        x >>= 8
    return out


def oracle_round32_bits(x):
    """nearest-even binary32 of the double x, by exact rational arithmetic"""
    b = f64_bits(x)
    s = b >> 63
    if x != x:
        return (s << 31) | 0x7F800000 | 0x400000 | ((b & ((1 << 52) - 1)) >> 29)
    if x in (float("inf"), float("-inf")):
        return (s << 31) | 0x7F800000
    fx = abs(Fraction(x))
    if fx == 0:
        return s << 31
    e = fx.numerator.bit_length() - fx.denominator.bit_length()
    if Fraction(2) ** e > fx:
        e -= 1
    ee = max(e, -126)
    ulp = Fraction(2) ** (ee - 23)
    q = round(fx / ulp)               # Fraction.__round__ rounds half to even
    if q >= (1 << 24):
        q >>= 1
        ee += 1
    if ee > 127:
        raise OracleError("OverflowError")
    if q < (1 << 23):
        return (s << 31) | q           # subnormal (or zero)
    return (s << 31) | ((ee + 127) << 23) | (q - (1 << 23))


def oracle_encode(t, v, env):
    """bytes (list of ints) the documented format prescribes for v of type t; iteration order of v is kept"""
    g = env.g
    nm, subs = t
    if nm in INTS:
        n, signed = INTS[nm]
        if isinstance(v, bool):
            v = int(v)
        lo, hi = (-(1 << (8 * n - 1)), (1 << (8 * n - 1)) - 1) if signed else (0, (1 << (8 * n)) - 1)
        if not lo <= v <= hi:
            raise OracleError("OverflowError")
        return _le(v & ((1 << (8 * n)) - 1), n)
    if nm == "bool":
        return [1 if v else 0]
    if nm == "double":
        return _le(f64_bits(v), 8)
    if nm == "float":
        return _le(oracle_round32_bits(v), 4)
    if nm == "string":
        bs = []
        for ch in v:
            c = ord(ch)
            if c < 0x80:
                bs += [c]
            elif c < 0x800:
                bs += [0xC0 | (c >> 6), 0x80 | (c & 0x3F)]
            elif c < 0x10000:
                bs += [0xE0 | (c >> 12), 0x80 | ((c >> 6) & 0x3F), 0x80 | (c & 0x3F)]
            else:
                bs += [0xF0 | (c >> 18), 0x80 | ((c >> 12) & 0x3F), 0x80 | ((c >> 6) & 0x3F), 0x80 | (c & 0x3F)]
        return _le(len(bs), 8) + bs
    if nm == "UUID":
        u = v.uuid if isinstance(v, g.Node) else v
        return list(u.int.to_bytes(16, "big"))
    if nm == "Offset":
        return oracle_encode(("UUID", []), v.element_id, env) + _le(v.displacement, 8)
    if nm in ("sequence", "set"):
        out = _le(len(v), 8)
        for x in v:
            out += oracle_encode(subs[0], x, env)
        return out
    if nm == "mapping":
        out = _le(len(v), 8)
        for k, x in v.items():
            out += oracle_encode(subs[0], k, env) + oracle_encode(subs[1], x, env)
        return out
    if nm == "tuple":
        out = []
        for s, x in zip(subs, v):
            out += oracle_encode(s, x, env)
        return out
    if nm == "variant":
        return _le(v.index, 8) + oracle_encode(subs[v.index], v.val, env)
    raise OracleError("unknown type " + nm)


def wire_canon(t, bs, pos=0):
    """Split well-formed bytes of type t along the documented format (independently of the library) and return
    (canonical structure, end position): leaves as raw bytes, set elements and mapping entries sorted with exact repetitions merged
    (a later entry of a repeated key wins) -- two byte strings with equal canonical structure encode the same value, element order
    and repeated elements aside."""
    nm, subs = t
    if nm in INTS:
        k = INTS[nm][0]
        return bs[pos:pos + k], pos + k
    if nm in ("bool",):
        return bs[pos:pos + 1], pos + 1
    if nm == "float":
        return bs[pos:pos + 4], pos + 4
    if nm == "double":
        return bs[pos:pos + 8], pos + 8
    if nm == "UUID":
        return bs[pos:pos + 16], pos + 16
    if nm == "Offset":
        return bs[pos:pos + 24], pos + 24
    if nm == "string":
        n = int.from_bytes(bs[pos:pos + 8], "little")
        return bs[pos:pos + 8 + n], pos + 8 + n
    if nm in ("sequence", "set"):
        n = int.from_bytes(bs[pos:pos + 8], "little")
        pos += 8
        out = []
        for _ in range(n):
            x, pos = wire_canon(subs[0], bs, pos)
            out.append(x)
        if nm == "set":
            out = sorted(set(out), key=repr)
        return (nm, tuple(out)), pos
    if nm == "mapping":
        n = int.from_bytes(bs[pos:pos + 8], "little")
        pos += 8
        d = {}
        for _ in range(n):
            k, pos = wire_canon(subs[0], bs, pos)
            x, pos = wire_canon(subs[1], bs, pos)
            d[k] = x
        return ("mapping", tuple(sorted(d.items(), key=repr))), pos
    if nm == "tuple":
        out = []
        for sub in subs:
            x, pos = wire_canon(sub, bs, pos)
            out.append(x)
        return ("tuple", tuple(out)), pos
    if nm == "variant":
        i = int.from_bytes(bs[pos:pos + 8], "little")
        x, pos = wire_canon(subs[i], bs, pos + 8)
        return ("variant", i, x), pos
    raise OracleError("unknown type " + nm)


def values_equal(a_sx, b_sx):
    return canon(a_sx) == canon(b_sx)
