"""Correspondence of Model/TwinCache.v (request 52) with the implementation: the per-IR UUID table when DIFFERENT IRs hold nodes
with equal UUIDs.  One file is loaded twice (two IRs whose nodes are pairwise twins); the sections of the two modules, and two
free sections, are moved between the two `module.sections` sets by add / discard / `^=` -- every operation chosen so that AFTER it
the nodes attached to each IR have pairwise distinct UUIDs (the premise of C03) -- and after every step the members of both sets,
`get_by_uuid` of every UUID on both IRs and whether the call raised are compared with the model."""
import io
import uuid as uuidlib

from common import exc_name, model_batch


def _build(g, rng):
    ir = g.IR()
    m = g.Module(name="m", ir=ir)
    for k in range(rng.choice([2, 3, 4])):
        s = g.Section(name="s%d" % k, module=m)
        for j in range(rng.choice([0, 1, 2])):
            bi = g.ByteInterval(size=8, address=rng.choice([None, 16 * k]), section=s)
            for b in range(rng.choice([0, 1, 2])):
                (g.CodeBlock if b % 2 else g.DataBlock)(size=1, offset=b, byte_interval=bi)
    buf = io.BytesIO()
    ir.save_protobuf_file(buf)
    return buf.getvalue()


def _subtree(sec):
    out = [sec]
    for bi in sec.byte_intervals:
        out.append(bi)
        out.extend(bi.blocks)
    return out


def _setup(g, plan):
    """the two loads, the free sections, the numbering: deterministic given the plan"""
    data = bytes.fromhex(plan["file"])
    irs = {1: g.IR.load_protobuf_file(io.BytesIO(data)), 2: g.IR.load_protobuf_file(io.BytesIO(data))}
    sets = {k: irs[k].modules[0].sections for k in irs}
    num, elems = {}, {}                      # id(object) -> node number ; element number -> section

    def number(o):
        if id(o) not in num:
            num[id(o)] = len(num) + 1
        return num[id(o)]
    for k in (1, 2):
        for s in sorted(sets[k], key=lambda s: s.name):
            elems[number(s)] = s
            for o in _subtree(s):
                number(o)
    for j, (us, ub, ud) in enumerate(plan["free"]):
        s = g.Section(name="free%d" % j, uuid=uuidlib.UUID(int=us))
        bi = g.ByteInterval(size=4, section=s, uuid=uuidlib.UUID(int=ub))
        g.DataBlock(size=1, offset=0, byte_interval=bi, uuid=uuidlib.UUID(int=ud))
        elems[number(s)] = s
        for o in _subtree(s):
            number(o)
    subs = [[x, [[o.uuid.int, number(o)] for o in sorted(_subtree(s), key=number)]] for x, s in elems.items()]
    return irs, sets, num, elems, subs


def gen_plan(ctx, g, rng, steps):
    plan = {"file": _build(g, rng).hex(), "free": [[rng.getrandbits(128) for _ in range(3)] for _ in range(2)], "ops": []}
    irs, sets, num, elems, subs = _setup(g, plan)
    uu = {x: {u for u, _ in tr} for x, tr in subs}
    shadow = {k: [num[id(s)] for s in sorted(sets[k], key=lambda s: s.name)] for k in (1, 2)}
    plan["initial"] = {str(k): list(v) for k, v in shadow.items()}

    def premise_ok(final):
        seen = set()
        for x in final:
            if uu[x] & seen:
                return False
            seen |= uu[x]
        return True
    twin_of = {x: [y for y in sorted(elems) if y != x and elems[y].uuid == elems[x].uuid] for x in elems}
    for _ in range(steps):
        k = rng.choice([1, 2])
        other = 3 - k
        cur = list(shadow[k])
        r = rng.random()
        if r < 0.3:
            x = rng.choice(sorted(elems))
            final = [y for y in cur if y != x] + [x]
            if not premise_ok(final):
                ctx.count("twin_model_ops_outside_premise")
                continue
            plan["ops"].append([0, k, x])
            shadow[k] = final
            shadow[other] = [y for y in shadow[other] if y != x]
        elif r < 0.5:
            x = rng.choice(cur) if cur and rng.random() < 0.8 else rng.choice(sorted(elems))
            plan["ops"].append([1, k, x])
            shadow[k] = [y for y in cur if y != x]
        else:
            # ^= : mostly a member together with its twin of the other IR (in both orders), otherwise a random selection
            twins = [(x, y) for x in cur for y in twin_of[x]]
            if twins and rng.random() < 0.7:
                x, y = rng.choice(twins)
                xs = [y, x] if rng.random() < 0.5 else [x, y]
                if rng.random() < 0.3:
                    xs.append(rng.choice(sorted(elems)))
            else:
                xs = [rng.choice(sorted(elems)) for _ in range(rng.choice([0, 1, 2, 3]))]
            xs = list(dict.fromkeys(xs))
            final = [y for y in cur if y not in xs] + [x for x in xs if x not in cur]
            if not premise_ok(final):
                ctx.count("twin_model_ops_outside_premise")
                continue
            plan["ops"].append([2, k, xs, rng.choice(["keys-view", "set"])])
            shadow[k] = final
            shadow[other] = [y for y in shadow[other] if y not in xs]
        ctx.count("twin_model_ops:" + ["add", "discard", "ixor"][plan["ops"][-1][0]])
    return plan


def execute(g, plan):
    """run the plan on the implementation; returns (subs, model ops, observations)"""
    irs, sets, num, elems, subs = _setup(g, plan)
    all_uuids = sorted({u for _, tr in subs for u, _ in tr})
    ops = [[0, k, x] for k in (1, 2) for x in plan["initial"][str(k)]]
    obs = [None] * len(ops)

    def observe(raised):
        out = [0 if raised else 1]
        for k in (1, 2):
            tab = []
            for u in all_uuids:
                got = irs[k].get_by_uuid(uuidlib.UUID(int=u))
                if got is not None:
                    tab.append([u, num.get(id(got), -1)])
            out.append([sorted(num.get(id(s), -1) for s in sets[k]), sorted(tab)])
        return out
    for op in plan["ops"]:
        k = op[1]
        raised = None
        try:
            if op[0] == 0:
                sets[k].add(elems[op[2]])
            elif op[0] == 1:
                sets[k].discard(elems[op[2]])
            else:
                arg = dict.fromkeys(elems[x] for x in op[2]).keys() if op[3] == "keys-view" else {elems[x] for x in op[2]}
                s = sets[k]
                s ^= arg
        except KeyError:
            raised = "KeyError"
        except Exception as e:  # noqa: BLE001
            raised = exc_name(g, e)
        ops.append(op[:3])
        obs.append(observe(raised))
        if raised:
            break
    return subs, ops, obs


def compare(g, plan):
    """None when implementation and model agree on every step, else (description, replay details)"""
    subs, ops, obs = execute(g, plan)
    rep = model_batch([[52, subs, ops]])[0]
    if isinstance(rep, tuple) or len(rep) != len(ops):
        return "the model driver failed on a twin-cache history", {"plan": plan}
    for i, (o, mo) in enumerate(zip(obs, rep)):
        if o is None:
            continue
        mo = [mo[0]] + [[sorted(ir[0]), sorted(ir[1])] for ir in mo[1:]]
        if mo != o:
            what = "whether the call raised (KeyError flag)" if mo[0] != o[0] else next(
                ("IR %d %s" % (k, "members" if mo[k][0] != o[k][0] else "UUID table") for k in (1, 2) if mo[k] != o[k]), "?")
            return ("twin-cache history, step %d %s: implementation and model differ in %s (implementation %s, model %s)"
                    % (i, ops[i], what, str(o)[:200], str(mo)[:200]),
                    {"plan": plan, "step": i, "impl": o, "model": mo, "stream": "twin cache (Model/TwinCache.v)"})
    return None


def scenario(ctx, g, rng, steps, sig):
    plan = gen_plan(ctx, g, rng, steps)
    bad = compare(g, plan)
    if bad:
        ctx.add("corr", sig, bad[0], bad[1])
    ctx.case("twin-model:" + repr(plan["ops"]), True)


def run(ctx, g, rng, n, steps, sig):
    for _ in range(n):
        scenario(ctx, g, rng, steps, sig)
