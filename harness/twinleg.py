"""Correspondence of Model/TwinCache.v (request 52) with the implementation: the per-IR UUID table when DIFFERENT IRs hold nodes
with equal UUIDs.  One file is loaded twice (two IRs whose nodes are pairwise twins); the sections of the two modules, and two
free sections, are moved between the two `module.sections` sets by add / discard / `^=` -- every operation chosen so that AFTER it
the nodes attached to each IR have pairwise distinct UUIDs (the premise of C03) -- and after every step the members of both sets,
`get_by_uuid` of every UUID on both IRs and whether the call raised are compared with the model."""
import io
import uuid as uuidlib

from common import exc_name, model_batch


def _build(g, rng):
    ir = g.IR()
    m = g.Module(name="m", ir=ir)
    for k in range(rng.choice([2, 3, 4])):
        s = g.Section(name="s%d" % k, module=m)
        for j in range(rng.choice([0, 1, 2])):
            bi = g.ByteInterval(size=8, address=rng.choice([None, 16 * k]), section=s)
            for b in range(rng.choice([0, 1, 2])):
                (g.CodeBlock if b % 2 else g.DataBlock)(size=1, offset=b, byte_interval=bi)
    buf = io.BytesIO()
    ir.save_protobuf_file(buf)
    return buf.getvalue()


def _subtree(sec):
    out = [sec]
    for bi in sec.byte_intervals:
        out.append(bi)
        out.extend(bi.blocks)
    return out


def _setup(g, plan):
    """the two loads, the free sections, the numbering: deterministic given the plan"""
    data = bytes.fromhex(plan["file"])
    irs = {1: g.IR.load_protobuf_file(io.BytesIO(data)), 2: g.IR.load_protobuf_file(io.BytesIO(data))}
    sets = {k: irs[k].modules[0].sections for k in irs}
    num, elems = {}, {}                      # id(object) -> node number ; element number -> section

    def number(o):
        if id(o) not in num:
            num[id(o)] = len(num) + 1
        return num[id(o)]
    for k in (1, 2):
        for s in sorted(sets[k], key=lambda s: s.name):
            elems[number(s)] = s
            for o in _subtree(s):
                number(o)
    for j, (us, ub, ud) in enumerate(plan["free"]):
        s = g.Section(name="free%d" % j, uuid=uuidlib.UUID(int=us))
        bi = g.ByteInterval(size=4, section=s, uuid=uuidlib.UUID(int=ub))
        g.DataBlock(size=1, offset=0, byte_interval=bi, uuid=uuidlib.UUID(int=ud))
        elems[number(s)] = s
        for o in _subtree(s):
            number(o)
    subs = [[x, [[o.uuid.int, number(o)] for o in sorted(_subtree(s), key=number)]] for x, s in elems.items()]
    return irs, sets, num, elems, subs


def gen_plan(ctx, g, rng, steps):
    plan = {"file": _build(g, rng).hex(), "free": [[rng.getrandbits(128) for _ in range(3)] for _ in range(2)], "ops": []}
    irs, sets, num, elems, subs = _setup(g, plan)
    uu = {x: {u for u, _ in tr} for x, tr in subs}
    shadow = {k: [num[id(s)] for s in sorted(sets[k], key=lambda s: s.name)] for k in (1, 2)}
    plan["initial"] = {str(k): list(v) for k, v in shadow.items()}

    def premise_ok(final):
        seen = set()
        for x in final:
            if uu[x] & seen:
                return False
            seen |= uu[x]
        return True
    twin_of = {x: [y for y in sorted(elems) if y != x and elems[y].uuid == elems[x].uuid] for x in elems}
    for _ in range(steps):
        k = rng.choice([1, 2])
        other = 3 - k
        cur = list(shadow[k])
        r = rng.random()
        if r < 0.3:
            x = rng.choice(sorted(elems))
            final = [y for y in cur if y != x] + [x]
            if not premise_ok(final):
                ctx.count("twin_model_ops_outside_premise")
                continue
            plan["ops"].append([0, k, x])
            shadow[k] = final
            shadow[other] = [y for y in shadow[other] if y != x]
        elif r < 0.5:
            x = rng.choice(cur) if cur and rng.random() < 0.8 else rng.choice(sorted(elems))
            plan["ops"].append([1, k, x])
            shadow[k] = [y for y in cur if y != x]
        else:
            # ^= : mostly a member together with its twin of the other IR (in both orders), otherwise a random selection
            twins = [(x, y) for x in cur for y in twin_of[x]]
            if twins and rng.random() < 0.7:
                x, y = rng.choice(twins)
                xs = [y, x] if rng.random() < 0.5 else [x, y]
                if rng.random() < 0.3:
                    xs.append(rng.choice(sorted(elems)))
            else:
                xs = [rng.choice(sorted(elems)) for _ in range(rng.choice([0, 1, 2, 3]))]
            xs = list(dict.fromkeys(xs))
            final = [y for y in cur if y not in xs] + [x for x in xs if x not in cur]
            if not premise_ok(final):
                ctx.count("twin_model_ops_outside_premise")
                continue
            plan["ops"].append([2, k, xs, rng.choice(["keys-view", "set"])])
            shadow[k] = final
            shadow[other] = [y for y in shadow[other] if y not in xs]
        ctx.count("twin_model_ops:" + ["add", "discard", "ixor"][plan["ops"][-1][0]])
    return plan


def execute(g, plan):
    """run the plan on the implementation; returns (subs, model ops, observations)"""
    irs, sets, num, elems, subs = _setup(g, plan)
    all_uuids = sorted({u for _, tr in subs for u, _ in tr})
    ops = [[0, k, x] for k in (1, 2) for x in plan["initial"][str(k)]]
    obs = [None] * len(ops)

    def observe(raised):
        out = [0 if raised else 1]
        for k in (1, 2):
            tab = []
            for u in all_uuids:
                got = irs[k].get_by_uuid(uuidlib.UUID(int=u))
                if got is not None:
                    tab.append([u, num.get(id(got), -1)])
            out.append([sorted(num.get(id(s), -1) for s in sets[k]), sorted(tab)])
        return out
    for op in plan["ops"]:
        k = op[1]
        raised = None
        try:
            if op[0] == 0:
                sets[k].add(elems[op[2]])
            elif op[0] == 1:
                sets[k].discard(elems[op[2]])
            else:
                arg = dict.fromkeys(elems[x] for x in op[2]).keys() if op[3] == "keys-view" else {elems[x] for x in op[2]}
                s = sets[k]
                s ^= arg
        except KeyError:
            raised = "KeyError"
        except Exception as e:  # noqa: BLE001
            raised = exc_name(g, e)
        ops.append(op[:3])
        obs.append(observe(raised))
        if raised:
            break
    return subs, ops, obs


def compare(g, plan):
    """None when implementation and model agree on every step, else (description, replay details)"""
    subs, ops, obs = execute(g, plan)
    rep = model_batch([[52, subs, ops]])[0]
    if isinstance(rep, tuple) or len(rep) != len(ops):
        return "the model driver failed on a twin-cache history", {"plan": plan}
    for i, (o, mo) in enumerate(zip(obs, rep)):
        if o is None:
            continue
        mo = [mo[0]] + [[sorted(ir[0]), sorted(ir[1])] for ir in mo[1:]]
        if mo != o:
            what = "whether the call raised (KeyError flag)" if mo[0] != o[0] else next(
                ("IR %d %s" % (k, "members" if mo[k][0] != o[k][0] else "UUID table") for k in (1, 2) if mo[k] != o[k]), "?")
            return ("twin-cache history, step %d %s: implementation and model differ in %s (implementation %s, model %s)"
                    % (i, ops[i], what, str(o)[:200], str(mo)[:200]),
                    {"plan": plan, "step": i, "impl": o, "model": mo, "stream": "twin cache (Model/TwinCache.v)"})
    return None


def scenario(ctx, g, rng, steps, sig):
    plan = gen_plan(ctx, g, rng, steps)
    bad = compare(g, plan)
    if bad:
        ctx.add("corr", sig, bad[0], bad[1])
    ctx.case("twin-model:" + repr(plan["ops"]), True)


def run(ctx, g, rng, n, steps, sig):
    for _ in range(n):
        scenario(ctx, g, rng, steps, sig)


# ---------------- the same on the module LISTS of the two IRs ----------------
def _build_modules(g, rng):
    ir = g.IR()
    for j in range(rng.choice([2, 3])):
        m = g.Module(name="m%d" % j, ir=ir)
        s = g.Section(name="s", module=m)
        bi = g.ByteInterval(size=8, address=16 * j, section=s)
        g.CodeBlock(size=1, offset=0, byte_interval=bi)
        g.Symbol("y%d" % j, module=m)
        if rng.random() < 0.5:
            g.ProxyBlock(module=m)
    buf = io.BytesIO()
    ir.save_protobuf_file(buf)
    return buf.getvalue()


def _module_subtree(m):
    out = [m] + list(m.proxies) + list(m.symbols)
    for s in m.sections:
        out.extend(_subtree(s))
    return out


def modules_scenario(ctx, g, rng, steps, sig):
    """Elements are MODULES, the owning collections the two `ir.modules` lists of two loads of one file (plus a free module):
    append / insert (add), remove / pop (discard), `modules[i] = m` and `modules[i:j] = [..]` -- for the model a discard of every
    element that leaves followed by an add of every element that enters, which is what the list does -- with members exchanged for
    their twins of the other IR.  Operations that would leave two equal UUIDs in one IR are skipped (outside the premise)."""
    data = _build_modules(g, rng)
    irs = {1: g.IR.load_protobuf_file(io.BytesIO(data)), 2: g.IR.load_protobuf_file(io.BytesIO(data))}
    num, elems = {}, {}

    def number(o):
        if id(o) not in num:
            num[id(o)] = len(num) + 1
        return num[id(o)]
    for k in (1, 2):
        for m in irs[k].modules:
            elems[number(m)] = m
            for o in _module_subtree(m):
                number(o)
    free = g.Module(name="free")
    g.Section(name="fs", module=free)
    elems[number(free)] = free
    for o in _module_subtree(free):
        number(o)
    subs = [[x, [[o.uuid.int, number(o)] for o in _module_subtree(m)]] for x, m in elems.items()]
    uu = {x: {u for u, _ in tr} for x, tr in subs}
    all_uuids = sorted({u for _, tr in subs for u, _ in tr})
    shadow = {k: [num[id(m)] for m in irs[k].modules] for k in (1, 2)}
    ops = [[0, k, x] for k in (1, 2) for x in shadow[k]]
    obs = [None] * len(ops)
    descs = [None] * len(ops)

    def premise_ok(final):
        seen = set()
        for x in final:
            if uu[x] & seen:
                return False
            seen |= uu[x]
        return len(set(final)) == len(final)

    def observe(raised):
        out = [0 if raised else 1]
        for k in (1, 2):
            tab = []
            for u in all_uuids:
                got = irs[k].get_by_uuid(uuidlib.UUID(int=u))
                if got is not None:
                    tab.append([u, num.get(id(got), -1)])
            out.append([sorted(num.get(id(m), -1) for m in irs[k].modules), sorted(tab)])
        return out
    for _ in range(steps):
        k = rng.choice([1, 2])
        other = 3 - k
        cur = list(shadow[k])
        ml = irs[k].modules
        r = rng.random()
        x = rng.choice(sorted(elems))
        twins = [y for y in sorted(elems) if any(elems[y].uuid == elems[c].uuid and y != c for c in cur)]
        if twins and rng.random() < 0.6:
            x = rng.choice(twins)
        if r < 0.25:
            final = [y for y in cur if y != x] + [x]
            desc, f = "ir%d.modules.append(n%d)" % (k, x), (lambda: ml.append(elems[x]))
        elif r < 0.4 and cur:
            y = rng.choice(cur)
            final = [c for c in cur if c != y]
            desc, f = "ir%d.modules.remove(n%d)" % (k, y), (lambda: ml.remove(elems[y]))
            x = None
        elif r < 0.75 and cur:
            i = rng.randrange(len(cur))
            # (the twin of the element at i, most of the time: the replaced element leaves, its twin enters)
            tw = [y for y in sorted(elems) if y != cur[i] and elems[y].uuid == elems[cur[i]].uuid]
            if tw and rng.random() < 0.6:
                x = tw[0]
            new = list(cur)
            new[i] = x
            final = [c for p, c in enumerate(new) if c != x or p == i]
            desc, f = "ir%d.modules[%d] = n%d" % (k, i, x), (lambda: ml.__setitem__(i, elems[x]))
        else:
            i = rng.randrange(len(cur) + 1)
            j = min(len(cur), i + rng.choice([0, 1, 2]))
            xs = list(dict.fromkeys([x] + [rng.choice(sorted(elems)) for _ in range(rng.choice([0, 1]))]))
            final = [c for c in cur[:i] if c not in xs] + xs + [c for c in cur[j:] if c not in xs]
            desc, f = "ir%d.modules[%d:%d] = %s" % (k, i, j, xs), (lambda: ml.__setitem__(slice(i, j), [elems[c] for c in xs]))
            x = None
        if not premise_ok(final):
            ctx.count("twin_model_ops_outside_premise")
            continue
        leavers = [c for c in cur if c not in final]
        enterers = [c for c in final if c not in cur]
        raised = None
        try:
            f()
        except KeyError:
            raised = "KeyError"
        except Exception as e:  # noqa: BLE001
            raised = exc_name(g, e)
        shadow[k] = final
        shadow[other] = [c for c in shadow[other] if c not in enterers]
        step_ops = [[1, k, c] for c in leavers] + [[0, k, c] for c in enterers]
        ctx.count("twin_model_list_ops:" + desc.split("(")[0].split("[")[0].split(".")[-1] + ("[]" if "[" in desc else ""))
        if not step_ops:
            continue
        ops.extend(step_ops)
        obs.extend([None] * (len(step_ops) - 1) + [observe(raised)])
        descs.extend([desc] * len(step_ops))
        if raised:
            break
    rep = model_batch([[52, subs, ops]])[0]
    if isinstance(rep, tuple) or len(rep) != len(ops):
        ctx.add("corr", sig + ":model-died", "the model driver failed on a twin-cache history over module lists", {"ops": ops[:40]})
        return
    for i, (o, mo) in enumerate(zip(obs, rep)):
        if o is None:
            continue
        mo = [mo[0]] + [[sorted(ir[0]), sorted(ir[1])] for ir in mo[1:]]
        if mo != o:
            what = "whether the call raised" if mo[0] != o[0] else next(
                ("IR %d %s" % (k, "members" if mo[k][0] != o[k][0] else "UUID table") for k in (1, 2) if mo[k] != o[k]), "?")
            ctx.add("corr", sig, "twin-cache history over the module lists of two loads of one file, after %s: implementation and model differ in %s "
                    "(implementation %s, model %s)" % (descs[i], what, str(o)[:160], str(mo)[:160]),
                    {"calls": [d for d in dict.fromkeys(descs[: i + 1]) if d], "impl": o, "model": mo, "stream": "twin cache, module lists (Model/TwinCache.v)"})
            return
    ctx.case("twin-model-lists:" + repr(ops), True)
