#!/bin/bash
# run every check for several seeds in parallel on the current tree; print the lines that are not clean
# usage: harness/soak.sh "1 2 3" [tier]
cd "$(dirname "$0")/.."
SEEDS=${1:-"1 2 3"}
TIER=${2:-quick}
OUT=$(mktemp -d)
PIDS=$(/venv/bin/python -c "import json; print(' '.join(c['property_id'] for c in json.load(open('MANIFEST.json'))['checks']))")
/venv/bin/python -c "import sys; sys.path.insert(0,'harness'); import common; common.build()" > /dev/null 2>&1   # whole project once, before going parallel
for s in $SEEDS; do for p in $PIDS; do echo "$s $p"; done; done | xargs -P 14 -L 1 bash -c 'VERIF_SEED=$0 harness/check.py $1 --tier '$TIER' --no-build > '$OUT'/$1.$0.log 2>&1; echo "$1 seed=$0 rc=$?"' | sort | grep -v "rc=0" 
grep -l "VIOLATION" $OUT/*.log 2>/dev/null | while read f; do echo "== $f"; grep -E "VIOLATION|^  \[" $f | head -5 | cut -c1-300; done
echo "soak done: $(ls $OUT | wc -l) runs, logs in $OUT"
