"""Shared machinery of the checks: build pipeline (gen files, Coq make, extraction,
OCaml driver), the model driver client, s-expression wire format, proof-obligation
checking (coqc Props/Cxx.v + Print Assumptions), verdict logic, evidence writer."""
import fcntl
import hashlib
import json
import os
import random
import re
import subprocess
import sys
import time

VERIF = os.path.dirname(os.path.dirname(os.path.abspath(__file__)))
COQ = os.path.join(VERIF, "coq")
OCAML = os.path.join(VERIF, "ocaml")
HARNESS = os.path.join(VERIF, "harness")
REPO = os.environ.get("VERIF_REPO", "/repo")
PY = "/venv/bin/python"
COQ_FLAGS = ["-Q", "Base", "V", "-Q", "Model", "V", "-Q", "Proofs", "V", "-Q", "gen", "V", "-Q", "Props", "V"]

ERR_CODES = {
    1: "TypeNameError", 2: "DeserializationError", 3: "ValueError", 4: "KeyError", 5: "IndexError",
    6: "TypeError", 7: "EncodeError", 8: "DecodeError", 9: "OverflowError", 10: "struct.error",
    11: "UnknownCodecError", 12: "AttributeError", 98: "OutOfFuel", 99: "Impossible",
}


def env_for_children():
    e = dict(os.environ)
    e["PYTHONHASHSEED"] = os.environ.get("PYTHONHASHSEED", "0")
    e["PYTHONPATH"] = HARNESS
    e["PYTHONDONTWRITEBYTECODE"] = "1"
    e["GTIRB_VERIF"] = "1"
    return e


# ----------------------------------------------------------------------------------------
# s-expressions: nested lists of ints  <->  "(1 (ff -2))" with hexadecimal atoms

def sx_dump(x, out=None):
    top = out is None
    if top:
        out = []
    if isinstance(x, bool):
        out.append("1" if x else "0")
    elif isinstance(x, int):
        out.append(format(x, "x"))
    else:
        out.append("(")
        first = True
        for y in x:
            if not first:
                out.append(" ")
            first = False
            sx_dump(y, out)
        out.append(")")
    if top:
        return "".join(out)


_tok = re.compile(r"[()]|[^\s()]+")


def sx_load(s):
    stack = [[]]
    for t in _tok.findall(s):
        if t == "(":
            stack.append([])
        elif t == ")":
            l = stack.pop()
            stack[-1].append(l)
        else:
            stack[-1].append(int(t, 16))
    assert len(stack) == 1 and len(stack[0]) == 1, s[:200]
    return stack[0][0]


def zs(s):
    """str -> list of code points"""
    return [ord(c) for c in s]


class Model:
    """Batch client of the extracted model: collect requests, run the driver once."""

    def __init__(self):
        self.reqs = []

    def ask(self, req):
        self.reqs.append(sx_dump(req))
        return len(self.reqs) - 1

    def _run_lines(self, lines, timeout):
        data = ("\n".join(lines) + "\n").encode()
        # cap address space (a garbage element count makes Z.to_nat build a huge unary nat) and time
        p = subprocess.run(["bash", "-c", "ulimit -s unlimited 2>/dev/null; ulimit -v 6000000; exec %s" % os.path.join(OCAML, "driver")],
                           input=data, stdout=subprocess.PIPE, stderr=subprocess.PIPE, timeout=timeout)
        out = p.stdout.decode().split("\n")
        if out and out[-1] == "":
            out.pop()
        return p.returncode, out, p.stderr.decode()[-400:]

    def run(self, timeout=900):
        if not self.reqs:
            return []
        lines, self.reqs = self.reqs, []
        try:
            rc, out, err = self._run_lines(lines, timeout)
        except subprocess.TimeoutExpired:
            rc, out, err = -9, [], "timeout"
        if rc != 0 or len(out) != len(lines):
            # isolate: the driver died on request number len(out); mark it and continue after it
            done = list(out)
            rest = lines[len(done):]
            guard = 0
            while rest and guard < 50:
                guard += 1
                done.append("!model-died")
                rest = rest[1:]
                if not rest:
                    break
                try:
                    rc, out, err = self._run_lines(rest, timeout)
                except subprocess.TimeoutExpired:
                    rc, out = -9, []
                done.extend(out)
                rest = rest[len(out):]
                if rc == 0 and not rest:
                    break
            if len(done) != len(lines):
                raise RuntimeError("model driver failed repeatedly: %s" % err)
            out = done
        res = []
        for l in out:
            if l.startswith("!"):
                res.append(("driver-error", l))
            else:
                res.append(sx_load(l))
        return res


def model_batch(reqs):
    m = Model()
    for r in reqs:
        m.ask(r)
    return m.run()


# ----------------------------------------------------------------------------------------
# build pipeline

def _write_if_changed(path, text):
    try:
        with open(path) as f:
            if f.read() == text:
                return False
    except FileNotFoundError:
        pass
    tmp = path + ".tmp%d" % os.getpid()
    with open(tmp, "w") as f:
        f.write(text)
    os.replace(tmp, path)
    return True


def run_cmd(cmd, cwd=None, timeout=1800, env=None):
    p = subprocess.run(cmd, cwd=cwd, stdout=subprocess.PIPE, stderr=subprocess.STDOUT, timeout=timeout, env=env)
    return p.returncode, p.stdout.decode(errors="replace")


class BuildError(Exception):
    pass


def project_files():
    out = []
    for line in open(os.path.join(COQ, "_CoqProject")):
        line = line.strip()
        if line.endswith(".v"):
            out.append(line)
    return out


def proof_targets(pid):
    """the .vo files Props/<pid>.v imports directly (make follows their own dependencies)"""
    src = open(os.path.join(COQ, "Props", pid + ".v")).read()
    names = set()
    for m in re.finditer(r"From\s+V\s+Require(?:\s+Import|\s+Export)?\s+([^.]+)\.", src):
        names.update(m.group(1).split())
    by_base = {os.path.basename(f)[:-2]: f for f in project_files()}
    return sorted(by_base[n][:-2] + ".vo" for n in names if n in by_base)


def build(pid=None, verbose=False):
    """Regenerate gen/*.v from /repo; make the MODEL part of the Coq project (Base, gen, Model), extract, build the driver; then make
    the proof files property <pid> depends on (all of them when pid is None).
    A broken model build / extraction raises BuildError (the framework itself is broken: no property is shown).  A proof file that
    no longer compiles -- e.g. a finite-table obligation over regenerated facts -- is NOT a framework failure: it is recorded
    (info['proof_build_error']) and surfaces as a broken proof obligation of exactly the properties whose theorems depend on it,
    while their behavioural streams still run and search for a concrete failing input."""
    t0 = time.time()
    info = {"gen_error": None}
    lock = open(os.path.join(VERIF, ".build.lock"), "w")
    fcntl.flock(lock, fcntl.LOCK_EX)
    try:
        # 1. generated facts (subprocess: it imports the working tree)
        rc, out = run_cmd([PY, os.path.join(HARNESS, "genfacts.py")], env=env_for_children(), timeout=300)
        if rc != 0:
            info["gen_error"] = out[-3000:]
        # 2. Coq
        if not os.path.exists(os.path.join(COQ, "Makefile")):
            rc, out = run_cmd(["coq_makefile", "-f", "_CoqProject", "-o", "Makefile"], cwd=COQ)
            if rc != 0:
                raise BuildError("coq_makefile failed:\n" + out)
        model_vos = [f[:-2] + ".vo" for f in project_files() if f.split("/")[0] in ("Base", "gen", "Model")]
        rc, out = run_cmd(["timeout", "1500", "make", "-j16"] + model_vos, cwd=COQ, timeout=1600)
        if rc != 0:
            raise BuildError("Coq build of the model failed:\n" + out[-4000:])
        targets = proof_targets(pid) if pid else [f[:-2] + ".vo" for f in project_files()]
        rc, out = run_cmd(["timeout", "1500", "make", "-j16", "-k"] + targets, cwd=COQ, timeout=1600)
        if rc != 0:
            info["proof_build_error"] = out[-4000:]
            if not pid:
                raise BuildError("Coq build failed:\n" + out[-4000:])
        # 3. extraction + driver, when the model changed
        stamp = os.path.join(OCAML, ".stamp")
        h = hashlib.sha256()
        for root in ("Base", "Model", "gen"):
            for fn in sorted(os.listdir(os.path.join(COQ, root))):
                if fn.endswith(".v"):
                    with open(os.path.join(COQ, root, fn), "rb") as f:
                        h.update(fn.encode() + f.read())
        for fn in ("Extract.v",):
            with open(os.path.join(COQ, fn), "rb") as f:
                h.update(f.read())
        with open(os.path.join(OCAML, "driver.ml"), "rb") as f:
            h.update(f.read())
        digest = h.hexdigest()
        old = None
        if os.path.exists(stamp) and os.path.exists(os.path.join(OCAML, "driver")):
            old = open(stamp).read().strip()
        if old != digest:
            flags = [x if not x in ("Base", "Model", "Proofs", "gen", "Props") else os.path.join(COQ, x) for x in COQ_FLAGS]
            rc, out = run_cmd(["timeout", "600", "coqc"] + flags + [os.path.join(COQ, "Extract.v")], cwd=OCAML)
            for junk in ("Extract.vo", "Extract.glob", ".Extract.aux", "Extract.vok", "Extract.vos"):
                try:
                    os.remove(os.path.join(COQ, junk))
                except FileNotFoundError:
                    pass
            if rc != 0:
                raise BuildError("extraction failed:\n" + out[-3000:])
            rc, out = run_cmd(["ocamlfind", "ocamlopt", "-O2", "-w", "-a", "model.mli", "model.ml", "driver.ml", "-o", "driver"], cwd=OCAML)
            if rc != 0:
                raise BuildError("driver build failed:\n" + out[-3000:])
            with open(stamp, "w") as f:
                f.write(digest)
    finally:
        fcntl.flock(lock, fcntl.LOCK_UN)
        lock.close()
    info["build_s"] = round(time.time() - t0, 2)
    return info


# ----------------------------------------------------------------------------------------
# proof obligations

def check_props(pid, thorough=False):
    """coqc Props/<pid>.v; parse Print Assumptions.  Returns dict(ok, theorems=[(name, axioms)], log)."""
    path = os.path.join(COQ, "Props", pid + ".v")
    src = open(path).read()
    names = re.findall(r"^\s*(?:Theorem|Lemma|Corollary)\s+([A-Za-z0-9_']+)", src, re.M)
    lock = open(os.path.join(VERIF, ".props.%s.lock" % pid), "w")
    fcntl.flock(lock, fcntl.LOCK_EX)
    try:
        rc, out = run_cmd(["timeout", "900", "coqc"] + COQ_FLAGS + ["Props/%s.v" % pid], cwd=COQ, timeout=1000)
    finally:
        fcntl.flock(lock, fcntl.LOCK_UN)
        lock.close()
    res = {"ok": rc == 0, "names": names, "log": out[-6000:], "axioms": {}, "cmd": "cd /verif/coq && coqc %s Props/%s.v" % (" ".join(COQ_FLAGS), pid)}
    if rc == 0:
        # each Print Assumptions prints either "Closed under the global context" or "Axioms:" + list
        blocks = re.split(r"(?=Closed under the global context|Axioms:)", out)
        blocks = [b for b in blocks if b.startswith("Closed") or b.startswith("Axioms:")]
        printed = re.findall(r"Print Assumptions\s+([A-Za-z0-9_'.]+)\s*\.", src)
        for nm, b in zip(printed, blocks):
            if b.startswith("Closed"):
                res["axioms"][nm] = []
            else:
                ax = re.findall(r"^([A-Za-z0-9_'.]+)\s*:", b, re.M)
                res["axioms"][nm] = ax
        res["printed"] = printed
    if thorough and rc == 0:
        rc2, out2 = run_cmd(["timeout", "900", "coqchk", "-silent", "-o"] + COQ_FLAGS + ["V." + pid], cwd=COQ, timeout=1000)
        res["coqchk_ok"] = rc2 == 0
        res["coqchk_tail"] = out2[-1500:]
        if rc2 != 0:
            res["ok"] = False
            res["log"] += "\ncoqchk failed:\n" + out2[-3000:]
    return res


def grep_gate():
    """No Admitted/admit/Axiom/Parameter/... anywhere in the development."""
    bad = []
    pat = re.compile(r"\b(Admitted|admit|Axiom|Axioms|Parameter|Parameters|Conjecture|Hypothesis|Variable|Variables|Hypotheses)\b|Unset\s+Guard|bypass_check|Admit Obligations|-type-in-type|impredicative-set|Unset\s+Positivity|Unset\s+Universe")
    listed = set()
    for line in open(os.path.join(COQ, "_CoqProject")):
        line = line.strip()
        if line.endswith(".v"):
            listed.add(os.path.normpath(os.path.join(COQ, line)))
    for fn in os.listdir(os.path.join(COQ, "Props")):
        if fn.endswith(".v"):
            listed.add(os.path.join(COQ, "Props", fn))
    listed.add(os.path.join(COQ, "Extract.v"))
    # only the development that is built and checked (work-in-progress files not yet in _CoqProject are not part of it)
    for p in sorted(listed):
        if True:
            if os.path.exists(p):
                fn = os.path.basename(p)
                txt = open(p).read()
                # strip comments
                txt2 = re.sub(r"\(\*.*?\*\)", "", txt, flags=re.S)
                insec = 0
                for i, line in enumerate(txt2.split("\n")):
                    if re.match(r"\s*Section\b", line):
                        insec += 1
                    if re.match(r"\s*End\b", line) and insec:
                        insec -= 1
                    m = pat.search(line)
                    if m:
                        w = m.group(0)
                        if w in ("Variable", "Variables", "Hypothesis", "Hypotheses") and insec:
                            continue
                        bad.append("%s:%d: %s" % (os.path.relpath(p, VERIF), i + 1, line.strip()[:100]))
    return bad


# ----------------------------------------------------------------------------------------
# findings, known findings, verdict, evidence

class Finding:
    def __init__(self, kind, sig, what, replay):
        """kind: 'oracle' (property fails on the implementation for this concrete input),
                 'corr'   (model and implementation disagree),
                 'proof'  (a proof obligation no longer checks)
           sig : stable signature used for KNOWN_FINDINGS matching
           what: one-line human description;  replay: JSON-able data to re-run it"""
        self.kind, self.sig, self.what, self.replay = kind, sig, what, replay


def load_known(pid):
    out = []
    p = os.path.join(VERIF, "KNOWN_FINDINGS.txt")
    if not os.path.exists(p):
        return out
    for line in open(p):
        line = line.strip()
        m = re.match(r"known:\s+property=(\S+)\s+sig=(\S+)\s+(.*)$", line)
        if m and m.group(1) == pid:
            out.append((m.group(2), m.group(3)))
    return out


class Ctx:
    def __init__(self, pid, tier, seed):
        self.pid, self.tier, self.seed = pid, tier, seed
        self.rng = random.Random(seed * 1000003 + int(pid[1:]))
        self.findings = []
        self.t0 = time.time()
        self.cov = {"evaluations": 0, "distinct_nontrivial": 0, "rule": "", "samples": [], "distribution": {}}
        self.assumptions = []
        self._distinct = set()
        self.quick = tier == "quick"
        self.last_case = None

    def count(self, key, n=1):
        d = self.cov["distribution"]
        d[key] = d.get(key, 0) + n

    def case(self, canon_text, nontrivial):
        self.cov["evaluations"] += 1
        self.last_case = canon_text
        if nontrivial:
            h = hashlib.blake2b(canon_text.encode() if isinstance(canon_text, str) else canon_text, digest_size=8).digest()
            self._distinct.add(h)

    def sample(self, x, limit=6):
        if len(self.cov["samples"]) < limit:
            self.cov["samples"].append(x)

    def in_scope(self, sig):
        sc = getattr(self, "scope", None)
        if not sc:
            return True
        if "allow" in sc:
            return any(sig.startswith(p) for p in sc["allow"])
        return not any(sig.startswith(p) for p in sc.get("deny", ()))

    def add(self, kind, sig, what, replay):
        # Streams shared between properties (writer / reader / round trip) observe more than one property speaks about: a check
        # keeps the findings of ITS property (ctx.scope) and only counts the others, so that a defect of another property does
        # not raise this check's alarm.  Proof obligations and harness failures are always kept.
        if kind != "proof" and sig != "harness-exception" and sig != "no-termination" and not self.in_scope(sig):
            self.count("out_of_scope_observation:" + sig.split(":")[0] + ":" + sig.split(":")[1].split("=")[0][:24] if ":" in sig else "out_of_scope_observation:" + sig)
            return
        # keep at most a few findings per signature
        n = sum(1 for f in self.findings if f.sig == sig)
        if n < 3:
            self.findings.append(Finding(kind, sig, what, replay))

    def elapsed(self):
        return time.time() - self.t0


def manifest_level(pid, default):
    try:
        man = json.load(open(os.path.join(VERIF, "MANIFEST.json")))
        for c in man.get("checks", []):
            if c["property_id"] == pid:
                return c["level_claimed"]["category"]
    except Exception:  # noqa: BLE001
        pass
    return default


def finish(ctx, props_res, build_info, level="proof", extra_trusted=()):
    pid = ctx.pid
    level = manifest_level(pid, level)
    ctx.cov["distinct_nontrivial"] = len(ctx._distinct)
    obligations = len(props_res["names"]) if props_res else 0
    discharged = obligations if (props_res and props_res["ok"]) else 0
    if props_res and not props_res["ok"]:
        mk = (build_info or {}).get("proof_build_error")
        culprit = ""
        if mk:
            m = re.search(r'File "\./([^"]+)", line (\d+)', mk)
            culprit = " (%s, line %s, no longer compiles)" % (m.group(1), m.group(2)) if m else ""
        ctx.add("proof", "proof-obligation", "Props/%s.v no longer checks%s" % (pid, culprit),
                {"theorem_file": "coq/Props/%s.v" % pid, "coqc_log": props_res["log"][-3000:], "make_log": (mk or "")[-3000:]})
    if build_info and build_info.get("gen_error"):
        ctx.add("proof", "gen-facts", "fact extraction from the working tree failed",
                {"log": build_info["gen_error"]})
    axioms = sorted({a for l in (props_res or {}).get("axioms", {}).values() for a in l})
    trusted = [
        "Coq 8.16.1 kernel (coqc), vm_compute where used; no native_compute",
        "axioms reported by Print Assumptions: " + (", ".join(axioms) if axioms else "none (all theorems closed under the global context)"),
        "extraction: ExtrOcamlBasic only (Extract Inductive for bool, option, unit, list, prod, sumbool, sumor), OCaml 4.13.1, ocaml/driver.ml",
        "translators harness/protoc_lite.py, harness/genfacts.py; Python harness (generators, canonicalisers, oracles); CPython 3.12",
        "correspondence is differential sampling, not proof: a defect needing an input shape the generators never produce escapes",
    ] + list(extra_trusted)
    ctx.cov.update({
        "obligations": obligations, "discharged": discharged,
        "checker_cmd": props_res["cmd"] if props_res else "",
        "trusted_base": trusted,
        "theorems": props_res["names"] if props_res else [],
        "print_assumptions": (props_res or {}).get("axioms", {}),
    })
    if props_res and "coqchk_ok" in props_res:
        ctx.cov["coqchk_ok"] = props_res["coqchk_ok"]
    known = load_known(pid)
    viol, known_hit = [], {}
    for f in ctx.findings:
        hit = None
        for (sig, desc) in known:
            if f.sig == sig or (sig.endswith("*") and f.sig.startswith(sig[:-1])):
                hit = (sig, desc)
                break
        if hit:
            known_hit[hit[0]] = hit[1]
        else:
            viol.append(f)
    for sig, desc in sorted(known_hit.items()):
        print("KNOWN-FINDING: property=%s %s" % (pid, desc))
    rc = 0
    if viol:
        rc = 1
        os.makedirs(os.path.join(VERIF, "replays"), exist_ok=True)
        concrete = [f for f in viol if f.kind == "oracle"]
        rest = [f for f in viol if f.kind != "oracle"]
        primary = concrete[0] if concrete else rest[0]
        path = os.path.join(VERIF, "replays", "%s-%d-%s%s.json" % (pid, ctx.seed, ctx.tier, os.environ.get("VERIF_EVIDENCE_SUFFIX", "")))
        with open(path, "w") as fh:
            json.dump({
                "property": pid, "tier": ctx.tier, "seed": ctx.seed,
                "primary": {"kind": primary.kind, "sig": primary.sig, "what": primary.what, "replay": primary.replay},
                "others": [{"kind": f.kind, "sig": f.sig, "what": f.what, "replay": f.replay} for f in viol if f is not primary][:20],
                "rerun": "cd /verif && VERIF_SEED=%d harness/check.py %s --tier %s" % (ctx.seed, pid, ctx.tier),
            }, fh, indent=1, default=str)
        tail = "" if concrete else " no-failing-input-found"
        print("VIOLATION property=%s replay=%s%s" % (pid, path, tail))
        for f in viol[:8]:
            print("  [%s] %s: %s" % (f.kind, f.sig, f.what[:300]))
    ev = {
        "property_id": pid, "tier": ctx.tier, "seed": ctx.seed, "level": level,
        "coverage": ctx.cov, "assumptions": ctx.assumptions,
        "wall_s": round(ctx.elapsed(), 2), "violations": len(viol),
        "known_findings_reproduced": sorted(known_hit),
    }
    os.makedirs(os.path.join(VERIF, "evidence"), exist_ok=True)
    with open(os.path.join(VERIF, "evidence", pid + os.environ.get("VERIF_EVIDENCE_SUFFIX", "") + ".json"), "w") as fh:
        json.dump(ev, fh, indent=1, default=str)
    print("%s %s seed=%d: evaluations=%d distinct_nontrivial=%d obligations=%d/%d findings=%d known=%d wall=%.1fs"
          % (pid, ctx.tier, ctx.seed, ctx.cov["evaluations"], ctx.cov["distinct_nontrivial"], discharged, obligations,
             len(viol), len(known_hit), ctx.elapsed()))
    return rc


def exc_name(g, e):
    """Map an implementation exception to the small enum the model uses."""
    import struct
    ser = g.serialization
    table = [
        (ser.TypeNameError, "TypeNameError"), (ser.UnknownCodecError, "UnknownCodecError"),
        (ser.EncodeError, "EncodeError"), (ser.DecodeError, "DecodeError"),
        (g.util.DeserializationError, "DeserializationError"),
        (struct.error, "struct.error"), (OverflowError, "OverflowError"), (KeyError, "KeyError"),
        (IndexError, "IndexError"), (ValueError, "ValueError"), (TypeError, "TypeError"),
        (AttributeError, "AttributeError"),
    ]
    for cls, nm in table:
        if isinstance(e, cls):
            return nm
    return type(e).__name__


def model_result(rep):
    """(0 x ...) -> ('ok', rest...) ; (-1 code) -> ('err', name)"""
    if isinstance(rep, tuple):
        return ("err", rep[1])
    if isinstance(rep, list) and rep and rep[0] == -1:
        return ("err", ERR_CODES.get(rep[1], "code%d" % rep[1]))
    return ("ok",) + tuple(rep[1:])


def start_watchdog(ctx, state):
    """A check must end: when the wall-clock budget (VERIF_BUDGET_S; default 30 min quick, 4 h thorough) or 8 GB of resident
    memory is exceeded -- the implementation loops or explodes on some generated input -- the check reports that as a finding
    (with the main thread's stack and the last completed case) and exits, instead of hanging."""
    import threading
    import traceback
    budget = float(os.environ.get("VERIF_BUDGET_S") or (1800 if ctx.quick else 4 * 3600))
    max_rss = 8 << 30
    main_id = threading.main_thread().ident

    def loop():
        while True:
            time.sleep(2)
            try:
                rss = int(open("/proc/self/statm").read().split()[1]) * os.sysconf("SC_PAGE_SIZE")
            except Exception:  # noqa: BLE001
                rss = 0
            if ctx.elapsed() <= budget and rss <= max_rss:
                continue
            why = ("resident memory reached %.1f GB" % (rss / 2 ** 30)) if rss > max_rss else ("not finished after %d s" % budget)
            fr = sys._current_frames().get(main_id)
            stack = "".join(traceback.format_stack(fr)[-14:]) if fr else ""
            in_impl = "/gtirb/" in stack.split("harness/")[-1]
            last = ctx.last_case
            last = last.decode(errors="replace") if isinstance(last, bytes) else (last if isinstance(last, str) else repr(last))
            ctx.add("corr", "no-termination", "the check did not end (%s)%s; see the stack and the last completed case" %
                    (why, ": the implementation does not return on a generated input" if in_impl else ""),
                    {"why": why, "main_thread_stack": stack[-5000:], "last_completed_case": (last or "")[:6000]})
            try:
                rc = finish(ctx, state.get("props_res"), state.get("binfo"), level=state.get("level", "proof"),
                            extra_trusted=state.get("trusted", ()))
            except Exception:  # noqa: BLE001
                traceback.print_exc()
                rc = 1
            sys.stdout.flush()
            os._exit(rc or 1)

    t = threading.Thread(target=loop, daemon=True)
    t.start()


class ImplTimeout(Exception):
    pass


class time_limit:
    """with time_limit(2.0): ...   raises ImplTimeout inside the block when the implementation hangs"""

    def __init__(self, seconds):
        self.seconds = seconds

    def _handler(self, signum, frame):
        raise ImplTimeout("implementation call exceeded %.1fs" % self.seconds)

    def __enter__(self):
        import signal
        self._old = signal.signal(signal.SIGALRM, self._handler)
        signal.setitimer(signal.ITIMER_REAL, self.seconds)
        return self

    def __exit__(self, *a):
        import signal
        signal.setitimer(signal.ITIMER_REAL, 0)
        signal.signal(signal.SIGALRM, self._old)
        return False
