"""C19 finding 1: a content edit that grows the stored bytes past `size`
is accepted silently; stored bytes then exceed size and the saved file
cannot be loaded back."""
import io
import sys

sys.path.insert(0, "/tmp/mutkit")
import gtirb_from_repo  # noqa: E402

gtirb = gtirb_from_repo.load()

problems = []


def world():
    ir = gtirb.IR()
    m = gtirb.Module(name="m", ir=ir)
    s = gtirb.Section(name="s", module=m)
    bi = gtirb.ByteInterval(contents=b"abcd", section=s)  # size 4, 4 bytes
    return ir, bi


edits = {
    "bi.contents += b'xy'": lambda bi: setattr(
        bi, "contents", bi.contents.__iadd__(b"xy")
    ),
    "bi.contents.extend(b'xy')": lambda bi: bi.contents.extend(b"xy"),
    "bi.contents[2:2] = b'Q'": lambda bi: bi.contents.__setitem__(
        slice(2, 2), b"Q"
    ),
    "bi.contents = b'abcdefgh'": lambda bi: setattr(
        bi, "contents", b"abcdefgh"
    ),
}
for name, edit in edits.items():
    ir, bi = world()
    edit(bi)
    if len(bi.contents) > bi.size:
        problems.append(
            "%s: stored bytes %d (initialized_size %d) exceed size %d"
            % (name, len(bi.contents), bi.initialized_size, bi.size)
        )
    buf = io.BytesIO()
    ir.save_protobuf_file(buf)  # saving succeeds
    buf.seek(0)
    try:
        gtirb.IR.load_protobuf_file(buf)
    except Exception as e:  # noqa: BLE001
        problems.append(
            "%s: saved file does not load back: %s: %s"
            % (name, type(e).__name__, e)
        )

if problems:
    print("VIOLATION of C19:")
    for p in problems:
        print("  " + p)
    sys.exit(1)
print("ok")
