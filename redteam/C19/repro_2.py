"""C19 finding 2: `contents` is stored by reference and initialized_size pads
the bytearray IN PLACE (but truncates by rebinding).  After the legal content
edit `b2.contents = b1.contents` (2 bytes into a size-2 interval), a legal
`b1.initialized_size = 10` (b1.size is 10) silently gives b2 ten stored bytes
for size 2; b2's IR then saves but does not load.  copy.copy(interval) shares
the buffer in the same way."""
import copy
import io
import sys

sys.path.insert(0, "/tmp/mutkit")
import gtirb_from_repo  # noqa: E402

gtirb = gtirb_from_repo.load()

problems = []

ir = gtirb.IR()
m = gtirb.Module(name="m", ir=ir)
s = gtirb.Section(name="s", module=m)
b1 = gtirb.ByteInterval(size=10, contents=b"ab", section=s)
b2 = gtirb.ByteInterval(size=2, contents=b"xy", section=s)

b2.contents = b1.contents  # content edit: still 2 bytes, size 2
assert len(b2.contents) <= b2.size and b2.initialized_size == 2
b1.initialized_size = 10  # legal: not above b1.size

if len(b2.contents) > b2.size:
    problems.append(
        "b2 was not touched, yet has %d stored bytes (initialized_size %d) "
        "for size %d" % (len(b2.contents), b2.initialized_size, b2.size)
    )
buf = io.BytesIO()
ir.save_protobuf_file(buf)
buf.seek(0)
try:
    gtirb.IR.load_protobuf_file(buf)
except Exception as e:  # noqa: BLE001
    problems.append(
        "saved IR does not load back: %s: %s" % (type(e).__name__, e)
    )

# the asymmetry behind it: padding mutates in place, truncation rebinds
b3 = gtirb.ByteInterval(size=10, contents=b"ab")
c = copy.copy(b3)
c.size = 2
b3.initialized_size = 8
if len(c.contents) > c.size:
    problems.append(
        "copy.copy: copy has %d stored bytes for size %d after the original "
        "was padded" % (len(c.contents), c.size)
    )

if problems:
    print("VIOLATION of C19:")
    for p in problems:
        print("  " + p)
    sys.exit(1)
print("ok")
