"""C02 reader direction: a schema-valid, referentially closed IR message in which a
Symbol's referent (or a symbolic expression's symbol) lives in a LATER module of the
same IR is rejected by IR.load_protobuf_file.  Exits 1 when the violation shows."""
import sys, io, uuid
sys.path.insert(0, "/tmp/mutkit")
import gtirb_from_repo
gtirb = gtirb_from_repo.load()
from gtirb_from_repo import msg

def u(): return uuid.uuid4().bytes
def header(): return b"GTIRB\0\0" + bytes([gtirb.version.PROTOBUF_VERSION])

def base():
    M = msg("IR")(); M.uuid = u(); M.version = gtirb.version.PROTOBUF_VERSION
    mods = []
    for name in ("m1", "m2"):
        m = M.modules.add(); m.uuid = u(); m.name = name
        s = m.sections.add(); s.uuid = u(); s.name = ".text"
        bi = s.byte_intervals.add(); bi.uuid = u(); bi.size = 4; bi.contents = b"abcd"
        b = bi.blocks.add(); b.offset = 0; b.code.uuid = u(); b.code.size = 1
        b = bi.blocks.add(); b.offset = 1; b.data.uuid = u(); b.data.size = 1
        p = m.proxies.add(); p.uuid = u()
        y = m.symbols.add(); y.uuid = u(); y.name = "sym_" + name
        mods.append(m)
    return M, mods[0], mods[1]

failures = []
def attempt(what, M):
    try:
        ir = gtirb.IR.load_protobuf_file(io.BytesIO(header() + M.SerializeToString()))
    except Exception as e:
        failures.append("%s: load raised %s: %s" % (what, type(e).__name__, e))
        return None
    return ir

# control: backward references load fine
M, m1, m2 = base()
m2.symbols[0].referent_uuid = m1.sections[0].byte_intervals[0].blocks[0].code.uuid
m2.sections[0].byte_intervals[0].symbolic_expressions[0].addr_const.symbol_uuid = m1.symbols[0].uuid
ir = attempt("control (module 2 refers to module 1)", M)
assert ir is not None and list(ir.modules[1].symbols)[0].referent.uuid.bytes == m2.symbols[0].referent_uuid

# 1. symbol of module 1 -> code block / data block / proxy block of module 2
for kind, pick in (("code block", lambda m: m.sections[0].byte_intervals[0].blocks[0].code.uuid),
                   ("data block", lambda m: m.sections[0].byte_intervals[0].blocks[1].data.uuid),
                   ("proxy block", lambda m: m.proxies[0].uuid)):
    M, m1, m2 = base()
    m1.symbols[0].referent_uuid = pick(m2)
    attempt("Symbol.referent_uuid of module 1 names a %s of module 2" % kind, M)
# 2. symbolic expressions of module 1 -> symbol of module 2
M, m1, m2 = base()
m1.sections[0].byte_intervals[0].symbolic_expressions[0].addr_const.symbol_uuid = m2.symbols[0].uuid
attempt("SymAddrConst.symbol_uuid in module 1 names a symbol of module 2", M)
M, m1, m2 = base()
e = m1.sections[0].byte_intervals[0].symbolic_expressions[0].addr_addr
e.symbol1_uuid = m1.symbols[0].uuid; e.symbol2_uuid = m2.symbols[0].uuid
attempt("SymAddrAddr.symbol2_uuid in module 1 names a symbol of module 2", M)

# 3. the library's own writer produces such files from a legal in-memory IR
ir = gtirb.IR()
a = gtirb.Module(name="a", ir=ir); b = gtirb.Module(name="b", ir=ir)
sb = gtirb.Section(name=".text", module=b)
bib = gtirb.ByteInterval(size=1, contents=b"\x90", section=sb)
cb = gtirb.CodeBlock(size=1, byte_interval=bib)
gtirb.Symbol("callee", payload=cb, module=a)          # a's symbol names a block of b
buf = io.BytesIO(); ir.save_protobuf_file(buf)
try:
    gtirb.IR.load_protobuf_file(io.BytesIO(buf.getvalue()))
except Exception as e:
    failures.append("file written by save_protobuf_file itself: load raised %s: %s" % (type(e).__name__, e))

if failures:
    print("VIOLATION (C02, reader direction): referentially closed messages rejected:")
    for f in failures: print("  -", f)
    sys.exit(1)
print("ok: forward cross-module references load")
