"""C02 reader direction: a schema-valid ByteInterval message whose `size` is smaller
than len(`contents`) (e.g. size left at its default 0 with non-empty contents) is rejected
by the reader with ValueError, although the in-memory model can hold exactly that state
and the library's own writer emits it.  Exits 1 when the violation shows."""
import sys, io, uuid
sys.path.insert(0, "/tmp/mutkit")
import gtirb_from_repo
gtirb = gtirb_from_repo.load()
from gtirb_from_repo import msg

def u(): return uuid.uuid4().bytes
HDR = b"GTIRB\0\0" + bytes([gtirb.version.PROTOBUF_VERSION])
failures = []

def build(size, contents):
    M = msg("IR")(); M.uuid = u(); M.version = gtirb.version.PROTOBUF_VERSION
    m = M.modules.add(); m.uuid = u(); m.name = "m"
    s = m.sections.add(); s.uuid = u(); s.name = ".data"
    bi = s.byte_intervals.add(); bi.uuid = u(); bi.size = size; bi.contents = contents
    return M

for size, contents in ((4, b"abcd"), (0, b"abcd"), (3, b"abcd")):
    M = build(size, contents)
    try:
        ir = gtirb.IR.load_protobuf_file(io.BytesIO(HDR + M.SerializeToString()))
        (bi,) = ir.byte_intervals
        if bi.size != size or bytes(bi.contents) != contents:
            failures.append("message size=%d contents=%r loaded as size=%d contents=%r" % (size, contents, bi.size, bytes(bi.contents)))
    except Exception as e:
        failures.append("message with ByteInterval.size=%d, contents=%r (message field 'size' %s): load raised %s: %s"
                        % (size, contents, "at its default" if size == 0 else "non-default", type(e).__name__, e))

# The writer itself emits such a message from a reachable in-memory state.
ir = gtirb.IR(); m = gtirb.Module(name="m", ir=ir); s = gtirb.Section(name=".data", module=m)
bi = gtirb.ByteInterval(size=4, contents=b"abcd", section=s)
bi.contents += b"ef"                      # in-place operator through the attribute
buf = io.BytesIO(); ir.save_protobuf_file(buf)
W = msg("IR")(); W.ParseFromString(buf.getvalue()[8:])
wbi = W.modules[0].sections[0].byte_intervals[0]
assert (wbi.size, wbi.contents) == (bi.size, bytes(bi.contents)) == (4, b"abcdef")   # writer direction holds
try:
    gtirb.IR.load_protobuf_file(io.BytesIO(buf.getvalue()))
except Exception as e:
    failures.append("file written by save_protobuf_file (size=4, 6 content bytes): load raised %s: %s" % (type(e).__name__, e))

if failures:
    print("VIOLATION (C02, reader direction): schema-valid ByteInterval messages rejected:")
    for f in failures: print("  -", f)
    sys.exit(1)
print("ok")
