"""C09 finding 2: tables of a loaded module decode against the IR that loaded
them, not the IR the module is attached to.

Two files are loaded; the module of the second is moved into the first loaded
IR (ir_a.modules.append(m)); the module's AuxData tables have not been read
yet.  Reading them now yields plain UUIDs for entries that name nodes attached
to ir_a (the module's own blocks and symbols).

Run: VERIF_REPO=/tmp/hunt_C09 /venv/bin/python repro_2.py
Exits 1 when the violation shows, 0 otherwise.
"""
import io
import sys
from uuid import UUID

sys.path.insert(0, "/tmp/mutkit")
import gtirb_from_repo  # noqa: E402

gtirb = gtirb_from_repo.load()


def make_file(name):
    ir = gtirb.IR()
    m = gtirb.Module(name=name, ir=ir)
    s = gtirb.Section(name=".text", module=m)
    bi = gtirb.ByteInterval(contents=b"\x90" * 8, section=s)
    cb = gtirb.CodeBlock(size=4, byte_interval=bi)
    sym = gtirb.Symbol("f", payload=cb, module=m)
    m.aux_data["functionEntries"] = gtirb.AuxData(
        {sym: {cb}}, "mapping<UUID,set<UUID>>"
    )
    m.aux_data["comments"] = gtirb.AuxData(
        {gtirb.Offset(cb, 1): "hi"}, "mapping<Offset,string>"
    )
    f = io.BytesIO()
    ir.save_protobuf_file(f)
    return f.getvalue()


ir_a = gtirb.IR.load_protobuf_file(io.BytesIO(make_file("a")))
ir_b = gtirb.IR.load_protobuf_file(io.BytesIO(make_file("b")))

mod = ir_b.modules[0]
ir_a.modules.append(mod)  # ir_a is a loaded IR; mod is now attached to it
assert mod.ir is ir_a and list(ir_b.modules) == []

problems = []


def check(x, where):
    if isinstance(x, UUID):
        node = ir_a.get_by_uuid(x)
        if node is not None:
            problems.append(
                "%s: plain UUID %s although %s with that UUID is attached"
                % (where, x, type(node).__name__)
            )
    elif isinstance(x, gtirb.Node):
        if ir_a.get_by_uuid(x.uuid) is not x:
            problems.append("%s: node %r is not the attached object" % (where, x))
    elif isinstance(x, gtirb.Offset):
        check(x.element_id, where)
    elif isinstance(x, dict):
        for k, v in x.items():
            check(k, where)
            check(v, where)
    elif isinstance(x, (set, list, tuple)):
        for y in x:
            check(y, where)


for key, table in mod.aux_data.items():
    check(table.data, "%s.aux_data[%r]" % (mod.name, key))

# control: the tables of ir_a's own module behave
for key, table in ir_a.modules[0].aux_data.items():
    before = len(problems)
    check(table.data, "a.aux_data[%r]" % key)
    assert len(problems) == before

if problems:
    for p in problems:
        print(p)
    print(
        "VIOLATION: in a loaded IR, AuxData UUID/Offset entries that name "
        "attached nodes decoded to plain UUIDs (%d entries)" % len(problems)
    )
    sys.exit(1)
print("tables of the moved module name the attached objects")
sys.exit(0)
