"""C09 finding 1: dangling / ill-typed CFG.vertices references are accepted.

Run: VERIF_REPO=/tmp/hunt_C09 /venv/bin/python repro_1.py
Exits 1 (and says what is wrong) when the violation shows, 0 otherwise.
"""
import io
import sys
import uuid

sys.path.insert(0, "/tmp/mutkit")
import gtirb_from_repo  # noqa: E402

gtirb = gtirb_from_repo.load()
from gtirb.proto import IR_pb2  # noqa: E402

ir = gtirb.IR()
m = gtirb.Module(name="m", ir=ir)
s = gtirb.Section(name=".text", module=m)
bi = gtirb.ByteInterval(contents=b"\x90" * 8, section=s)
cb = gtirb.CodeBlock(size=4, byte_interval=bi)
db = gtirb.DataBlock(size=4, offset=4, byte_interval=bi)
sym = gtirb.Symbol("f", payload=cb, module=m)


def try_load(vertex_bytes):
    proto = ir._to_protobuf()  # a valid file: vertices == [cb]
    proto.cfg.vertices.append(vertex_bytes)
    data = (
        b"GTIRB\0\0"
        + bytes([gtirb.version.PROTOBUF_VERSION])
        + proto.SerializeToString()
    )
    try:
        gtirb.IR.load_protobuf_file(io.BytesIO(data))
        return "LOADED"
    except gtirb.util.DeserializationError:
        return "DeserializationError"
    except Exception as e:  # any other rejection
        return "rejected with %s" % type(e).__name__


cases = {
    "vertex names a missing node": uuid.uuid4().bytes,
    "vertex names a DataBlock (not a CfgNode)": db.uuid.bytes,
    "vertex names a Symbol (not a CfgNode)": sym.uuid.bytes,
    "vertex names the Module": m.uuid.bytes,
    "vertex is not even a UUID (3 bytes)": b"abc",
}
bad = 0
for what, b in cases.items():
    r = try_load(b)
    print("%-45s -> %s" % (what, r))
    if r == "LOADED":
        bad += 1

# control: the same dangling UUID as an *edge endpoint* is rejected
proto = ir._to_protobuf()
e = proto.cfg.edges.add()
e.source_uuid = cb.uuid.bytes
e.target_uuid = uuid.uuid4().bytes
data = b"GTIRB\0\0" + bytes([gtirb.version.PROTOBUF_VERSION]) + proto.SerializeToString()
try:
    gtirb.IR.load_protobuf_file(io.BytesIO(data))
    print("control (dangling edge target)                -> LOADED")
except gtirb.util.DeserializationError:
    print("control (dangling edge target)                -> DeserializationError")

if bad:
    print(
        "VIOLATION: %d file(s) whose CFG vertex reference names a missing "
        "node / a node of the wrong kind produced an IR instead of a "
        "DeserializationError" % bad
    )
    sys.exit(1)
sys.exit(0)
