"""C10: truthiness tests (`if node.referent:`, `if not self.module:`, `if parent:`) instead of
`is not None` make the referent/name indexes skip updates for user subclasses that are falsy
(e.g. a DataBlock subclass whose __len__ is its size, a Module subclass whose __len__ counts sections)."""
import sys; sys.path.insert(0, "/tmp/mutkit")
import gtirb_from_repo
gtirb = gtirb_from_repo.load()
bad = []

class SizedData(gtirb.DataBlock):
    def __len__(self):            # natural: "length of the block in bytes"
        return self.size

class CountingModule(gtirb.Module):
    def __len__(self):            # natural: "number of sections"
        return len(self.sections)

ir = gtirb.IR()
m = gtirb.Module(name="m", ir=ir)
sec = gtirb.Section(name="s", module=m)
bi = gtirb.ByteInterval(size=8, contents=b"\0" * 8, section=sec)

# (a) zero-sized block: never entered in the referent index
z = SizedData(size=0, offset=0, byte_interval=bi)
s = gtirb.Symbol("z", payload=z, module=m)
got = list(z.references); exp = [x for x in m.symbols if x.referent is z]
if got != exp:
    bad.append("(a) z.references = %r, expected %r" % (got, exp))

# (b) block that becomes falsy: the index entry is never removed -> stale symbol
n = SizedData(size=4, offset=0, byte_interval=bi)
t = gtirb.Symbol("n", payload=n, module=m)
n.size = 0
t.referent = None          # payload switched to none while the block is falsy
n.size = 4
got = list(n.references); exp = [x for x in m.symbols if x.referent is n]
if got != exp:
    bad.append("(b) n.references = %r, expected %r" % (got, exp))

# (c) falsy module: rename / payload change / block lookup ignored
cm = CountingModule(name="cm", ir=ir)       # no sections -> len 0 -> falsy
u = gtirb.Symbol("old", module=cm)
u.name = "new"
if list(cm.symbols_named("old")) != [] or list(cm.symbols_named("new")) != [u]:
    bad.append("(c) after rename old->new: symbols_named('old')=%r symbols_named('new')=%r"
               % ([x.name for x in cm.symbols_named("old")], [x.name for x in cm.symbols_named("new")]))
p = gtirb.ProxyBlock(module=cm)
u.referent = p
if list(p.references) != [u]:
    bad.append("(c) p.references = %r, expected [u]" % list(p.references))

if bad:
    print("C10 VIOLATED:"); [print("  " + b) for b in bad]; sys.exit(1)
print("ok"); sys.exit(0)
