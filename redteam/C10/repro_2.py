"""C10 (error path): when two nodes of one IR share a UUID (accepted silently, e.g. after loading the same
file twice and moving a symbol from one copy into the other), removing the second one raises KeyError in
Module._NodeSet.discard AFTER the symbol was taken out of the name/referent indexes and its module pointer
cleared but BEFORE it is taken out of module.symbols.  The symbol stays in module.symbols, invisible to
symbols_named / references, and every later removal attempt fails the same way."""
import sys, io; sys.path.insert(0, "/tmp/mutkit")
import gtirb_from_repo
gtirb = gtirb_from_repo.load()

ir = gtirb.IR(); m = gtirb.Module(name="m", ir=ir)
pb = gtirb.ProxyBlock(module=m)
gtirb.Symbol("x", payload=pb, module=m)
buf = io.BytesIO(); ir.save_protobuf_file(buf)
A = gtirb.IR.load_protobuf_file(io.BytesIO(buf.getvalue()))
B = gtirb.IR.load_protobuf_file(io.BytesIO(buf.getvalue()))
mA, mB = A.modules[0], B.modules[0]
(sA,) = mA.symbols; (sB,) = mB.symbols; (pB,) = mB.proxies
sA.module = mB                      # merge: accepted, both are listed
sA.referent = pB
assert len(list(mB.symbols_named("x"))) == 2 and len(list(pB.references)) == 2
sA.module = None                    # fine
errs = []
for attempt in (1, 2):
    try:
        mB.symbols.discard(sB)
    except KeyError as e:
        errs.append("attempt %d: KeyError(%s)" % (attempt, e))
in_module = sB in mB.symbols
named = list(mB.symbols_named("x"))
refs = list(pB.references)
exp_named = [s for s in mB.symbols if s.name == "x"]
exp_refs = [s for s in mB.symbols if s.referent is pB]
if named != exp_named or refs != exp_refs:
    print("C10 VIOLATED:", "; ".join(errs))
    print("  sB in mB.symbols =", in_module, " sB.module =", sB.module)
    print("  symbols_named('x') =", named, " expected", [s.name for s in exp_named])
    print("  pB.references      =", refs, " expected", [s.name for s in exp_refs])
    sys.exit(1)
print("ok"); sys.exit(0)
