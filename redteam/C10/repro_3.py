"""C10 (laziness): symbols_named / references are generators that walk the index's internal set.
Any tracked change to a yielded symbol while the lookup is being consumed (rename, payload change,
remove, move) makes the lookup raise RuntimeError instead of yielding the remaining symbols --
even when there is exactly ONE matching symbol."""
import sys; sys.path.insert(0, "/tmp/mutkit")
import gtirb_from_repo
gtirb = gtirb_from_repo.load()
bad = []

def world(n):
    ir = gtirb.IR(); m = gtirb.Module(name="m", ir=ir); m2 = gtirb.Module(name="m2", ir=ir)
    p = gtirb.ProxyBlock(module=m)
    syms = [gtirb.Symbol("a", payload=p, module=m) for _ in range(n)]
    return m, m2, p, syms

def attempt(tag, n, lookup, action):
    m, m2, p, syms = world(n)
    seen = []
    try:
        for s in lookup(m, p):
            seen.append(s)
            action(s, m, m2)
    except RuntimeError as e:
        bad.append("%s with %d matching symbol(s): yielded %d of %d then RuntimeError(%s)"
                   % (tag, n, len(seen), n, e))

for n in (1, 3):
    attempt("rename while iterating symbols_named", n, lambda m, p: m.symbols_named("a"), lambda s, m, m2: setattr(s, "name", "b"))
    attempt("move while iterating symbols_named", n, lambda m, p: m.symbols_named("a"), lambda s, m, m2: m2.symbols.add(s))
    attempt("remove while iterating symbols_named", n, lambda m, p: m.symbols_named("a"), lambda s, m, m2: m.symbols.discard(s))
    attempt("retarget while iterating references", n, lambda m, p: p.references, lambda s, m, m2: setattr(s, "value", 0))
# the bulk forms of the same idiom
m, m2, p, syms = world(3)
try: m2.symbols.update(m.symbols_named("a"))
except RuntimeError as e: bad.append("m2.symbols.update(m.symbols_named('a')): moved %d of 3 then RuntimeError(%s)" % (len(m2.symbols), e))
m, m2, p, syms = world(3)
try: m.symbols -= m.symbols_named("a")
except RuntimeError as e: bad.append("m.symbols -= m.symbols_named('a'): removed %d of 3 then RuntimeError(%s)" % (3 - len(m.symbols), e))

if bad:
    print("C10 VIOLATED (lookup does not yield all current matches):"); [print("  " + b) for b in bad]; sys.exit(1)
print("ok"); sys.exit(0)
