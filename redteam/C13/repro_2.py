"""C13: address/size changes of a byte interval are not propagated to the
section's address index when the owning Section object is falsy (a user
subclass with __len__/__bool__): util._IndexedAttribute.Descriptor.__set__
tests `if parent:` instead of `if parent is not None:`.

Run: VERIF_REPO=/tmp/hunt_C13 /venv/bin/python repro_2.py
"""
import sys

sys.path.insert(0, "/tmp/mutkit")
import gtirb_from_repo  # noqa: E402

gtirb = gtirb_from_repo.load()


class CountingSection(gtirb.Section):
    """len(section) == number of blocks in the section."""

    def __len__(self):
        return sum(len(bi.blocks) for bi in self.byte_intervals)


ir = gtirb.IR()
m = gtirb.Module(name="m", ir=ir)
sym = gtirb.Symbol(name="x", module=m)
s = CountingSection(name=".data", module=m)  # no blocks yet: bool(s) is False
bi = gtirb.ByteInterval(address=0x10, size=8, section=s)
bi.symbolic_expressions[2] = gtirb.SymAddrConst(0, sym)
for i in range(4):
    gtirb.ByteInterval(address=0x100 + 0x10 * i, size=4, section=s)

bad = False
print("before:", [(hex(t[0].address), t[1]) for t in s.symbolic_expressions_at(0x12)])
bi.address = 0x40  # plain address change
for name, c in (("section", s), ("module", m), ("ir", ir)):
    new = [(hex(t[0].address), t[1]) for t in c.symbolic_expressions_at(0x42)]
    old = [(hex(t[0].address), t[1]) for t in c.symbolic_expressions_at(0x12)]
    direct = [(hex(t[0].address), t[1]) for t in bi.symbolic_expressions_at(0x42)]
    print(name, "at 0x42:", new, "| at 0x12:", old, "| interval itself at 0x42:", direct)
    if new != direct:
        bad = True
        print(
            "VIOLATION (%s): stored in-extent expression at 0x42 (interval"
            " 0x40, size 8, offset 2) is not returned" % name
        )
sys.exit(1 if bad else 0)
