"""C13: after a failed detach (duplicate UUID in the IR's UUID table) a byte
interval stays in section.byte_intervals but is dropped from the section's
address index: Section/Module/IR.symbolic_expressions_at omit its in-extent
expressions; re-attaching it elsewhere makes the module return the triple twice.

Run: VERIF_REPO=/tmp/hunt_C13 /venv/bin/python repro_1.py
"""
import io
import sys

sys.path.insert(0, "/tmp/mutkit")
import gtirb_from_repo  # noqa: E402

gtirb = gtirb_from_repo.load()


def fresh_scan(container_intervals, q):
    """What the property promises: every stored, in-extent expression."""
    out = []
    for bi in container_intervals:
        if bi.address is None:
            continue
        for off in sorted(bi.symbolic_expressions):
            if bi.address + off in q and 0 <= off < bi.size:
                out.append((bi, off, bi.symbolic_expressions[off]))
    return out


# A small IR, saved once.
ir = gtirb.IR()
m = gtirb.Module(name="m", ir=ir)
sym = gtirb.Symbol(name="x", module=m)
s = gtirb.Section(name=".text", module=m)
gtirb.Section(name=".other", module=m)
bi = gtirb.ByteInterval(address=0x10, size=8, section=s)
bi.symbolic_expressions[2] = gtirb.SymAddrConst(0, sym)
for i in range(6):  # a few more intervals (index is updated, not rebuilt)
    gtirb.ByteInterval(address=0x100 + 0x10 * i, size=4, section=s)
buf = io.BytesIO()
ir.save_protobuf_file(buf)

# Two generations of the same file in one process.
A = gtirb.IR.load_protobuf_file(io.BytesIO(buf.getvalue()))
B = gtirb.IR.load_protobuf_file(io.BytesIO(buf.getvalue()))
sec_a = next(x for x in A.sections if x.name == ".text")
sec_b = next(x for x in B.sections if x.name == ".text")
other_b = next(x for x in B.sections if x.name == ".other")
bi_a = next(x for x in sec_a.byte_intervals if x.address == 0x10)
bi_b = next(x for x in sec_b.byte_intervals if x.address == 0x10)
assert bi_a.uuid == bi_b.uuid and bi_a is not bi_b

q = range(0, 0x80)
list(sec_b.symbolic_expressions_at(q))  # index of B's section is live

# Move A's interval into B's section (a plain "move"), at another address.
bi_a.address = 0x40
bi_a.section = sec_b
# Take both twins out again. The second detach fails half-way.
bi_a.section = None
try:
    bi_b.section = None
    print("second detach did not raise")
except KeyError as e:
    print("bi_b.section = None raised KeyError(%s)" % e)

bad = False
print("bi_b in sec_b.byte_intervals:", bi_b in sec_b.byte_intervals)
for name, c, contained in (
    ("section", sec_b, list(sec_b.byte_intervals)),
    ("module", sec_b.module, list(sec_b.module.byte_intervals)),
    ("ir", B, list(B.byte_intervals)),
):
    got = list(c.symbolic_expressions_at(q))
    want = fresh_scan(contained, q)
    if len(got) != len(want) or any(w not in got for w in want):
        bad = True
        print(
            "VIOLATION (%s): lookup returned %d triple(s), a fresh scan of the"
            " contained intervals finds %d (offset 2 of the interval at 0x10,"
            " size 8, is missing)" % (name, len(got), len(want))
        )

# Second consequence: the half-removed interval can be attached elsewhere and
# is then owned twice; after the index is rebuilt the module reports the same
# stored expression twice.
bi_b.section = other_b
for x in list(sec_b.byte_intervals):  # enough edits to force an index rebuild
    if x is not bi_b:
        x.address += 1
        x.address -= 1
got = [
    (t[0].uuid, t[1])
    for t in sec_b.module.symbolic_expressions_at(q)
    if t[0] is bi_b
]
print(
    "bi_b in .text:", bi_b in sec_b.byte_intervals,
    "| in .other:", bi_b in other_b.byte_intervals,
    "| triples for bi_b from module lookup:", len(got),
)
if len(got) != 1:
    bad = True
    print("VIOLATION (module): %d triples for one stored expression" % len(got))

sys.exit(1 if bad else 0)
