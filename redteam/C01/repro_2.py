"""C01: AuxData whose set element / mapping key type decodes to an unhashable
Python object saves fine, but the loaded table cannot be decoded."""
import io, sys
sys.path.insert(0, "/tmp/mutkit")
import gtirb_from_repo
gtirb = gtirb_from_repo.load()
Variant = gtirb.serialization.Variant

cases = [
    ({(1, 2), (3,)}, "set<sequence<int64_t>>"),
    ({(1, 2): "x"}, "mapping<sequence<int64_t>,string>"),
    ({frozenset({1})}, "set<set<int64_t>>"),
    ([Variant(0, 1)], "set<variant<int64_t,string>>"),
]
bad = 0
for data, type_name in cases:
    ir = gtirb.IR()
    ir.aux_data["t"] = gtirb.AuxData(data, type_name)
    buf = io.BytesIO(); ir.save_protobuf_file(buf); buf.seek(0)     # succeeds
    loaded = gtirb.IR.load_protobuf_file(buf)                        # succeeds (lazy)
    try:
        value = loaded.aux_data["t"].data
        print("ok  ", type_name, "->", value)
    except Exception as e:  # noqa
        bad += 1
        print("VIOLATION:", type_name, "saved from", data, "but reading the loaded table raises",
              type(e).__name__ + ":", e)
sys.exit(1 if bad else 0)
