"""C01: IR.version is a public constructor argument / attribute (uint32 in the
schema). Any value other than the current one saves, but the library refuses to
load its own file."""
import io, sys
sys.path.insert(0, "/tmp/mutkit")
import gtirb_from_repo
gtirb = gtirb_from_repo.load()

bad = 0
for v in (0, 3, 5, 2**32 - 1):
    ir = gtirb.IR(version=v)
    gtirb.Module(name="m", ir=ir)
    buf = io.BytesIO(); ir.save_protobuf_file(buf); buf.seek(0)
    try:
        loaded = gtirb.IR.load_protobuf_file(buf)
        if loaded.version != v:
            bad += 1; print("VIOLATION: version", v, "loaded as", loaded.version)
    except Exception as e:  # noqa
        bad += 1
        print("VIOLATION: IR(version=%d) saves, load raises %s: %s" % (v, type(e).__name__, e))
sys.exit(1 if bad else 0)
