"""C01 (scope): a Python float stored under the type "float" (32 bit) is rounded
by the encoder; the decoded value after save+load differs from the one in the
saved IR. The sanctioned table functionNameProbabilities uses this type."""
import io, sys
sys.path.insert(0, "/tmp/mutkit")
import gtirb_from_repo
gtirb = gtirb_from_repo.load()

ir = gtirb.IR()
m = gtirb.Module(name="m", ir=ir)
m.aux_data["functionNameProbabilities"] = gtirb.AuxData(
    {"src": {m: [("f", "g", 0.1)]}},
    "mapping<string,mapping<UUID,sequence<tuple<string,string,float>>>>",
)
buf = io.BytesIO(); ir.save_protobuf_file(buf); buf.seek(0)
loaded = gtirb.IR.load_protobuf_file(buf)
before = m.aux_data["functionNameProbabilities"].data["src"][m][0][2]
lm = loaded.modules[0]
after = lm.aux_data["functionNameProbabilities"].data["src"][lm][0][2]
print("before:", repr(before), " after:", repr(after))
if before != after:
    print("VIOLATION: decoded AuxData value changed across save+load")
    sys.exit(1)
sys.exit(0)
