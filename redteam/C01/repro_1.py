"""C01: a module (or table) taken from a LOADED IR and put into another IR keeps
resolving its not-yet-read AuxData tables against the IR it was loaded into.
The decoded value of the table in the IR that is saved therefore differs from the
decoded value after save+load (raw UUIDs vs the nodes)."""
import io, sys
sys.path.insert(0, "/tmp/mutkit")
import gtirb_from_repo
gtirb = gtirb_from_repo.load()

def roundtrip(ir):
    buf = io.BytesIO(); ir.save_protobuf_file(buf); buf.seek(0)
    return gtirb.IR.load_protobuf_file(buf)

src = gtirb.IR()
m = gtirb.Module(name="m", ir=src)
s = gtirb.Section(name=".text", module=m)
bi = gtirb.ByteInterval(size=4, contents=b"\x90" * 4, section=s)
cb = gtirb.CodeBlock(size=4, byte_interval=bi)
m.aux_data["alignment"] = gtirb.AuxData({cb: 16}, "mapping<UUID,uint64_t>")

loaded = roundtrip(src)                      # e.g. a file read from disk
merged = gtirb.IR()                          # merge / re-home the module
merged.modules.extend(loaded.modules)        # everything the table mentions moves along: self-contained

again = roundtrip(merged)
key_before = next(iter(merged.modules[0].aux_data["alignment"].data))
key_after = next(iter(again.modules[0].aux_data["alignment"].data))
print("decoded key in the IR that was saved :", type(key_before).__name__, key_before)
print("decoded key after save + load        :", type(key_after).__name__, key_after)
same_kind = type(key_before) is type(key_after)
if not same_kind:
    print("VIOLATION: AuxData decoded values differ between the saved IR and the loaded IR "
          "(the block is attached to `merged`, merged.get_by_uuid finds it: %r)"
          % (merged.get_by_uuid(cb.uuid) is not None))
    sys.exit(1)
sys.exit(0)
