"""C01: an opaque table (UnknownData) stored under a type name the parser
rejects ("" or "foo<") saves; the loaded table's .data raises instead of giving
the same UnknownData back (an unknown but well-formed name such as "foo" works)."""
import io, sys
sys.path.insert(0, "/tmp/mutkit")
import gtirb_from_repo
gtirb = gtirb_from_repo.load()
UnknownData = gtirb.serialization.UnknownData

bad = 0
for type_name in ("foo", "", "foo<", "a,b"):
    ir = gtirb.IR()
    ir.aux_data["t"] = gtirb.AuxData(UnknownData(b"\x01\x02"), type_name)
    buf = io.BytesIO(); ir.save_protobuf_file(buf); buf.seek(0)
    loaded = gtirb.IR.load_protobuf_file(buf)
    try:
        v = loaded.aux_data["t"].data
        same = isinstance(v, UnknownData) and v == b"\x01\x02" and loaded.aux_data["t"].type_name == type_name
        print("ok  " if same else "DIFF", repr(type_name), "->", repr(v))
        bad += not same
    except Exception as e:  # noqa
        bad += 1
        print("VIOLATION: type name %r saves, reading the loaded table raises %s: %s" % (type_name, type(e).__name__, e))
sys.exit(1 if bad else 0)
